#!/bin/sh
# Builds the conformance harness offline from files on disk and checks the
# tools the checks rely on.  Run once in /verif after a fresh restore.
set -e
cd "$(dirname "$0")"
export CARGO_NET_OFFLINE=true
java -version 2>&1 | head -1
test -f /opt/veriftools/tla/tla2tools.jar
mkdir -p work evidence replay
(cd harness && cargo build --offline --release --workspace 2>&1 | tail -3)
# parse every specification module once (catches a broken toolchain early)
for f in spec/*.tla; do
  java -cp /opt/veriftools/tla/tla2tools.jar:/opt/veriftools/tla/CommunityModules-deps.jar tla2sany.SANY "$f" >/dev/null 2>&1 \
    || { echo "SANY failed on $f"; (cd spec && java -cp /opt/veriftools/tla/tla2tools.jar:/opt/veriftools/tla/CommunityModules-deps.jar tla2sany.SANY "$(basename $f)" | tail -20); exit 1; }
done
echo "setup ok"
