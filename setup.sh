#!/bin/sh
# Builds the conformance harness offline from files on disk and checks the
# tools the checks rely on.  Run once in /verif after a fresh restore.
# (Every check rebuilds its own harness package again from /repo's current
# working tree, so this is a warm-up, not a prerequisite for soundness.)
cd "$(dirname "$0")" || exit 1
export CARGO_NET_OFFLINE=true
java -version 2>&1 | head -1
test -f /opt/veriftools/tla/tla2tools.jar || { echo "tla2tools.jar missing"; exit 1; }
mkdir -p work evidence replay
(cd harness && cargo build --offline --release --workspace --keep-going 2>&1 | tail -3)
test -x harness/target/release/yv-c12 || { echo "harness build failed"; exit 1; }
# parse every specification module once (catches a broken toolchain early)
bad=0
for f in spec/*.tla; do
  (cd spec && java -cp /opt/veriftools/tla/tla2tools.jar:/opt/veriftools/tla/CommunityModules-deps.jar tla2sany.SANY "$(basename "$f")" >/dev/null 2>&1) \
    || { echo "warning: SANY failed on $f"; bad=$((bad+1)); }
done
echo "setup ok ($bad module(s) with parse warnings)"
