#!/usr/bin/env python3
"""Prints the prompt for an independent mutation-seeding sub-agent: only the
property text and a scratch worktree — nothing from /verif."""
import json, sys
pid = sys.argv[1]
n = sys.argv[2] if len(sys.argv) > 2 else "2"
wave = sys.argv[3] if len(sys.argv) > 3 else ""
W = f"-w{wave}" if wave else ""
p = {json.loads(l)['id']: json.loads(l) for l in open('/verif/properties.jsonl')}[pid]
mech = "; ".join(f"{m.get('name')} ({m.get('where')})" for m in p['anchors'].get('mechanism', []) if isinstance(m, dict)) \
    if isinstance(p['anchors'].get('mechanism'), list) else str(p['anchors'].get('mechanism', ''))
print(f"""You are testing the test-adequacy of a Rust project: magicant/yash-rs (a POSIX shell written in Rust). You have your own scratch git worktree of the repository at /tmp/seed-{pid}{W} (create nothing outside /tmp/seed-{pid}{W} and /tmp/seed-{pid}{W}-out; do NOT look at or touch /verif or /repo; do not use the network — the sandbox is offline, pass --offline to cargo).

Here is a semantic property the shell is supposed to satisfy:

  {p['title']}
  {p['statement']}
  (Quantified over: {p['quantifier']['text']})
  Relevant code: {', '.join(p['anchors']['files'])}
  Mechanisms: {mech}

Your task: produce {n} DIFFERENT, realistic changes to the repository's source code (like a plausible bug a maintainer could introduce in a refactoring or an optimisation), each of which
  1. BREAKS the property above (a user-visible violation of the statement),
  2. still compiles, and still passes the repository's existing test suite: run `cargo nextest run --workspace --no-fail-fast --offline` (or `cargo test --workspace --no-fail-fast --offline` if nextest is unavailable) in the worktree BEFORE changing anything to learn which tests fail anyway in this sandbox (the `yash-cli` `scripted_test::*` integration tests are known to fail here for environmental reasons — ignore them), then after your change: the set of failing tests must be unchanged,
  3. needs something SPECIFIC to manifest — a particular interleaving, a fault at a particular point, a multi-step sequence of operations, an unusual input, or two cooperating sites that each look fine alone — NOT something ordinary use would expose at once,
  4. comes with a DEMONSTRATION: a small Rust test (e.g. a file to drop into the relevant crate's tests/ directory, or a `#[test]` in a new file) or a small shell script run through the built `yash3` binary (target/debug/yash3) that FAILS with the change and PASSES without it. Verify both directions yourself.
{"Diversity: this is a second round - other changes to this code have been tried before; do NOT pick the most obvious site. Choose less central mechanisms and files among the relevant code (secondary built-ins, error paths, rarely combined options, boundary values, interactions between two features), and make the two changes as different from each other as possible. " if wave else ""}Do not edit existing tests. Keep each change small (a few lines). Make the changes independent of each other (each applies alone to the unmodified tree).

Deliver, for k = 1..{n}: /tmp/seed-{pid}{W}-out/k/patch.diff (output of `git diff` for that change alone, applying with `git apply` to the unmodified tree), /tmp/seed-{pid}{W}-out/k/demo (the demonstration file(s), plus how to run it in a file RUN.md, AND an executable script demo/run_demo.sh that takes the path of a repository worktree as its only argument, copies/builds whatever the demonstration needs inside that worktree (e.g. copies a Rust test into the crate's tests/ directory and runs `cargo test --offline -p <crate> --test <name>`, or runs `cargo build --offline -p yash-cli` and then the shell script through <worktree>/target/debug/yash3), and exits 0 if the demonstration PASSES (property holds) and non-zero if it FAILS; it must work for any worktree path), /tmp/seed-{pid}{W}-out/k/meta.json with keys: property ("{pid}"), summary (what the change does), needs (what specific circumstances make it manifest), ran (the exact commands you ran and their outcome: tests before/after, demo before/after). When done, restore the worktree to the unmodified state (`git checkout -- .`, remove untracked files you added, and run `cargo clean` in it to free disk space) and reply with a short summary of the {n} changes.""")
