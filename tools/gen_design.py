#!/usr/bin/env python3
"""Regenerates the machine-maintained parts of DESIGN.md section 12 (between
<!-- AUTO:name --> and <!-- /AUTO:name --> markers) from tools/registry.json,
known_findings.json, seeded/catch_matrix.json and seeded/*/meta.json."""
import json, os, re, glob
R = '/verif'
reg = json.load(open(f'{R}/tools/registry.json'))
kf = json.load(open(f'{R}/known_findings.json'))['findings']
cm = json.load(open(f'{R}/seeded/catch_matrix.json'))
titles = {json.loads(l)['id']: json.loads(l)['title'] for l in open(f'{R}/properties.jsonl')}

def sec_checks():
    out = []
    for pid in sorted(reg['checks']):
        c = reg['checks'][pid]
        claimed = pid in reg.get('verified', [])
        out.append(f"**{pid} — {titles[pid]}**" + ("" if claimed else "  *(not yet claimed)*"))
        out.append("")
        out.append(c['text'])
        out.append("")
        out.append(f"*Assumed / not covered:* {c['note']}")
        out.append("")
    return "\n".join(out)

def sec_findings():
    out = ["| property | id | status | what fails |", "|---|---|---|---|"]
    seen = set()
    for f in kf:
        key = (f['property'], f['id'])
        if key in seen:
            continue
        seen.add(key)
        st = f"fixed in `{f.get('commit', '?')}`" if f['kind'] == 'fixed' else "known finding"
        what = f['what'].replace('|', '\\|').replace('\n', ' ')
        if len(what) > 330:
            what = what[:327] + '...'
        out.append(f"| {f['property']} | {f['id']} | {st} | {what} |")
    return "\n".join(out)

def sec_benign():
    out = ["| change | property | kind | what it changes | quick check |", "|---|---|---|---|---|"]
    for d in sorted(glob.glob(f'{R}/seeded/benign/*/meta.json')):
        m = json.load(open(d))
        name = os.path.basename(os.path.dirname(d))
        q = m.get('quick_check_result', {})
        res = "silent (exit 0)" if q.get('exit') == 0 and not q.get('violations') else f"ALARM (exit {q.get('exit')}) - see 12.9 notes"
        if m.get('triage'):
            res += "; " + m['triage']
        summ = str(m.get('summary', '')).replace('|', '\\|').replace('\n', ' ')
        if len(summ) > 260:
            summ = summ[:257] + '...'
        out.append(f"| {name} | {m.get('property', name[:3])} | {m.get('kind', '')} | {summ} | {res} |")
    return "\n".join(out)


def sec_seeds():
    out = ["| seeded change | property | what it needs to manifest | result | detected by |", "|---|---|---|---|---|"]
    for d in sorted(glob.glob(f'{R}/seeded/C*')):
        name = os.path.basename(d)
        if not os.path.isdir(d):
            continue
        meta = json.load(open(f'{d}/meta.json'))
        m = cm.get(name, {})
        needs = str(meta.get('needs_to_manifest', '')).replace('|', '\\|').replace('\n', ' ')
        if len(needs) > 260:
            needs = needs[:257] + '...'
        out.append(f"| {name} | {meta['property']} | {needs} | {m.get('result', 'pending')} | {m.get('by', '')} |")
    return "\n".join(out)

def sec_growth():
    g = reg.get('growth', {})
    if not g:
        return "*(growth modules under construction)*"
    out = []
    for gid in sorted(g):
        out.append(f"**{gid} — {g[gid]['title']}**  {g[gid]['text']}")
        out.append("")
    return "\n".join(out)

gen = {'checks': sec_checks, 'findings': sec_findings, 'seeds': sec_seeds, 'growth': sec_growth, 'benign': sec_benign}
s = open(f'{R}/DESIGN.md').read()
for name, fn in gen.items():
    pat = re.compile(rf'(<!-- AUTO:{name} -->\n).*?(<!-- /AUTO:{name} -->)', re.S)
    if not pat.search(s):
        print('marker missing:', name)
        continue
    s = pat.sub(lambda m: m.group(1) + fn() + "\n" + m.group(2), s)
open(f'{R}/DESIGN.md', 'w').write(s)
print('DESIGN.md regenerated')
