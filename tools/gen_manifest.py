#!/usr/bin/env python3
"""Regenerates MANIFEST.json from tools/registry.json (one entry per claimed
property) — unclaimed properties are listed under not_applicable."""
import json
ids = [json.loads(l)['id'] for l in open('/verif/properties.jsonl')]
reg = json.load(open('/verif/tools/registry.json'))
claimed = sorted(c for c in reg['checks'] if c in reg.get('verified', []))
checks = []
for pid in claimed:
    c = reg['checks'][pid]
    checks.append({
        "property_id": pid,
        "quick_cmd": f"./check {pid} --tier quick",
        "thorough_cmd": f"./check {pid} --tier thorough",
        "evidence_file": f"/verif/evidence/{pid}.json",
        "replay_cmd_template": f"./check {pid} --replay {{path}}",
        "engine": "tlc",
        "level_claimed": {"category": "model_checking", "text": c["text"], "design_ref": c.get("design_ref", f"DESIGN.md section 6 ({pid}) and section 12")},
        "level_note": c["note"],
        "technique": c["technique"],
    })
na = [{"property_id": i, "reason": reg.get("not_applicable", {}).get(i, "check under construction in this session (specification module planned in DESIGN.md section 6); not claimed until its check is silent on the unchanged tree")}
      for i in ids if i not in claimed]
m = {
    "version": 1,
    "setup_cmd": "./setup.sh",
    "hooks": {"guard": "yash_rs_verif",
              "enable": "harness/.cargo/config.toml passes --cfg yash_rs_verif to every crate of /repo built as a path dependency of the harness workspace (no hook lines exist in /repo: see DESIGN.md 12.2)",
              "baseline_off_cmd": "cd /repo && cargo nextest run --workspace --no-fail-fast --offline || cargo test --workspace --no-fail-fast --offline",
              "source_commits": reg.get("hook_commits", []), "add_only": True},
    "engines": [
        {"name": "tlc", "path": "/opt/veriftools/tla/tla2tools.jar", "serves_properties": claimed,
         "kind_free_text": "TLC 1.8.0 explicit-state model checker: bounded model checking of spec/*.tla, generator of replay lines (behaviours / enumerated inputs with the outcome the specification prescribes), validator of traces recorded from the real code"},
        {"name": "harness", "path": "/verif/harness", "serves_properties": claimed,
         "kind_free_text": "Rust conformance harness (cargo workspace with path dependencies on /repo): replays TLC-generated behaviours on the real code and records ndjson traces for validation by TLC; shell runner on the simulated OS with a controllable scheduler and probe built-ins; real-OS runner"}],
    "checks": checks,
    "notes": "Every check: ./check <ID> --tier quick|thorough [--replay F]. Exit 0 held / 1 violation (VIOLATION line + replay file) / 2 tool error. known_findings.json lists genuine defects recorded or fixed. See DESIGN.md section 12.",
}
m["not_applicable"] = na  # empty: every listed property is claimed
json.dump(m, open('/verif/MANIFEST.json', 'w'), indent=1)
print("claimed:", claimed)
