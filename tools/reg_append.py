#!/usr/bin/env python3
"""tools/reg_append.py <PID> <file-with-paragraph>: append a paragraph to the check's description in tools/registry.json"""
import json, sys
pid, f = sys.argv[1], sys.argv[2]
r = json.load(open('/verif/tools/registry.json'))
para = open(f).read().strip().replace('\n', ' ')
sec = r['checks'] if pid in r['checks'] else r['growth']
if para not in sec[pid]['text']:
    sec[pid]['text'] = sec[pid]['text'].rstrip() + ' ' + para
json.dump(r, open('/verif/tools/registry.json', 'w'), indent=1)
print('ok', pid, len(sec[pid]['text']))
