#!/usr/bin/env python3
"""Prints the prompt for an independent sub-agent that writes PROPERTY-PRESERVING
changes (the checks must stay silent on them): only the property text and a
scratch worktree — nothing from /verif."""
import json, sys
pid = sys.argv[1]
n = sys.argv[2] if len(sys.argv) > 2 else "3"
p = {json.loads(l)['id']: json.loads(l) for l in open('/verif/properties.jsonl')}[pid]
mech = "; ".join(f"{m.get('name')} ({m.get('where')})" for m in p['anchors'].get('mechanism', []) if isinstance(m, dict)) \
    if isinstance(p['anchors'].get('mechanism'), list) else str(p['anchors'].get('mechanism', ''))
D = f"/tmp/benign-{pid}"
print(f"""You are helping evaluate a verification tool for a Rust project: magicant/yash-rs (a POSIX shell written in Rust). You have your own scratch git worktree of the repository at {D} (create nothing outside {D} and {D}-out; do NOT look at or touch /verif or /repo; the sandbox is offline, pass --offline to cargo; limit cargo parallelism to 6 jobs: `--build-jobs 6 --test-threads 6` for nextest, `-j 6` for build/test).

Here is a semantic property the shell satisfies:

  {p['title']}
  {p['statement']}
  (Quantified over: {p['quantifier']['text']})
  Relevant code: {', '.join(p['anchors']['files'])}
  Mechanisms: {mech}

Your task: produce {n} DIFFERENT, realistic changes to the repository's source code IN THE RELEVANT CODE ABOVE, of the kind a maintainer makes all the time, each of which
  1. PRESERVES the property: after the change the statement above still holds for every input / schedule / history it quantifies over, and so does everything POSIX (XCU 2024) and the project's manual (docs/src) require of the touched code. The change must alter only what the property, POSIX and the manual leave free. Good kinds: (a) a real refactoring of the mechanism (different data structure or algorithm, reordered internal steps whose order nobody can observe or nobody constrains, merged/split helper functions, an added fast path that yields identical results); (b) a change of an UNCONSTRAINED choice that is observable but that no document fixes - e.g. which descriptor number >= 10 holds a saved copy, which of several eligible jobs becomes the previous job, the order in which two ready tasks are polled as long as none starves, the wording of a diagnostic message on stderr, buffer / chunk sizes of internal reads that do not over-consume input, an exit status changed within the range POSIX allows where neither POSIX nor the manual fixes the value, the number or order of system calls issued when the final result is the same; (c) a performance optimisation with identical results.
  2. is NOT a no-op: it must change the compiled code on the path the property talks about (not comments, not renames only, not dead code), and at least one of the {n} must be of kind (b) - observably different in a way the property does not constrain.
  3. compiles and passes the repository's existing test suite: run `cargo nextest run --workspace --no-fail-fast --offline --build-jobs 6 --test-threads 6` in the worktree BEFORE changing anything to learn which tests fail anyway in this sandbox (the `yash-cli` `scripted_test::*` integration tests are known to fail here for environmental reasons - ignore them); after your change the set of failing tests must be unchanged. If a unit test pins the detail you wanted to change, choose something else (do not edit existing tests).
  4. comes with a written ARGUMENT (meta.json, key `why_property_holds`) of why the property still holds for everything it quantifies over, naming the clause of POSIX / the manual (or its silence) that leaves the changed detail free, and (key `observable_difference`) what, if anything, a user or a test harness could observe differently.
Be careful and honest: if you are not sure that a change preserves the property and the documented behaviour, do not deliver it. Keep each change small to medium (a few to a few dozen lines), independent of the others (each applies alone to the unmodified tree).

Deliver, for k = 1..{n}: {D}-out/k/patch.diff (output of `git diff` for that change alone, applying with `git apply` to the unmodified tree) and {D}-out/k/meta.json with keys: property ("{pid}"), kind ("refactoring" | "unconstrained-choice" | "optimisation"), summary, why_property_holds, observable_difference, ran (the commands you ran and their outcome: tests before/after). When done, restore the worktree to the unmodified state (`git checkout -- .`, remove untracked files you added, and run `cargo clean` in it to free disk space) and reply with a short summary of the {n} changes.""")
