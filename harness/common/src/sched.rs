//! A controllable scheduler for the processes of the simulated OS
//! (`yash_env::system::virtual::Executor`).  Every simulated process is a
//! task; at each step one of the tasks whose waker has fired is polled.  Which
//! one is the *schedule*: FIFO (what the project's own test helper does), a
//! recorded/enumerated list of choices (depth-first exploration), or seeded
//! random.
use rand::{Rng, SeedableRng};
use std::cell::{Cell, RefCell};
use std::pin::Pin;
use std::rc::Rc;
use std::sync::Arc;
use std::sync::atomic::{AtomicBool, AtomicU64, Ordering};
use std::task::{Context, Poll, Wake, Waker};
use yash_env::system::r#virtual::{Executor, SystemState};

#[derive(Clone, Debug)]
pub enum Schedule {
    /// Oldest wake-up first.
    Fifo,
    /// Follow the given choices (index into the ready list, oldest wake-up
    /// first) at successive choice points; FIFO afterwards.
    Prefix(Vec<usize>),
    /// Seeded random choice at every choice point.
    Random(u64),
}

#[derive(Clone, Debug, PartialEq, Eq)]
pub enum Outcome {
    Completed,
    /// No task can run, the main task is unfinished and no timer is pending.
    Deadlock,
    StepLimit,
    Panic(String),
}

static WAKE_SEQ: AtomicU64 = AtomicU64::new(1);

struct Flag {
    woken: AtomicBool,
    seq: AtomicU64,
}

impl Wake for Flag {
    fn wake(self: Arc<Self>) {
        self.wake_by_ref()
    }
    fn wake_by_ref(self: &Arc<Self>) {
        if !self.woken.swap(true, Ordering::SeqCst) {
            self.seq.store(WAKE_SEQ.fetch_add(1, Ordering::SeqCst), Ordering::SeqCst);
        }
    }
}

type Task = Pin<Box<dyn Future<Output = ()>>>;

struct Slot {
    fut: Option<Task>,
    flag: Arc<Flag>,
}

pub struct Scheduler {
    tasks: RefCell<Vec<Slot>>,
    incoming: RefCell<Vec<Task>>,
    schedule: Schedule,
    rng: RefCell<rand::rngs::StdRng>,
    choices: RefCell<Vec<(usize, usize)>>,
    polls: Cell<usize>,
    step_limit: usize,
    /// Called after every poll with the index of the polled task.
    #[allow(clippy::type_complexity)]
    pub observer: RefCell<Option<Box<dyn FnMut(usize)>>>,
}

impl std::fmt::Debug for Scheduler {
    fn fmt(&self, f: &mut std::fmt::Formatter<'_>) -> std::fmt::Result {
        f.write_str("Scheduler")
    }
}

impl Executor for Scheduler {
    fn spawn(&self, task: Task) -> Result<(), Box<dyn std::error::Error>> {
        self.incoming.borrow_mut().push(task);
        Ok(())
    }
}

fn new_slot(fut: Task) -> Slot {
    let flag = Arc::new(Flag { woken: AtomicBool::new(false), seq: AtomicU64::new(0) });
    flag.wake_by_ref(); // a new task is runnable
    Slot { fut: Some(fut), flag }
}

impl Scheduler {
    pub fn new(schedule: Schedule, step_limit: usize) -> Self {
        let seed = match &schedule {
            Schedule::Random(s) => *s,
            _ => 0,
        };
        Scheduler {
            tasks: RefCell::new(vec![]),
            incoming: RefCell::new(vec![]),
            schedule,
            rng: RefCell::new(rand::rngs::StdRng::seed_from_u64(seed)),
            choices: RefCell::new(vec![]),
            polls: Cell::new(0),
            step_limit,
            observer: RefCell::new(None),
        }
    }

    pub fn choices(&self) -> Vec<(usize, usize)> {
        self.choices.borrow().clone()
    }

    pub fn polls(&self) -> usize {
        self.polls.get()
    }

    fn adopt_incoming(&self) {
        let new: Vec<Task> = std::mem::take(&mut *self.incoming.borrow_mut());
        let mut tasks = self.tasks.borrow_mut();
        for t in new {
            tasks.push(new_slot(t));
        }
    }

    fn choose(&self, n: usize) -> usize {
        if n <= 1 {
            return 0;
        }
        let k = self.choices.borrow().len();
        let c = match &self.schedule {
            Schedule::Fifo => 0,
            Schedule::Prefix(p) => p.get(k).copied().unwrap_or(0).min(n - 1),
            Schedule::Random(_) => self.rng.borrow_mut().gen_range(0..n),
        };
        self.choices.borrow_mut().push((c, n));
        c
    }

    /// Runs `main` (task 0) and every task spawned meanwhile until `main`
    /// completes.  Child tasks still runnable after that are run to a stall
    /// too (background jobs of a finished shell keep running in a real
    /// system as well), within the step limit.
    pub fn run_main(&self, main: Task, state: &Rc<RefCell<SystemState>>) -> Outcome {
        self.tasks.borrow_mut().push(new_slot(main));
        let mut main_done = false;
        loop {
            self.adopt_incoming();
            // ready list, oldest wake-up first
            let mut ready: Vec<(u64, usize)> = self
                .tasks
                .borrow()
                .iter()
                .enumerate()
                .filter(|(_, s)| s.fut.is_some() && s.flag.woken.load(Ordering::SeqCst))
                .map(|(i, s)| (s.flag.seq.load(Ordering::SeqCst), i))
                .collect();
            ready.sort();
            if ready.is_empty() {
                if main_done {
                    return Outcome::Completed;
                }
                let mut st = state.borrow_mut();
                if let Some(t) = st.scheduled_wakers.next_wake_time() {
                    st.advance_time(t);
                    continue;
                }
                return Outcome::Deadlock;
            }
            if self.polls.get() >= self.step_limit {
                return Outcome::StepLimit;
            }
            let idx = ready[self.choose(ready.len())].1;
            let (mut fut, flag) = {
                let mut tasks = self.tasks.borrow_mut();
                let slot = &mut tasks[idx];
                slot.flag.woken.store(false, Ordering::SeqCst);
                (slot.fut.take().unwrap(), Arc::clone(&slot.flag))
            };
            self.polls.set(self.polls.get() + 1);
            let waker = Waker::from(flag);
            let mut cx = Context::from_waker(&waker);
            let r = std::panic::catch_unwind(std::panic::AssertUnwindSafe(|| fut.as_mut().poll(&mut cx)));
            if r.is_ok() {
                if let Some(f) = self.observer.borrow_mut().as_mut() {
                    f(idx);
                }
            }
            match r {
                Ok(Poll::Ready(())) => {
                    if idx == 0 {
                        main_done = true;
                    }
                }
                Ok(Poll::Pending) => {
                    self.tasks.borrow_mut()[idx].fut = Some(fut);
                }
                Err(e) => {
                    let msg = if let Some(s) = e.downcast_ref::<&str>() {
                        s.to_string()
                    } else if let Some(s) = e.downcast_ref::<String>() {
                        s.clone()
                    } else {
                        "panic".to_string()
                    };
                    // the future is in an unknown state: leak it rather than drop it
                    std::mem::forget(fut);
                    return Outcome::Panic(format!("task {idx}: {msg}"));
                }
            }
        }
    }
}

/// Depth-first enumeration of schedules: given the choices taken by the last
/// run, the next prefix to try (bounded to the first `depth` choice points),
/// or `None` when the space is exhausted.
pub fn next_prefix(choices: &[(usize, usize)], depth: usize) -> Option<Vec<usize>> {
    let lim = choices.len().min(depth);
    for k in (0..lim).rev() {
        let (c, n) = choices[k];
        if c + 1 < n {
            let mut p: Vec<usize> = choices[..k].iter().map(|x| x.0).collect();
            p.push(c + 1);
            return Some(p);
        }
    }
    None
}
