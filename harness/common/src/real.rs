//! Running the shell on the REAL operating system, in a child process of the
//! harness and inside a fresh scratch directory (DESIGN.md 3.4).
//!
//! Two modes: the *mirror* (`RealSystem` under the same runner and the same
//! generic probe built-ins as the simulated runs, so the two differ in nothing
//! but the system implementation) and the *true entry point*
//! (`yash_cli::main()` unchanged).
//!
//! Every harness binary that uses this module must call
//! [`maybe_child_main`] first thing in `main`.
use crate::shell::{EVENT_FILE, FileSpec, register_generic_probes, shell_body};
use serde_json::Value;
use std::io::Write as _;
use std::path::{Path, PathBuf};
use std::process::{Command, Stdio};
use std::rc::Rc;
use std::time::{Duration, Instant};
use yash_cli::startup::args::Parse;
use yash_env::Env;
use yash_env::RealSystem;
use yash_env::semantics::exit_or_raise;
use yash_env::system::{Concurrent, Disposition, Sigaction as _, Signals as _};

/// If this process was started as a shell child of the harness, run the shell
/// and never return.
pub fn maybe_child_main() {
    match std::env::var("YV_CHILD").as_deref() {
        Ok("yash") => {
            // SAFETY: single-threaded at this point
            unsafe { std::env::remove_var("YV_CHILD") };
            yash_cli::main()
        }
        Ok("mirror") => {
            unsafe { std::env::remove_var("YV_CHILD") };
            mirror_main()
        }
        _ => {}
    }
}

fn mirror_main() -> ! {
    if let Ok(p) = std::env::var("YV_EVENTS") {
        EVENT_FILE.with(|f| *f.borrow_mut() = Some(p));
        unsafe { std::env::remove_var("YV_EVENTS") };
    }
    // SAFETY: the only RealSystem in this process
    let system = unsafe { RealSystem::new() };
    system.sigaction(RealSystem::SIGPIPE, Disposition::Default).ok();
    let system = Rc::new(Concurrent::new(system));
    let runner = Rc::clone(&system);
    let task = async {
        let mut env = Env::with_system(system);
        match yash_cli::startup::args::parse(std::env::args()) {
            Ok(Parse::Run(run)) => {
                env.variables.extend_env(std::env::vars());
                shell_body(&mut env, run, |env| register_generic_probes(env)).await;
            }
            _ => env.exit_status = yash_env::semantics::ExitStatus(2),
        }
        exit_or_raise(&env.system, env.exit_status).await
    };
    runner.run_real(task)
}

pub struct RealCfg {
    /// Arguments after the program name, e.g. `["-c", "echo hi"]`.
    pub args: Vec<String>,
    pub stdin: Vec<u8>,
    /// Files created beneath the scratch directory (paths relative to it, or
    /// absolute paths that are re-rooted under it).
    pub files: Vec<FileSpec>,
    /// `true`: mirror runner with probe built-ins; `false`: `yash_cli::main()`.
    pub mirror: bool,
    pub timeout: Duration,
    pub env: Vec<(String, String)>,
}

impl RealCfg {
    pub fn command(script: &str, mirror: bool) -> Self {
        RealCfg {
            args: vec!["-c".into(), script.into()],
            stdin: vec![],
            files: vec![],
            mirror,
            timeout: Duration::from_secs(10),
            env: vec![],
        }
    }
}

pub struct RealResult {
    /// exit code, or 128+signal if killed by a signal; -1 on timeout
    pub status: i32,
    pub timed_out: bool,
    pub stdout: Vec<u8>,
    pub stderr: Vec<u8>,
    pub events: Vec<Value>,
    /// regular files beneath the scratch directory after the run: (relative path, content)
    pub files: Vec<(String, Vec<u8>)>,
    /// directories beneath the scratch directory after the run (relative paths)
    pub dirs: Vec<String>,
}

static COUNTER: std::sync::atomic::AtomicUsize = std::sync::atomic::AtomicUsize::new(0);

fn scratch_root() -> PathBuf {
    let base = std::env::var("VERIF_SCRATCH").unwrap_or_else(|_| "/verif".to_string());
    Path::new(&base).join("work").join("real")
}

fn rel(path: &str) -> &str {
    path.trim_start_matches('/')
}

fn collect(dir: &Path, base: &Path, files: &mut Vec<(String, Vec<u8>)>, dirs: &mut Vec<String>) {
    let Ok(rd) = std::fs::read_dir(dir) else { return };
    let mut entries: Vec<_> = rd.flatten().collect();
    entries.sort_by_key(|e| e.file_name());
    for e in entries {
        let p = e.path();
        let r = p.strip_prefix(base).unwrap().to_string_lossy().into_owned();
        let Ok(md) = std::fs::symlink_metadata(&p) else { continue };
        if md.is_dir() {
            dirs.push(r);
            collect(&p, base, files, dirs);
        } else if md.is_file() {
            files.push((r, std::fs::read(&p).unwrap_or_default()));
        }
    }
}

/// Runs the shell on the real OS with the scratch directory as its working
/// directory; the scratch directory is removed afterwards.
///
/// A wall-clock timeout is reported only if it reproduces: on a heavily loaded
/// machine a run can be starved past its limit (observed once at load 60+),
/// and a hang that does not happen again cannot be replayed either, so the
/// run is repeated once before `timed_out` is reported.
pub fn run_real(cfg: &RealCfg) -> RealResult {
    let first = run_real_once(cfg);
    if first.timed_out { run_real_once(cfg) } else { first }
}

fn run_real_once(cfg: &RealCfg) -> RealResult {
    let n = COUNTER.fetch_add(1, std::sync::atomic::Ordering::SeqCst);
    let root = scratch_root().join(format!("{}-{}", std::process::id(), n));
    let _ = std::fs::remove_dir_all(&root);
    let dir = root.join("d");
    std::fs::create_dir_all(&dir).expect("scratch dir");
    for f in &cfg.files {
        match f {
            FileSpec::Regular { path, content, mode } => {
                let p = dir.join(rel(path));
                if let Some(parent) = p.parent() {
                    let _ = std::fs::create_dir_all(parent);
                }
                std::fs::write(&p, content).unwrap();
                #[cfg(unix)]
                {
                    use std::os::unix::fs::PermissionsExt as _;
                    let _ = std::fs::set_permissions(&p, std::fs::Permissions::from_mode(*mode));
                }
            }
            FileSpec::Dir { path } => {
                let _ = std::fs::create_dir_all(dir.join(rel(path)));
            }
            FileSpec::Symlink { path, target } => {
                let p = dir.join(rel(path));
                if let Some(parent) = p.parent() {
                    let _ = std::fs::create_dir_all(parent);
                }
                let _ = std::os::unix::fs::symlink(target, p);
            }
            FileSpec::Fifo { path } => {
                let p = dir.join(rel(path));
                let c = std::ffi::CString::new(p.to_string_lossy().as_bytes()).unwrap();
                unsafe { libc::mkfifo(c.as_ptr(), 0o644) };
            }
        }
    }
    let stdin_path = root.join("stdin");
    std::fs::File::create(&stdin_path).unwrap().write_all(&cfg.stdin).unwrap();
    let out_path = root.join("stdout");
    let err_path = root.join("stderr");
    let ev_path = root.join("events");
    let exe = std::env::current_exe().expect("current_exe");
    let mut cmd = Command::new(exe);
    cmd.args(&cfg.args)
        .current_dir(&dir)
        .env_clear()
        .env("PATH", "/bin:/usr/bin")
        .env("LC_ALL", "C")
        .env("YV_CHILD", if cfg.mirror { "mirror" } else { "yash" })
        .env("YV_EVENTS", &ev_path)
        .stdin(Stdio::from(std::fs::File::open(&stdin_path).unwrap()))
        .stdout(Stdio::from(std::fs::File::create(&out_path).unwrap()))
        .stderr(Stdio::from(std::fs::File::create(&err_path).unwrap()));
    for (k, v) in &cfg.env {
        cmd.env(k, v);
    }
    #[cfg(unix)]
    {
        use std::os::unix::process::CommandExt as _;
        // own process group, so that a timeout can kill stray children too
        cmd.process_group(0);
    }
    let mut child = cmd.spawn().expect("spawn shell child");
    let t0 = Instant::now();
    let mut timed_out = false;
    let status = loop {
        match child.try_wait() {
            Ok(Some(st)) => break Some(st),
            Ok(None) => {
                if t0.elapsed() > cfg.timeout {
                    timed_out = true;
                    unsafe { libc::kill(-(child.id() as i32), libc::SIGKILL) };
                    let _ = child.kill();
                    let _ = child.wait();
                    break None;
                }
                std::thread::sleep(Duration::from_millis(2));
            }
            Err(_) => break None,
        }
    };
    // make sure no stray background process keeps writing
    unsafe { libc::kill(-(child.id() as i32), libc::SIGKILL) };
    let code = match status {
        Some(st) => {
            use std::os::unix::process::ExitStatusExt as _;
            st.code().unwrap_or_else(|| 128 + st.signal().unwrap_or(0))
        }
        None => -1,
    };
    let events = std::fs::read_to_string(&ev_path)
        .unwrap_or_default()
        .lines()
        .filter_map(|l| serde_json::from_str(l).ok())
        .collect();
    let mut files = vec![];
    let mut dirs = vec![];
    collect(&dir, &dir, &mut files, &mut dirs);
    let r = RealResult {
        status: code,
        timed_out,
        stdout: std::fs::read(&out_path).unwrap_or_default(),
        stderr: std::fs::read(&err_path).unwrap_or_default(),
        events,
        files,
        dirs,
    };
    let _ = std::fs::remove_dir_all(&root);
    r
}
