//! Code shared by the per-property conformance harnesses.
pub mod real;
pub mod sched;
pub mod shell;
pub mod util;
