//! Code shared by the per-property conformance harnesses.
pub mod util;
