//! Running the real shell on the simulated OS (`VirtualSystem`) under a
//! controllable scheduler, with probe built-ins as observation points
//! (DESIGN.md 3.4).
//!
//! The runner mirrors `yash_cli::run_as_shell_process` with the public pieces
//! `startup::args::parse`, `startup::configure_environment`,
//! `startup::input::prepare_input`, `read_eval_loop`, `Env::apply_result` and
//! `trap::run_exit_trap`.
//!
//! ```ignore
//! let r = run_shell(ShellCfg::command("echo hi; probe a b"));
//! assert_eq!(r.stdout, "hi\n");
//! ```
use crate::sched::{Outcome, Schedule, Scheduler};
use serde_json::{Value, json};
use std::cell::RefCell;
use std::ffi::CString;
use std::ops::ControlFlow::{Break, Continue};
use yash_env::path::PathBuf;
use std::pin::Pin;
use std::rc::Rc;
use yash_cli::startup::args::{Parse, Run};
use yash_env::Env;
use yash_env::builtin::{Builtin, Result as BResult, Type};
use yash_env::io::Fd;
use yash_env::semantics::{Divert, ExitStatus, Field};
use yash_env::system::r#virtual::{FileBody, Inode, SystemState, VirtualSystem};
use yash_env::system::{Concurrent, Mode, Umask as _};

pub type Sys = Rc<Concurrent<VirtualSystem>>;
pub type VEnv = Env<Sys>;

/// Everything the shell needs from a system (both the simulated and the real one).
pub trait ShellSystem:
    yash_semantics::Runtime
    + yash_env::system::Chdir
    + yash_env::system::GetCwd
    + yash_env::system::resource::GetRlimit
    + yash_env::system::GetUid
    + yash_env::system::Sysconf
    + yash_env::system::TcGetPgrp
    + yash_env::system::Times
    + yash_env::system::Umask
    + yash_env::system::Write
    + yash_env::system::Signals
    + 'static
{
}
impl<S> ShellSystem for S where
    S: yash_semantics::Runtime
        + yash_env::system::Chdir
        + yash_env::system::GetCwd
        + yash_env::system::resource::GetRlimit
        + yash_env::system::GetUid
        + yash_env::system::Sysconf
        + yash_env::system::TcGetPgrp
        + yash_env::system::Times
        + yash_env::system::Umask
        + yash_env::system::Write
        + yash_env::system::Signals
        + 'static
{
}

thread_local! {
    /// If set, events are appended to this file (one JSON line each, O_APPEND)
    /// instead of the in-memory log: used by runs on the real OS, where the
    /// shell forks real processes.
    pub static EVENT_FILE: RefCell<Option<String>> = const { RefCell::new(None) };
}

thread_local! {
    /// Ordered log of probe events (and, with the `yash_rs_verif` hook, of
    /// simulated system calls) of the run in progress.
    pub static EVENTS: RefCell<Vec<Value>> = const { RefCell::new(Vec::new()) };
}

pub fn push_event(v: Value) {
    let file = EVENT_FILE.with(|f| f.borrow().clone());
    if let Some(path) = file {
        use std::io::Write as _;
        if let Ok(mut f) = std::fs::OpenOptions::new().append(true).create(true).open(path) {
            let _ = f.write_all(format!("{v}\n").as_bytes());
        }
        return;
    }
    EVENTS.with(|e| e.borrow_mut().push(v));
}

/// A file to create in the simulated file system before the run.
#[derive(Clone, Debug)]
pub enum FileSpec {
    Regular { path: String, content: Vec<u8>, mode: u32 },
    Dir { path: String },
    Symlink { path: String, target: String },
    Fifo { path: String },
}

pub struct ShellCfg {
    /// Command line as `sh` would receive it, e.g. `["yash", "-c", "echo hi", "name", "arg1"]`.
    pub argv: Vec<String>,
    /// Content of standard input (a regular file at `/dev/stdin`).
    pub stdin: Vec<u8>,
    pub files: Vec<FileSpec>,
    /// Environment variables imported at start-up.
    pub env: Vec<(String, String)>,
    pub cwd: Option<String>,
    pub schedule: Schedule,
    /// Maximum number of task polls before the run is abandoned (`Outcome::StepLimit`).
    pub step_limit: usize,
    /// Called after `configure_environment`, before the read-eval loop.
    #[allow(clippy::type_complexity)]
    pub setup: Option<Box<dyn FnOnce(&mut VEnv, &Rc<RefCell<SystemState>>)>>,
    /// Record, after every scheduling step, how the process table changed
    /// (`proc` events: fork, state change, reaping) — the linearization of the
    /// kernel-level effects at the granularity at which processes interleave.
    pub trace_procs: bool,
}

impl ShellCfg {
    pub fn with_argv(argv: Vec<String>) -> Self {
        ShellCfg {
            argv,
            stdin: Vec::new(),
            files: Vec::new(),
            env: Vec::new(),
            cwd: None,
            schedule: Schedule::Fifo,
            step_limit: 2_000_000,
            setup: None,
            trace_procs: false,
        }
    }
    /// `yash -c <script>`
    pub fn command(script: &str) -> Self {
        Self::with_argv(vec!["yash".into(), "-c".into(), script.into()])
    }
    /// `yash [opts...] -c <script> name args...`
    pub fn command_with(opts: &[&str], script: &str, args: &[&str]) -> Self {
        let mut argv: Vec<String> = vec!["yash".into()];
        argv.extend(opts.iter().map(|s| s.to_string()));
        argv.push("-c".into());
        argv.push(script.into());
        if !args.is_empty() {
            argv.push("yash".into());
            argv.extend(args.iter().map(|s| s.to_string()));
        }
        Self::with_argv(argv)
    }
    /// `yash` reading the script from standard input (a regular file).
    pub fn stdin_script(script: &[u8]) -> Self {
        let mut c = Self::with_argv(vec!["yash".into()]);
        c.stdin = script.to_vec();
        c
    }
}

pub struct ShellResult {
    pub outcome: Outcome,
    pub status: i32,
    pub stdout: Vec<u8>,
    pub stderr: Vec<u8>,
    pub events: Vec<Value>,
    /// (choice taken, number of options) at every scheduling point with > 1 option
    pub choices: Vec<(usize, usize)>,
    pub polls: usize,
    pub state: Rc<RefCell<SystemState>>,
}

impl ShellResult {
    pub fn stdout_str(&self) -> String {
        String::from_utf8_lossy(&self.stdout).into_owned()
    }
    pub fn stderr_str(&self) -> String {
        String::from_utf8_lossy(&self.stderr).into_owned()
    }
    pub fn outcome_str(&self) -> String {
        match &self.outcome {
            Outcome::Completed => "completed".into(),
            Outcome::Deadlock => "deadlock".into(),
            Outcome::StepLimit => "steplimit".into(),
            Outcome::Panic(m) => format!("panic: {m}"),
        }
    }
    /// Events of kind `probe`, rendered `a,b:status`.
    pub fn probe_trace(&self) -> Vec<String> {
        self.events
            .iter()
            .filter(|e| e["ev"] == "probe")
            .map(|e| {
                let args: Vec<&str> = e["args"].as_array().unwrap().iter().map(|a| a.as_str().unwrap()).collect();
                format!("{}:{}", args.join(","), e["st"])
            })
            .collect()
    }
    pub fn file_content(&self, path: &str) -> Option<Vec<u8>> {
        file_content(&self.state, path)
    }
    /// Summary as JSON (for traces).
    pub fn to_json(&self) -> Value {
        json!({
            "outcome": self.outcome_str(),
            "status": self.status,
            "stdout": self.stdout_str(),
            "stderr": self.stderr_str(),
            "events": self.events,
        })
    }
}

/// pid -> (ppid, state, state_has_changed).  States: `R` running, `S` stopped,
/// `E<n>` exited with n, `K<n>` killed by signal n.
pub fn proc_table(state: &Rc<RefCell<SystemState>>) -> std::collections::BTreeMap<i32, (i32, String, bool)> {
    use yash_env::job::{ProcessResult, ProcessState};
    let st = state.borrow();
    st.processes
        .iter()
        .map(|(pid, p)| {
            let s = match p.state() {
                ProcessState::Running => "R".to_string(),
                ProcessState::Halted(ProcessResult::Stopped(_)) => "S".to_string(),
                ProcessState::Halted(ProcessResult::Exited(e)) => format!("E{}", e.0),
                ProcessState::Halted(ProcessResult::Signaled { signal, .. }) => format!("K{}", signal.as_raw()),
            };
            (pid.0, (p.ppid().0, s, p.state_has_changed()))
        })
        .collect()
}

pub fn file_content(state: &Rc<RefCell<SystemState>>, path: &str) -> Option<Vec<u8>> {
    let st = state.borrow();
    let inode = st.file_system.get(path).ok()?;
    let inode = inode.borrow();
    match &inode.body {
        FileBody::Regular { content, .. } => Some(content.clone()),
        _ => None,
    }
}

fn save_file(state: &Rc<RefCell<SystemState>>, spec: &FileSpec) {
    let mut st = state.borrow_mut();
    match spec {
        FileSpec::Regular { path, content, mode } => {
            let mut inode = Inode::new(content.clone());
            inode.permissions = Mode::from_bits_truncate(*mode as _);
            st.file_system.save(path, Rc::new(RefCell::new(inode))).unwrap();
        }
        FileSpec::Dir { path } => {
            let inode = Inode {
                body: FileBody::Directory { files: Default::default() },
                permissions: Mode::from_bits_truncate(0o755),
            };
            st.file_system.save(path, Rc::new(RefCell::new(inode))).unwrap();
        }
        FileSpec::Symlink { path, target } => {
            let inode = Inode {
                body: FileBody::Symlink { target: PathBuf::from(target) },
                permissions: Mode::from_bits_truncate(0o777),
            };
            st.file_system.save(path, Rc::new(RefCell::new(inode))).unwrap();
        }
        FileSpec::Fifo { path } => {
            let inode = Inode {
                body: FileBody::Fifo {
                    content: Default::default(),
                    readers: 0,
                    writers: 0,
                    pending_open_wakers: Default::default(),
                    pending_read_wakers: Default::default(),
                    pending_write_wakers: Default::default(),
                },
                permissions: Mode::from_bits_truncate(0o644),
            };
            st.file_system.save(path, Rc::new(RefCell::new(inode))).unwrap();
        }
    }
}

// ---------------------------------------------------------------------------
// probe built-ins
// ---------------------------------------------------------------------------

fn pid_of<S: ShellSystem>(env: &Env<S>) -> i32 {
    env.system.getpid().0
}

fn field_strings(args: &[Field]) -> Vec<String> {
    args.iter().map(|f| f.value.clone()).collect()
}

/// `probe [args...]`: records its arguments and `$?`; leaves `$?` unchanged.
fn probe_main<S: ShellSystem>(env: &mut Env<S>, args: Vec<Field>) -> Pin<Box<dyn Future<Output = BResult> + '_>> {
    Box::pin(async move {
        push_event(json!({"ev": "probe", "pid": pid_of(env), "args": field_strings(&args), "st": env.exit_status.0}));
        BResult::new(env.exit_status)
    })
}

/// `echo [args...]`
fn echo_main<S: ShellSystem>(env: &mut Env<S>, args: Vec<Field>) -> Pin<Box<dyn Future<Output = BResult> + '_>> {
    Box::pin(async move {
        let line = field_strings(&args).join(" ") + "\n";
        match env.system.write_all(Fd::STDOUT, line.as_bytes()).await {
            Ok(()) => BResult::new(ExitStatus(0)),
            Err(_) => BResult::new(ExitStatus(1)),
        }
    })
}

/// `cat`: copies standard input to standard output.
fn cat_main<S: ShellSystem>(env: &mut Env<S>, _args: Vec<Field>) -> Pin<Box<dyn Future<Output = BResult> + '_>> {
    Box::pin(async move {
        let data = match env.system.read_all(Fd::STDIN).await {
            Ok(d) => d,
            Err(_) => return BResult::new(ExitStatus(1)),
        };
        match env.system.write_all(Fd::STDOUT, &data).await {
            Ok(()) => BResult::new(ExitStatus(0)),
            Err(_) => BResult::new(ExitStatus(1)),
        }
    })
}

/// `status N`: exit status N.
fn status_main<S: ShellSystem>(_env: &mut Env<S>, args: Vec<Field>) -> Pin<Box<dyn Future<Output = BResult> + '_>> {
    Box::pin(async move {
        let n = args.first().and_then(|f| f.value.parse::<i32>().ok()).unwrap_or(0);
        BResult::new(ExitStatus(n))
    })
}

/// Byte `i` of the counter stream written by `emit` and checked by `sink`.
pub fn stream_byte(i: usize) -> u8 {
    if i % 17 == 16 { b'\n' } else { b'a' + (i % 23) as u8 }
}

/// `emit N [tail]`: writes N bytes of the counter stream, then `tail` verbatim.
fn emit_main<S: ShellSystem>(env: &mut Env<S>, args: Vec<Field>) -> Pin<Box<dyn Future<Output = BResult> + '_>> {
    Box::pin(async move {
        let n = args.first().and_then(|f| f.value.parse::<usize>().ok()).unwrap_or(0);
        let mut data: Vec<u8> = (0..n).map(stream_byte).collect();
        if let Some(t) = args.get(1) {
            data.extend_from_slice(t.value.as_bytes());
        }
        match env.system.write_all(Fd::STDOUT, &data).await {
            Ok(()) => BResult::new(ExitStatus(0)),
            Err(e) => {
                push_event(json!({"ev": "emit_error", "pid": pid_of(env), "errno": format!("{e:?}")}));
                BResult::new(ExitStatus(1))
            }
        }
    })
}

/// `sink [tag]`: reads standard input to EOF; records length and whether the
/// bytes are a prefix of the counter stream.
fn sink_main<S: ShellSystem>(env: &mut Env<S>, args: Vec<Field>) -> Pin<Box<dyn Future<Output = BResult> + '_>> {
    Box::pin(async move {
        let tag = args.first().map(|f| f.value.clone()).unwrap_or_default();
        match env.system.read_all(Fd::STDIN).await {
            Ok(d) => {
                let bad = d.iter().enumerate().position(|(i, &b)| b != stream_byte(i));
                let mut sum: u32 = 0;
                for &b in &d {
                    sum = sum.wrapping_mul(31).wrapping_add(b as u32) & 0x3fff_ffff;
                }
                push_event(json!({"ev": "sink", "pid": pid_of(env), "tag": tag, "len": d.len(),
                    "first_bad": bad.map(|p| p as i64).unwrap_or(-1), "sum": sum}));
                BResult::new(ExitStatus(0))
            }
            Err(e) => {
                push_event(json!({"ev": "sink_error", "pid": pid_of(env), "tag": tag, "errno": format!("{e:?}")}));
                BResult::new(ExitStatus(1))
            }
        }
    })
}

/// Descriptor table of process `pid` as JSON: fd, identity of the open file
/// description (small integers assigned in order of first appearance *within
/// this snapshot*), cloexec flag, access mode.
pub fn fd_table(state: &Rc<RefCell<SystemState>>, pid: i32) -> Value {
    let st = state.borrow();
    let Some(p) = st.processes.get(&yash_env::job::Pid(pid)) else {
        return json!([]);
    };
    let mut ids: Vec<*const ()> = vec![];
    let mut out = vec![];
    for (fd, body) in p.fds() {
        let ptr = Rc::as_ptr(&body.open_file_description) as *const ();
        let id = match ids.iter().position(|&q| q == ptr) {
            Some(i) => i,
            None => {
                ids.push(ptr);
                ids.len() - 1
            }
        };
        let ofd = body.open_file_description.borrow();
        let inode_ptr = Rc::as_ptr(ofd.inode()) as usize;
        out.push(json!({
            "fd": fd.0,
            "ofd": id,
            "cloexec": body.flags.contains(yash_env::system::FdFlag::CloseOnExec),
            "r": ofd.is_readable(),
            "w": ofd.is_writable(),
            "inode": inode_ptr,
        }));
    }
    json!(out)
}

/// Maps every inode reachable from the file system root to its path, so that
/// `fd_table`'s inode identities can be named.
pub fn inode_paths(state: &Rc<RefCell<SystemState>>) -> Vec<(usize, String)> {
    fn walk(inode: &Rc<RefCell<Inode>>, path: &str, out: &mut Vec<(usize, String)>) {
        out.push((Rc::as_ptr(inode) as usize, if path.is_empty() { "/".to_string() } else { path.to_string() }));
        let b = inode.borrow();
        if let FileBody::Directory { files } = &b.body {
            let mut names: Vec<_> = files.keys().cloned().collect();
            names.sort();
            for name in names {
                let child = &files[&name];
                let p = format!("{}/{}", path, name.to_string_lossy());
                walk(child, &p, out);
            }
        }
    }
    let st = state.borrow();
    let mut out = vec![];
    if let Ok(root) = st.file_system.get("/") {
        walk(&root, "", &mut out);
    }
    out
}

/// `fds [tag]`: records the descriptor table of the calling process.
fn fds_main(env: &mut VEnv, args: Vec<Field>) -> Pin<Box<dyn Future<Output = BResult> + '_>> {
    Box::pin(async move {
        let tag = args.first().map(|f| f.value.clone()).unwrap_or_default();
        let pid = pid_of(env);
        let state = STATE.with(|s| s.borrow().clone());
        if let Some(state) = state {
            let table = fd_table(&state, pid);
            push_event(json!({"ev": "fds", "pid": pid, "tag": tag, "fds": table, "st": env.exit_status.0}));
        }
        BResult::new(env.exit_status)
    })
}

thread_local! {
    static STATE: RefCell<Option<Rc<RefCell<SystemState>>>> = const { RefCell::new(None) };
}

/// Snapshot of the shell execution environment of `env` (what POSIX lists as
/// the shell execution environment, XCU 2.13): variables with attributes,
/// positional parameters, functions, aliases, options, traps, cwd, umask.
pub fn snapshot(env: &mut VEnv) -> Value {
    use yash_env::variable::Scope;
    let mut vars = serde_json::Map::new();
    let mut names: Vec<(String, Value)> = env
        .variables
        .iter(Scope::Global)
        .map(|(name, var)| {
            let val = match &var.value {
                None => json!({"k": "unset"}),
                Some(yash_env::variable::Value::Scalar(s)) => json!({"k": "scalar", "v": s}),
                Some(yash_env::variable::Value::Array(a)) => json!({"k": "array", "v": a}),
            };
            (
                name.to_string(),
                json!({"val": val, "exp": var.is_exported, "ro": var.is_read_only()}),
            )
        })
        .collect();
    names.sort_by(|a, b| a.0.cmp(&b.0));
    for (n, v) in names {
        // volatile bookkeeping variables that change on every command are not state
        if n == "LINENO" || n == "RANDOM" || n == "SECONDS" {
            continue;
        }
        vars.insert(n, v);
    }
    let pos: Vec<String> = env.variables.positional_params().values.clone();
    let mut funcs: Vec<(String, String, bool)> = env
        .functions
        .iter()
        .map(|f| (f.name.clone(), f.body.to_string(), f.is_read_only()))
        .collect();
    funcs.sort();
    let mut aliases: Vec<(String, String, bool)> = env
        .aliases
        .iter()
        .map(|a| (a.0.name.clone(), a.0.replacement.clone(), a.0.global))
        .collect();
    aliases.sort();
    let mut opts: Vec<String> = vec![];
    for o in yash_env::option::Option::iter() {
        if env.options.get(o) == yash_env::option::State::On {
            opts.push(o.to_string());
        }
    }
    let mut traps: Vec<(String, String)> = vec![];
    for (cond, cur, _parent) in env.traps.iter() {
        let action = match &cur.action {
            yash_env::trap::Action::Default => continue,
            yash_env::trap::Action::Ignore => "ignore".to_string(),
            yash_env::trap::Action::Command(c) => format!("cmd:{c}"),
        };
        traps.push((cond.to_string(&env.system).into_owned(), action));
    }
    traps.sort();
    let pid = pid_of(env);
    let cwd = STATE.with(|s| {
        s.borrow().as_ref().and_then(|st| {
            st.borrow().processes.get(&yash_env::job::Pid(pid)).map(|p| p.getcwd().to_string_lossy().into_owned())
        })
    });
    let old = env.system.umask(Mode::empty());
    env.system.umask(old);
    json!({
        "vars": vars, "pos": pos, "funcs": funcs, "aliases": aliases, "opts": opts, "traps": traps,
        "cwd": cwd.unwrap_or_default(), "umask": old.bits(),
    })
}

/// `snap [tag]`: records a snapshot of the shell execution environment.
fn snap_main(env: &mut VEnv, args: Vec<Field>) -> Pin<Box<dyn Future<Output = BResult> + '_>> {
    Box::pin(async move {
        let tag = args.first().map(|f| f.value.clone()).unwrap_or_default();
        let st = env.exit_status.0;
        let snap = snapshot(env);
        push_event(json!({"ev": "snap", "pid": pid_of(env), "tag": tag, "st": st, "snap": snap}));
        BResult::new(env.exit_status)
    })
}

/// Probe built-ins available on every system: probe, echo, cat, status, emit, sink.
pub fn register_generic_probes<S: ShellSystem>(env: &mut Env<S>) {
    let mut add = |name: &'static str, f: yash_env::builtin::Main<S>| {
        env.builtins.insert(name, Builtin::new(Type::Mandatory, f));
    };
    add("probe", probe_main::<S>);
    add("echo", echo_main::<S>);
    add("cat", cat_main::<S>);
    add("status", status_main::<S>);
    add("emit", emit_main::<S>);
    add("sink", sink_main::<S>);
}

/// All probe built-ins (the generic ones plus `fds` and `snap`, which read the
/// simulated system's state).
pub fn register_probes(env: &mut VEnv) {
    register_generic_probes(env);
    env.builtins.insert("fds", Builtin::new(Type::Mandatory, fds_main));
    env.builtins.insert("snap", Builtin::new(Type::Mandatory, snap_main));
}

// ---------------------------------------------------------------------------
// the runner
// ---------------------------------------------------------------------------

/// The body of the shell process: everything `run_as_shell_process` does
/// after parsing the command line (initialisation files are not run).
pub async fn shell_body<S: ShellSystem>(env: &mut Env<S>, run: Run, setup: impl FnOnce(&mut Env<S>)) {
    let work = yash_cli::startup::configure_environment(env, run).await;
    setup(env);
    let ref_env = RefCell::new(env);
    let lexer = match yash_cli::startup::input::prepare_input(&ref_env, &work.source).await {
        Ok(lexer) => lexer,
        Err(e) => {
            let mut env = ref_env.borrow_mut();
            let message = format!("yash: {e}\n");
            env.system.print_error(&message).await;
            env.exit_status = ExitStatus::NOT_FOUND;
            return;
        }
    };
    let result = yash_semantics::read_eval_loop(&ref_env, &mut { lexer }).await;
    let env = ref_env.into_inner();
    env.apply_result(result);
    match result {
        Continue(())
        | Break(Divert::Continue { .. })
        | Break(Divert::Break { .. })
        | Break(Divert::Return(_))
        | Break(Divert::Interrupt(_))
        | Break(Divert::Exit(_)) => yash_semantics::trap::run_exit_trap(env).await,
        Break(Divert::Abort(_)) => (),
    }
}

pub fn run_shell(cfg: ShellCfg) -> ShellResult {
    EVENTS.with(|e| e.borrow_mut().clear());
    let system = VirtualSystem::new();
    let state = Rc::clone(&system.state);
    STATE.with(|s| *s.borrow_mut() = Some(Rc::clone(&state)));
    let sched = Rc::new(Scheduler::new(cfg.schedule.clone(), cfg.step_limit));
    state.borrow_mut().executor = Some(Rc::clone(&sched) as Rc<dyn yash_env::system::r#virtual::Executor>);

    // file system
    for d in ["/tmp", "/bin", "/home"] {
        save_file(&state, &FileSpec::Dir { path: d.to_string() });
    }
    // Substitutive built-ins (true, false, pwd, ...) are found only if $PATH
    // holds an executable of the same name.
    for (name, b) in yash_builtin::iter::<Sys>() {
        if b.r#type == Type::Substitutive {
            let mut inode = Inode::new(Vec::<u8>::new());
            inode.permissions = Mode::from_bits_truncate(0o755);
            if let FileBody::Regular { is_native_executable, .. } = &mut inode.body {
                *is_native_executable = true;
            }
            state.borrow_mut().file_system.save(format!("/bin/{name}"), Rc::new(RefCell::new(inode))).unwrap();
        }
    }
    for f in &cfg.files {
        save_file(&state, f);
    }
    if !cfg.stdin.is_empty() {
        // fd 0 of the initial process is already open on this inode
        let st = state.borrow();
        let inode = st.file_system.get("/dev/stdin").unwrap();
        inode.borrow_mut().body = FileBody::new(cfg.stdin.clone());
    }
    if let Some(cwd) = &cfg.cwd {
        let pid = system.process_id;
        state.borrow_mut().processes.get_mut(&pid).unwrap().chdir(PathBuf::from(cwd));
    }
    let main_pid = system.process_id;

    let run = match yash_cli::startup::args::parse(cfg.argv.iter().cloned()) {
        Ok(Parse::Run(run)) => run,
        other => {
            return ShellResult {
                outcome: Outcome::Panic(format!("argv not runnable: {other:?}")),
                status: 2,
                stdout: vec![],
                stderr: vec![],
                events: vec![],
                choices: vec![],
                polls: 0,
                state,
            };
        }
    };

    let sys: Sys = Rc::new(Concurrent::new(system));
    let mut env = Env::with_system(Rc::clone(&sys));
    if !cfg.env.iter().any(|(n, _)| n == "PATH") {
        env.variables.extend_env([("PATH".to_string(), "/bin".to_string())]);
    }
    env.variables.extend_env(cfg.env.iter().cloned());
    let exit_status = Rc::new(std::cell::Cell::new(-1));
    let es2 = Rc::clone(&exit_status);
    let setup = cfg.setup;
    let state2 = Rc::clone(&state);
    let sys2 = Rc::clone(&sys);
    let main_task = async move {
        let body = async move {
            shell_body(&mut env, run, move |env| {
                register_probes(env);
                if let Some(f) = setup {
                    f(env, &state2);
                }
            })
            .await;
            es2.set(env.exit_status.0);
        };
        sys2.run_virtual(body).await;
    };
    if cfg.trace_procs {
        let st = Rc::clone(&state);
        let mut last: std::collections::BTreeMap<i32, (i32, String, bool)> = Default::default();
        *sched.observer.borrow_mut() = Some(Box::new(move |task| {
            let cur = proc_table(&st);
            for (pid, v) in &cur {
                if last.get(pid) != Some(v) {
                    push_event(json!({"ev": "proc", "task": task, "pid": pid, "ppid": v.0, "st": v.1, "ch": v.2}));
                }
            }
            last = cur;
        }));
    }
    let outcome = sched.run_main(Box::pin(main_task), &state);
    *sched.observer.borrow_mut() = None;

    // The shell process may have been terminated by a signal or by `exit` in
    // the middle of the body: then the process state holds the status.
    let mut status = exit_status.get();
    {
        let st = state.borrow();
        if let Some(p) = st.processes.get(&main_pid) {
            if let yash_env::job::ProcessState::Halted(r) = p.state() {
                status = ExitStatus::from(r).0;
            }
        }
    }
    let stdout = file_content(&state, "/dev/stdout").unwrap_or_default();
    let stderr = file_content(&state, "/dev/stderr").unwrap_or_default();
    let events = EVENTS.with(|e| std::mem::take(&mut *e.borrow_mut()));
    STATE.with(|s| *s.borrow_mut() = None);
    // The scheduler keeps unfinished tasks, which keep the state alive: break
    // the cycle (outside the borrow: dropping a task may touch the state).
    let executor = state.borrow_mut().executor.take();
    drop(executor);
    ShellResult {
        outcome,
        status,
        stdout,
        stderr,
        events,
        choices: sched.choices(),
        polls: sched.polls(),
        state,
    }
}

#[allow(dead_code)]
fn _unused(_: CString) {}
