//! `yvsh [--dfs DEPTH | --seed S] [--stdin-script] -- <argv after "yash">`:
//! runs one script in the simulated shell and prints what the runner observed.
use yvcommon::sched::{Schedule, next_prefix};
use yvcommon::shell::{ShellCfg, run_shell};

fn main() {
    yvcommon::real::maybe_child_main();
    let args: Vec<String> = std::env::args().skip(1).collect();
    let split = args.iter().position(|a| a == "--").unwrap_or(0);
    let (flags, rest) = args.split_at(split);
    let rest: Vec<String> = rest.iter().skip(1).cloned().collect();
    let dfs = yvcommon::util::opt(flags, "--dfs").and_then(|s| s.parse::<usize>().ok());
    let seed = yvcommon::util::opt(flags, "--seed").and_then(|s| s.parse::<u64>().ok());
    let mk = |schedule: Schedule| {
        let mut argv = vec!["yash".to_string()];
        argv.extend(rest.iter().cloned());
        let mut c = ShellCfg::with_argv(argv);
        c.schedule = schedule;
        c
    };
    if flags.iter().any(|f| f == "--real" || f == "--mirror") {
        let mut c = yvcommon::real::RealCfg::command("", flags.iter().any(|f| f == "--mirror"));
        c.args = rest.clone();
        let r = yvcommon::real::run_real(&c);
        println!("status={} timed_out={}", r.status, r.timed_out);
        println!("stdout={:?}", String::from_utf8_lossy(&r.stdout));
        println!("stderr={:?}", String::from_utf8_lossy(&r.stderr));
        for e in &r.events {
            println!("{e}");
        }
        println!("files={:?}", r.files.iter().map(|f| (&f.0, String::from_utf8_lossy(&f.1).into_owned())).collect::<Vec<_>>());
        return;
    }
    if let Some(depth) = dfs {
        let mut prefix = vec![];
        let mut n = 0;
        let mut outs = std::collections::BTreeMap::new();
        loop {
            let r = run_shell(mk(Schedule::Prefix(prefix.clone())));
            n += 1;
            *outs.entry((r.outcome_str(), r.status, r.stdout_str(), r.probe_trace().join(" "))).or_insert(0) += 1;
            match next_prefix(&r.choices, depth) {
                Some(p) => prefix = p,
                None => break,
            }
        }
        println!("{n} schedules");
        for (k, v) in outs {
            println!("{v} x {k:?}");
        }
        return;
    }
    let r = run_shell(mk(seed.map(Schedule::Random).unwrap_or(Schedule::Fifo)));
    println!("outcome={} status={} polls={} choices={:?}", r.outcome_str(), r.status, r.polls, r.choices);
    println!("stdout={:?}", r.stdout_str());
    println!("stderr={:?}", r.stderr_str());
    for e in &r.events {
        println!("{e}");
    }
}
