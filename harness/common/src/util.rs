//! Small helpers shared by the harness modules.
use std::io::{BufRead, BufReader, BufWriter, Write};

pub fn seed() -> u64 {
    std::env::var("VERIF_SEED")
        .ok()
        .and_then(|s| s.parse().ok())
        .unwrap_or(1)
}

/// Value of `--name V` in an argument list.
pub fn opt<'a>(args: &'a [String], name: &str) -> Option<&'a str> {
    args.iter()
        .position(|a| a == name)
        .and_then(|i| args.get(i + 1))
        .map(|s| s.as_str())
}

pub fn opt_usize(args: &[String], name: &str, default: usize) -> usize {
    opt(args, name).and_then(|s| s.parse().ok()).unwrap_or(default)
}

pub fn open_in(args: &[String]) -> Box<dyn BufRead> {
    match opt(args, "--in") {
        Some(p) => Box::new(BufReader::new(std::fs::File::open(p).expect("open --in"))),
        None => Box::new(BufReader::new(std::io::stdin())),
    }
}

pub fn open_out(args: &[String]) -> Box<dyn Write> {
    match opt(args, "--out") {
        Some(p) => Box::new(BufWriter::with_capacity(
            1 << 20,
            std::fs::File::create(p).expect("create --out"),
        )),
        None => Box::new(BufWriter::new(std::io::stdout())),
    }
}

/// Run `f`, converting a panic into `Err(message)`.  A panic in code under
/// test is data (judged by the property), not a harness failure.
pub fn catch<T>(f: impl FnOnce() -> T) -> Result<T, String> {
    let r = std::panic::catch_unwind(std::panic::AssertUnwindSafe(f));
    r.map_err(|e| {
        if let Some(s) = e.downcast_ref::<&str>() {
            s.to_string()
        } else if let Some(s) = e.downcast_ref::<String>() {
            s.clone()
        } else {
            "panic".to_string()
        }
    })
}

pub fn quiet_panics() {
    std::panic::set_hook(Box::new(|_| {}));
}
