//! `yverif` — conformance harness binding the TLA+ specification in /verif/spec
//! to the implementation in /repo (see /verif/DESIGN.md).
//!
//! Sub-commands read TLC-generated replay lines (spec -> impl) or produce
//! ndjson traces recorded from the real code (impl -> spec).

mod joblist;
mod util;

fn main() {
    let args: Vec<String> = std::env::args().collect();
    if args.len() < 2 {
        eprintln!("usage: yverif <subcommand> ...");
        std::process::exit(2);
    }
    let rest = &args[2..];
    let code = match args[1].as_str() {
        "joblist-replay" => joblist::replay(rest),
        "joblist-random" => joblist::random(rest),
        "joblist-redo" => joblist::redo(rest),
        other => {
            eprintln!("unknown subcommand {other}");
            2
        }
    };
    std::process::exit(code);
}
