//! Conformance harness for property C17 (alias substitution), see
//! /verif/DESIGN.md section 6 and /verif/spec/Alias.tla.
//!
//! Sub-commands
//!   replay --in gen.ndjson --out bad.ndjson
//!       spec -> impl: every line is {tb, line, out, amb, unspec} printed by TLC
//!       (spec/Alias.tla, `Emit`).  The line is parsed by the real parser with
//!       the alias table; the spec's by-hand result is rendered to text and
//!       parsed with NO aliases; printed command lists and the alias origin of
//!       every word must agree.
//!   random --n N --out rec.ndjson
//!       impl -> spec: random tables and lines, observed parse recorded.
//!   judge --rec rec.ndjson --res res.ndjson --out bad.ndjson
//!       second half of impl -> spec: `res` holds, per record id, the allowed
//!       by-hand results computed by TLC (spec/Trace_Alias.tla).
//!   e2e --n N --out rec.ndjson
//!       random tables/lines through the `alias` built-in in a real shell run
//!       (definitions on one line, use on the next / on the same line).
//!   one  (reads one {tb, line} JSON from stdin, prints the observation)
mod e2e;
mod model;
mod parse;

use model::*;
use serde_json::{Value, json};
use std::collections::HashMap;
use std::io::{BufRead, Write};
use yvcommon::util::{open_in, open_out, opt, opt_usize};

fn main() {
    let args: Vec<String> = std::env::args().collect();
    if args.len() < 2 {
        eprintln!("usage: yv-c17 <replay|random|judge|e2e|one> ...");
        std::process::exit(2);
    }
    yvcommon::util::quiet_panics();
    parse::start_watchdog();
    let rest: Vec<String> = args[2..].to_vec();
    let cmd = args[1].clone();
    // Deep alias origin chains are dropped recursively: use a big stack.
    let t = std::thread::Builder::new()
        .stack_size(512 << 20)
        .spawn(move || match cmd.as_str() {
            "replay" => replay(&rest),
            "random" => random(&rest),
            "judge" => judge(&rest),
            "observe" => observe(&rest),
            "e2e" => e2e::run(&rest),
            "one" => one(),
            other => {
                eprintln!("unknown subcommand {other}");
                2
            }
        })
        .unwrap();
    let code = t.join().unwrap_or(2);
    std::process::exit(code);
}

/// Verdict for one (table, line) with its set of allowed by-hand results.
/// Returns (ok, class, detail)
fn verdict(tb: &Table, line: &[String], allowed: &[Vec<OutTok>], cause_drift: &mut usize) -> (bool, &'static str, Value) {
    let text = render_line(line);
    let obs = parse::parse_with(&text, Some(tb));
    let mut hands = Vec::new();
    let mut ok = false;
    let mut drift = false;
    let mut class = "mismatch";
    if obs.status == "hang" || obs.status == "panic" {
        class = if obs.status == "hang" { "hang" } else { "panic" };
    } else {
        for a in allowed {
            let toks: Vec<String> = a.iter().map(|t| t.t.clone()).collect();
            let htext = render_line(&toks);
            let hand = parse::parse_with(&htext, None);
            // Both parse to the same command lists, or both are syntax errors (no
            // command is executed).  That the two syntax errors have the same
            // cause is expected but not part of the property: counted as drift.
            let same_parse = obs.status == hand.status && obs.printed == hand.printed;
            let same_cause = obs.err == hand.err;
            // origin of every word: only comparable when the parse succeeded
            // (after a syntax error the rest of the line is never tokenised)
            let mut same_words = true;
            if same_parse && obs.status == "ok" && !obs.unsupported {
                let mut want: Vec<(String, Vec<String>)> =
                    a.iter().filter(|t| t.k == "w").map(|t| (render_tok(&t.t), t.o.clone())).collect();
                let mut got = obs.words.clone();
                want.sort();
                got.sort();
                same_words = want == got;
            }
            hands.push(json!({"text": htext, "status": hand.status, "printed": hand.printed, "err": hand.err,
                              "same_parse": same_parse, "same_words": same_words}));
            if same_parse && same_words {
                ok = true;
                class = if obs.status == "ok" { "ok-parsed" } else { "ok-error" };
                if same_cause {
                    drift = false;
                    break;
                }
                drift = true; // keep looking for an allowed result with the same cause
            }
            if same_parse && !same_words {
                class = "origin";
            }
        }
    }
    if ok && drift {
        *cause_drift += 1;
        if std::env::var("C17_SHOW_DRIFT").is_ok() {
            eprintln!("DRIFT {}", json!({"tb": table_json(tb), "line": line, "err": obs.err, "hand": hands}));
        }
    }
    let detail = json!({"text": text, "obs": obs.to_json(), "hand": hands});
    (ok, class, detail)
}

fn replay(args: &[String]) -> i32 {
    let input = open_in(args);
    let mut out = open_out(args);
    let max_samples = opt_usize(args, "--samples", 6);
    set_spell(opt_usize(args, "--spell", 0));
    // after this many failures the rest of the input is not replayed (a broken
    // parser can make every failing case expensive)
    let max_bad = opt_usize(args, "--max-bad", 100);
    let mut stopped_early = false;
    let mut bad_seen = 0usize;
    let mut n_cases = 0usize; // lines read
    let mut n_groups = 0usize; // (table, line) pairs judged
    let mut n_unspec = 0usize;
    let mut n_ok_parsed = 0usize;
    let mut n_ok_error = 0usize;
    let mut n_bad = 0usize;
    let mut n_nontrivial = 0usize;
    let mut n_amb = 0usize;
    let mut n_cause_drift = 0usize;
    let mut samples: Vec<Value> = Vec::new();
    // ambiguous cases arrive as several lines with the same (tb, line)
    let mut pending: HashMap<String, (Table, Vec<String>, Vec<Vec<OutTok>>, bool)> = HashMap::new();

    let mut handle = |tb: &Table, line: &[String], allowed: &[Vec<OutTok>], unspec: bool, amb: bool,
                      out: &mut Box<dyn Write>|
     -> bool {
        n_groups += 1;
        if amb {
            n_amb += 1;
        }
        if unspec {
            n_unspec += 1;
            return false;
        }
        let (ok, class, detail) = verdict(tb, line, allowed, &mut n_cause_drift);
        let plain: Vec<String> = line.iter().filter(|t| *t != "LC").cloned().collect();
        let changed = allowed.iter().any(|a| a.iter().map(|t| &t.t).ne(plain.iter()));
        if ok {
            if class == "ok-parsed" {
                n_ok_parsed += 1;
                if changed {
                    n_nontrivial += 1;
                    if samples.len() < max_samples && (n_nontrivial % 997 == 1) {
                        samples.push(json!({"tb": table_json(tb), "line": line, "text": detail["text"],
                            "by_hand": detail["hand"][0]["text"], "parsed": detail["obs"]["printed"]}));
                    }
                }
            } else {
                n_ok_error += 1;
            }
        } else {
            n_bad += 1;
            let rec = json!({"class": class, "spell": spell_now(), "tb": table_json(tb), "line": line,
                "allowed": allowed.iter().map(|a| a.iter().map(|t| t.to_json()).collect::<Vec<_>>()).collect::<Vec<_>>(),
                "detail": detail});
            writeln!(out, "{rec}").unwrap();
        }
        !ok
    };

    for l in input.lines() {
        let l = l.expect("read");
        if l.trim().is_empty() {
            continue;
        }
        let v: Value = serde_json::from_str(&l).expect("json");
        if bad_seen >= max_bad {
            stopped_early = true;
            break;
        }
        n_cases += 1;
        let tb = table_from_json(&v["tb"]);
        let line = strs(&v["line"]);
        let outv = out_from_json(&v["out"]);
        let amb = v["amb"].as_bool().unwrap_or(false);
        let unspec = v["unspec"].as_bool().unwrap_or(false);
        if amb {
            let key = format!("{}|{}", v["tb"], v["line"]);
            let e = pending.entry(key).or_insert_with(|| (tb, line, Vec::new(), false));
            if !e.2.contains(&outv) {
                e.2.push(outv);
            }
            e.3 |= unspec;
        } else {
            bad_seen += handle(&tb, &line, &[outv], unspec, false, &mut out) as usize;
        }
    }
    let mut keys: Vec<String> = pending.keys().cloned().collect();
    keys.sort();
    for k in keys {
        let (tb, line, allowed, unspec) = pending.remove(&k).unwrap();
        if bad_seen >= max_bad {
            stopped_early = true;
            break;
        }
        bad_seen += handle(&tb, &line, &allowed, unspec, true, &mut out) as usize;
    }
    out.flush().unwrap();
    let summary = json!({"lines": n_cases, "cases": n_groups, "unspecified_skipped": n_unspec,
        "agree_parsed": n_ok_parsed, "agree_syntax_error": n_ok_error, "bad": n_bad,
        "nontrivial": n_nontrivial, "ambiguous": n_amb, "stopped_early": stopped_early,
        "syntax_error_cause_drift": n_cause_drift, "samples": samples});
    println!("{summary}");
    0
}

/// One record of the implementation -> spec direction.
fn observation(id: usize, spell: usize, tb: &Table, line: &[String]) -> Value {
    set_spell(spell);
    let text = render_line(line);
    let obs = parse::parse_with(&text, Some(tb));
    let words: Vec<Value> = obs.words.iter().map(|(t, o)| json!({"t": unrender_tok(t), "o": o})).collect();
    json!({"id": id, "spell": spell_now(), "text": text, "tb": table_json(tb), "line": line, "st": obs.status,
        "wordsok": obs.status == "ok" && !obs.unsupported,
        "words": words, "printed": obs.printed, "err": obs.err, "lookups": obs.lookups})
}

fn random(args: &[String]) -> i32 {
    let n = opt_usize(args, "--n", 1000);
    let mut out = open_out(args);
    let mut g = model::Gen::new(yvcommon::util::seed() ^ 0xc17);
    let mut abnormal = 0;
    for id in 1..=n {
        let (tb, line) = g.case();
        let o = observation(id, id % SPELLINGS, &tb, &line);
        if o["st"] == "hang" || o["st"] == "panic" {
            abnormal += 1;
        }
        writeln!(out, "{o}").unwrap();
        if abnormal >= 100 {
            break; // a broken parser makes every such case expensive
        }
    }
    out.flush().unwrap();
    0
}

/// Like `random`, for given {tb, line} lines (used by --replay).
fn observe(args: &[String]) -> i32 {
    let input = open_in(args);
    let mut out = open_out(args);
    let mut id = 0;
    for l in input.lines() {
        let l = l.expect("read");
        if l.trim().is_empty() {
            continue;
        }
        let v: Value = serde_json::from_str(&l).expect("json");
        id += 1;
        let sp = v["spell"].as_u64().unwrap_or(0) as usize;
        writeln!(out, "{}", observation(id, sp, &table_from_json(&v["tb"]), &strs(&v["line"]))).unwrap();
    }
    out.flush().unwrap();
    0
}

fn judge(args: &[String]) -> i32 {
    let rec_path = opt(args, "--rec").expect("--rec");
    let res_path = opt(args, "--res").expect("--res");
    let mut out = open_out(args);
    let mut res: HashMap<u64, Value> = HashMap::new();
    for l in std::io::BufReader::new(std::fs::File::open(res_path).expect("open --res")).lines() {
        let l = l.unwrap();
        if l.trim().is_empty() {
            continue;
        }
        let v: Value = serde_json::from_str(&l).expect("json");
        res.insert(v["id"].as_u64().unwrap(), v);
    }
    let (mut n, mut n_unspec, mut n_ok_parsed, mut n_ok_err, mut n_bad, mut n_missing, mut n_nontrivial) =
        (0usize, 0usize, 0usize, 0usize, 0usize, 0usize, 0usize);
    let mut samples = Vec::new();
    let mut n_cause_drift = 0usize;
    for l in std::io::BufReader::new(std::fs::File::open(rec_path).expect("open --rec")).lines() {
        let l = l.unwrap();
        if l.trim().is_empty() {
            continue;
        }
        let r: Value = serde_json::from_str(&l).expect("json");
        n += 1;
        let id = r["id"].as_u64().unwrap();
        let Some(s) = res.get(&id) else {
            n_missing += 1;
            continue;
        };
        if s["unspec"].as_bool().unwrap_or(false) {
            n_unspec += 1;
            continue;
        }
        set_spell(r["spell"].as_u64().unwrap_or(0) as usize);
        let mut ok = false;
        let mut drift = false;
        let mut hands = Vec::new();
        for a in s["res"].as_array().unwrap() {
            let toks = strs(a);
            let htext = render_line(&toks);
            let hand = parse::parse_with(&htext, None);
            let same = r["st"] == hand.status.as_str() && r["printed"] == hand.printed.as_str();
            let same_cause = r["err"] == hand.err.as_str();
            hands.push(json!({"text": htext, "status": hand.status, "printed": hand.printed, "err": hand.err}));
            if same {
                ok = true;
                if same_cause {
                    drift = false;
                    break;
                }
                drift = true;
            }
        }
        if ok && drift {
            n_cause_drift += 1;
            if std::env::var("C17_SHOW_DRIFT").is_ok() {
                eprintln!("DRIFT {}", json!({"tb": r["tb"], "line": r["line"], "err": r["err"], "hand": hands}));
            }
        }
        if ok {
            if r["st"] == "ok" {
                n_ok_parsed += 1;
                let line = strs(&r["line"]);
                let plain: Vec<String> = line.iter().filter(|t| *t != "LC").cloned().collect();
                if s["res"].as_array().unwrap().iter().any(|a| strs(a) != plain) {
                    n_nontrivial += 1;
                    if samples.len() < 4 && n_nontrivial % 499 == 1 {
                        samples.push(json!({"tb": r["tb"], "line": r["line"], "by_hand": hands.last().unwrap()["text"],
                            "parsed": r["printed"]}));
                    }
                }
            } else {
                n_ok_err += 1;
            }
        } else {
            n_bad += 1;
            writeln!(out, "{}", json!({"class": if r["st"] == "hang" {"hang"} else if r["st"] == "panic" {"panic"} else {"mismatch"},
                "spell": r["spell"], "tb": r["tb"], "line": r["line"], "rec": r, "hand": hands})).unwrap();
        }
    }
    out.flush().unwrap();
    println!("{}", json!({"records": n, "unspecified_skipped": n_unspec, "agree_parsed": n_ok_parsed,
        "agree_syntax_error": n_ok_err, "bad": n_bad, "missing": n_missing, "nontrivial": n_nontrivial,
        "syntax_error_cause_drift": n_cause_drift, "samples": samples}));
    0
}

fn one() -> i32 {
    let mut s = String::new();
    std::io::stdin().lock().read_line(&mut s).unwrap();
    let v: Value = serde_json::from_str(&s).expect("json");
    let tb = table_from_json(&v["tb"]);
    let line = strs(&v["line"]);
    set_spell(v["spell"].as_u64().unwrap_or(0) as usize);
    let text = render_line(&line);
    let obs = parse::parse_with(&text, Some(&tb));
    println!("{}", json!({"text": text, "obs": obs.to_json()}));
    0
}
