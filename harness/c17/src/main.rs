//! Conformance harness for property C17, see /verif/DESIGN.md.
fn main() {
    eprintln!("yv-c17: not implemented yet");
    std::process::exit(2);
}
