//! Data shared with spec/Alias.tla: tables, token rendering, random cases.
use rand::rngs::StdRng;
use rand::{Rng, SeedableRng};
use serde_json::{Value, json};

#[derive(Clone, Debug, PartialEq)]
pub struct AliasDef {
    pub name: String,
    pub toks: Vec<String>,
    pub bl: bool,
    pub g: bool,
    /// how the value text is laid out (same tokens for the spec):
    /// 0 single blanks; 1 leading blank; 2 double blanks; 3 tabs for blanks
    pub sty: u8,
}

pub type Table = Vec<AliasDef>;

#[derive(Clone, Debug, PartialEq)]
pub struct OutTok {
    pub t: String,
    pub o: Vec<String>,
    pub k: String,
}

impl OutTok {
    pub fn to_json(&self) -> Value {
        json!({"t": self.t, "o": self.o, "k": self.k})
    }
}

pub fn strs(v: &Value) -> Vec<String> {
    v.as_array().map(|a| a.iter().map(|x| x.as_str().unwrap_or("").to_string()).collect()).unwrap_or_default()
}

/// The spec prints a table as a JSON object name -> {toks, bl, g}; an empty
/// table (a function with empty domain) is printed as `[]`.
pub fn table_from_json(v: &Value) -> Table {
    let mut t = Table::new();
    if let Some(m) = v.as_object() {
        for (name, d) in m {
            t.push(AliasDef {
                name: name.clone(),
                toks: strs(&d["toks"]),
                bl: d["bl"].as_bool().unwrap_or(false),
                g: d["g"].as_bool().unwrap_or(false),
                sty: d["sty"].as_u64().unwrap_or(0) as u8,
            });
        }
    }
    t
}

pub fn table_json(t: &Table) -> Value {
    let mut m = serde_json::Map::new();
    for d in t {
        if d.sty == 0 {
            m.insert(d.name.clone(), json!({"toks": d.toks, "bl": d.bl, "g": d.g}));
        } else {
            m.insert(d.name.clone(), json!({"toks": d.toks, "bl": d.bl, "g": d.g, "sty": d.sty}));
        }
    }
    Value::Object(m)
}

pub fn out_from_json(v: &Value) -> Vec<OutTok> {
    v.as_array()
        .map(|a| {
            a.iter()
                .map(|x| OutTok { t: x["t"].as_str().unwrap_or("").to_string(), o: strs(&x["o"]), k: x["k"].as_str().unwrap_or("").to_string() })
                .collect()
        })
        .unwrap_or_default()
}

/// Spelling of the model's names and words in the text given to the real
/// parser / shell.  The specification's rules do not depend on how a name is
/// spelled (beyond its being an unquoted literal word), so every case is
/// replayed under several spellings:
///   0  the model's own ASCII tokens
///   1  alias names outside the portable alias-name set (`.`, `+`, `-`, `,`,
///      `%`, `@`, non-ASCII letters), words with multi-byte characters
///   2  other such names (`..`, a non-ASCII single letter, a trailing `.`),
///      multi-byte characters at the start of words
/// (yash accepts any literal word as an alias name unless `portable` is on.)
pub static SPELL: std::sync::atomic::AtomicUsize = std::sync::atomic::AtomicUsize::new(0);
pub const SPELLINGS: usize = 3;

pub fn set_spell(k: usize) {
    SPELL.store(k % SPELLINGS, std::sync::atomic::Ordering::Relaxed);
}
pub fn spell_now() -> usize {
    SPELL.load(std::sync::atomic::Ordering::Relaxed)
}

const BASE: [&str; 9] = ["a", "b", "c", "d", "e", "x", "y", "f", "q"];
const SPELL1: [&str; 9] = ["a.b", "c+d", "ñu", "d-e", "e,f%@", "xé", "ÿ", "fö", "qü"];
const SPELL2: [&str; 9] = ["ä", "b.", "..", "日本", "e+", "éx", "y¡", "öf", "üq"];

fn spell(w: &str) -> String {
    let k = spell_now();
    if k != 0 {
        if let Some(i) = BASE.iter().position(|b| *b == w) {
            return (if k == 1 { SPELL1[i] } else { SPELL2[i] }).to_string();
        }
    }
    w.to_string()
}

pub fn unspell(w: &str) -> String {
    let k = spell_now();
    if k != 0 {
        let tab = if k == 1 { &SPELL1 } else { &SPELL2 };
        if let Some(i) = tab.iter().position(|b| *b == w) {
            return BASE[i].to_string();
        }
    }
    w.to_string()
}

/// Text of one model token.  `BSx` is a backslash-quoted `x`, `'x'` a
/// single-quoted `x`, `v=x` an assignment word, `LC` a line continuation;
/// every other token is its own text (under the current spelling).
pub fn render_tok(t: &str) -> String {
    if t == "LC" {
        "\\\n".to_string()
    } else if t == "NL" {
        "\n".to_string()
    } else if let Some(r) = t.strip_prefix("BS") {
        format!("\\{}", spell(r))
    } else if let Some(r) = t.strip_prefix('\'').and_then(|r| r.strip_suffix('\'')) {
        format!("'{}'", spell(r))
    } else if let Some(r) = t.strip_prefix("v=") {
        format!("v={}", spell(r))
    } else {
        spell(t)
    }
}

pub fn unrender_tok(s: &str) -> String {
    if let Some(r) = s.strip_prefix('\\') {
        format!("BS{}", unspell(r))
    } else if let Some(r) = s.strip_prefix('\'').and_then(|r| r.strip_suffix('\'')) {
        format!("'{}'", unspell(r))
    } else if let Some(r) = s.strip_prefix("v=") {
        format!("v={}", unspell(r))
    } else {
        unspell(s)
    }
}

/// Name of an alias as given to the Glossary / the alias built-in.
pub fn render_name(n: &str) -> String {
    spell(n)
}

/// Tokens are separated by single blanks (so no token is ever completed by
/// text that follows an alias value).
pub fn render_line(toks: &[String]) -> String {
    toks.iter().map(|t| render_tok(t)).collect::<Vec<_>>().join(" ")
}

/// The text of an alias value: its tokens separated by blanks, plus a
/// trailing blank if `bl`.
pub fn render_value(d: &AliasDef) -> String {
    let sep = match d.sty {
        2 => "  ",
        3 => "\t",
        _ => " ",
    };
    let mut s = d.toks.iter().map(|t| render_tok(t)).collect::<Vec<_>>().join(sep);
    if d.sty == 1 && !d.toks.is_empty() {
        s.insert(0, ' ');
    }
    if d.bl {
        s.push_str(sep);
    }
    s
}

// ---------------------------------------------------------------------------
// random cases beyond the exhaustive bounds
// ---------------------------------------------------------------------------
pub struct Gen {
    pub rng: StdRng,
    /// generate while/until loops (never for lines that are executed: the
    /// probe functions succeed, so a loop would not end)
    pub loops: bool,
}

pub const NAMES: [&str; 5] = ["a", "b", "c", "d", "e"];
const WORDS: [&str; 6] = ["x", "y", "f", "'q'", "'a'", "BSb"];
const ASSIGNS: [&str; 5] = ["v=a", "v=b", "v=c", "v=d", "v=1"];

impl Gen {
    pub fn new(seed: u64) -> Self {
        Gen { rng: StdRng::seed_from_u64(seed), loops: true }
    }
    fn pick<'a>(&mut self, xs: &[&'a str]) -> &'a str {
        xs[self.rng.gen_range(0..xs.len())]
    }
    fn name(&mut self) -> String {
        self.pick(&NAMES).to_string()
    }
    fn value_tok(&mut self) -> String {
        let r = self.rng.gen_range(0..100);
        if r < 45 {
            self.name()
        } else if r < 60 {
            self.pick(&WORDS).to_string()
        } else if r < 80 {
            if self.loops {
                self.pick(&["!", "{", "}", "if", "then", "fi", "else", "do", "done", "while"]).to_string()
            } else {
                self.pick(&["!", "{", "}", "if", "then", "fi", "else"]).to_string()
            }
        } else if r < 92 {
            self.pick(&["|", ";", "&&", "||", ">", "<"]).to_string()
        } else {
            self.pick(&ASSIGNS).to_string()
        }
    }
    pub fn table(&mut self) -> Table {
        let mut t = Table::new();
        let global_ok = self.rng.gen_range(0..100) < 25;
        for n in NAMES {
            if self.rng.gen_range(0..100) < 65 {
                let len = [0, 1, 1, 1, 1, 2, 2, 3][self.rng.gen_range(0..8)];
                let toks: Vec<String> = (0..len).map(|_| self.value_tok()).collect();
                let bl = self.rng.gen_range(0..100) < 45;
                let g = global_ok && self.rng.gen_range(0..100) < 30;
                let sty = [0, 0, 0, 0, 1, 2, 3][self.rng.gen_range(0..7)];
                t.push(AliasDef { name: n.to_string(), toks, bl, g, sty });
            }
        }
        t
    }
    fn word(&mut self) -> String {
        if self.rng.gen_range(0..100) < 70 { self.name() } else { self.pick(&WORDS).to_string() }
    }
    fn simple(&mut self, out: &mut Vec<String>) {
        while self.rng.gen_range(0..100) < 20 {
            if self.rng.gen_range(0..2) == 0 {
                out.push(self.pick(&ASSIGNS).to_string());
            } else {
                out.push(self.pick(&[">", "<", ">>"]).to_string());
                out.push(self.word());
            }
        }
        let n = 1 + [0, 0, 1, 1, 2, 3][self.rng.gen_range(0..6)];
        for _ in 0..n {
            if self.rng.gen_range(0..100) < 10 {
                out.push("LC".to_string());
            }
            out.push(self.word());
            if self.rng.gen_range(0..100) < 8 {
                out.push(self.pick(&[">", "<", ">>"]).to_string());
                out.push(self.word());
            }
            if self.rng.gen_range(0..100) < 4 {
                out.push(self.pick(&ASSIGNS).to_string());
            }
        }
    }
    fn command(&mut self, depth: u32, out: &mut Vec<String>) {
        let r = self.rng.gen_range(0..100);
        if depth == 0 || r < 75 {
            self.simple(out);
        } else if r < 88 {
            out.push("{".into());
            self.list(depth - 1, out);
            out.push(";".into());
            out.push("}".into());
        } else if r >= 95 && self.loops {
            out.push(self.pick(&["while", "until"]).to_string());
            self.list(depth - 1, out);
            out.push(";".into());
            out.push("do".into());
            self.list(depth - 1, out);
            out.push(";".into());
            out.push("done".into());
        } else {
            out.push("if".into());
            self.list(depth - 1, out);
            out.push(";".into());
            out.push("then".into());
            self.list(depth - 1, out);
            out.push(";".into());
            if self.rng.gen_range(0..100) < 25 {
                out.push("else".into());
                self.list(depth - 1, out);
                out.push(";".into());
            }
            out.push("fi".into());
        }
    }
    fn pipeline(&mut self, depth: u32, out: &mut Vec<String>) {
        if self.rng.gen_range(0..100) < 15 {
            out.push("!".into());
        }
        self.command(depth, out);
        while self.rng.gen_range(0..100) < 20 {
            out.push("|".into());
            self.command(depth, out);
        }
    }
    fn list(&mut self, depth: u32, out: &mut Vec<String>) {
        self.pipeline(depth, out);
        while self.rng.gen_range(0..100) < 25 {
            out.push(self.pick(&[";", "&&", "||", "&"]).to_string());
            self.pipeline(depth, out);
        }
    }
    pub fn line(&mut self) -> Vec<String> {
        let mut out = Vec::new();
        if self.rng.gen_range(0..100) < 8 {
            // unstructured token soup
            let n = self.rng.gen_range(1..8);
            for _ in 0..n {
                let t = if self.rng.gen_range(0..2) == 0 { self.word() } else { self.value_tok() };
                out.push(t);
            }
        } else {
            self.list(2, &mut out);
        }
        out.truncate(16);
        while out.last().map(|t| t == "LC").unwrap_or(false) {
            out.pop();
        }
        out
    }
    pub fn case(&mut self) -> (Table, Vec<String>) {
        (self.table(), self.line())
    }
}
