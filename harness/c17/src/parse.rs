//! Running the real parser (yash_syntax::parser::Parser) on one line of text,
//! with or without an alias table, and projecting the result.
use crate::model::*;
use futures_util::FutureExt as _;
use serde_json::{Value, json};
use std::cell::Cell;
use std::rc::Rc;
use std::sync::Mutex;
use std::time::{Duration, Instant};
use yash_env::alias::{Alias, AliasSet, Glossary, HashEntry};
use yash_env::source::{Location, Source};
use yash_syntax::parser::Parser;
use yash_syntax::parser::lex::Lexer;
use yash_syntax::syntax::*;

/// Number of alias look-ups after which a parse is abandoned and recorded as
/// a hang.  Every substitution needs a look-up, so a substitution loop cannot
/// escape it; a legitimate parse of the generated inputs needs < 200.
pub const LOOKUP_LIMIT: usize = 2_000;
/// Wall-clock limit per parse (backstop for loops that do no look-up).
pub const TIME_LIMIT: Duration = Duration::from_secs(20);

static CURRENT: Mutex<Option<(Instant, String)>> = Mutex::new(None);

/// A parse that exceeds TIME_LIMIT cannot be interrupted in-process: the
/// watchdog reports the offending input on stderr and exits with status 3,
/// which lib/checks/c17.py records as a hang of the code under test.
pub fn start_watchdog() {
    std::thread::spawn(|| {
        loop {
            std::thread::sleep(Duration::from_millis(500));
            let g = CURRENT.lock().unwrap();
            if let Some((t, what)) = &*g {
                if t.elapsed() > TIME_LIMIT {
                    eprintln!("HANG-TIMEOUT {}", json!({"input": what}));
                    std::process::exit(3);
                }
            }
        }
    });
}

/// Marks the start / end of one run of the code under test for the watchdog.
pub fn watch(what: Option<&str>) {
    *CURRENT.lock().unwrap() = what.map(|w| (Instant::now(), w.to_string()));
}

#[derive(Debug)]
struct Counting {
    set: AliasSet,
    count: Cell<usize>,
}

impl Glossary for Counting {
    fn look_up(&self, name: &str) -> Option<Rc<Alias>> {
        self.count.set(self.count.get() + 1);
        if self.count.get() > LOOKUP_LIMIT {
            panic!("C17-LOOKUP-LIMIT");
        }
        self.set.look_up(name)
    }
    fn is_empty(&self) -> bool {
        self.set.is_empty()
    }
}

pub struct Obs {
    /// "ok" | "err" | "hang" | "panic"
    pub status: String,
    pub printed: String,
    pub err: String,
    /// (text, alias chain outermost first) of every word of the commands
    pub words: Vec<(String, Vec<String>)>,
    /// the tree contains a construct the word walker does not descend into
    pub unsupported: bool,
    pub lookups: usize,
}

impl Obs {
    pub fn to_json(&self) -> Value {
        json!({"status": self.status, "printed": self.printed, "err": self.err,
               "words": self.words.iter().map(|(t, o)| json!([t, o])).collect::<Vec<_>>(),
               "unsupported": self.unsupported, "lookups": self.lookups})
    }
}

fn chain(loc: &Location) -> Vec<String> {
    let mut v = Vec::new();
    let mut src = Rc::clone(&loc.code.source);
    while let Source::Alias { original, alias } = &*Rc::clone(&src) {
        v.push(unspell(&alias.name));
        src = Rc::clone(&original.code.source);
    }
    v.reverse();
    v
}

struct Walk {
    words: Vec<(String, Vec<String>)>,
    unsupported: bool,
}

impl Walk {
    fn redirs(&mut self, rs: &[Redir]) {
        for r in rs {
            match &r.body {
                RedirBody::Normal { operand, .. } => self.words.push((operand.to_string(), chain(&operand.location))),
                RedirBody::HereDoc(_) => self.unsupported = true,
            }
        }
    }
    fn list(&mut self, l: &List) {
        for item in &l.0 {
            let ao = &item.and_or;
            self.pipeline(&ao.first);
            for (_, p) in &ao.rest {
                self.pipeline(p);
            }
        }
    }
    fn pipeline(&mut self, p: &Pipeline) {
        for c in &p.commands {
            self.command(c);
        }
    }
    fn command(&mut self, c: &Command) {
        match c {
            Command::Simple(s) => {
                for a in &s.assigns {
                    match &a.value {
                        Value_::Scalar(_) => self.words.push((a.to_string(), chain(&a.location))),
                        _ => self.unsupported = true,
                    }
                }
                for (w, _) in &s.words {
                    self.words.push((w.to_string(), chain(&w.location)));
                }
                self.redirs(&s.redirs);
            }
            Command::Compound(f) => {
                match &f.command {
                    CompoundCommand::Grouping(l) => self.list(l),
                    CompoundCommand::If { condition, body, elifs, r#else } => {
                        self.list(condition);
                        self.list(body);
                        for e in elifs {
                            self.list(&e.condition);
                            self.list(&e.body);
                        }
                        if let Some(e) = r#else {
                            self.list(e);
                        }
                    }
                    CompoundCommand::While { condition, body } | CompoundCommand::Until { condition, body } => {
                        self.list(condition);
                        self.list(body);
                    }
                    _ => self.unsupported = true,
                }
                self.redirs(&f.redirs);
            }
            Command::Function(_) => self.unsupported = true,
        }
    }
}

use yash_syntax::syntax::Value as Value_;

fn do_parse(text: &str, gl: Option<&Counting>) -> (String, String, String, Vec<(String, Vec<String>)>, bool) {
    let mut lexer = Lexer::with_code(text);
    let mut config = Parser::config();
    if let Some(g) = gl {
        config.aliases(g);
    }
    let mut parser = config.input(&mut lexer);
    let mut printed: Vec<String> = Vec::new();
    let mut walk = Walk { words: Vec::new(), unsupported: false };
    loop {
        match parser.command_line().now_or_never() {
            None => return ("err".into(), printed.join("\n"), "PENDING".into(), walk.words, true),
            Some(Ok(Some(list))) => {
                printed.push(list.to_string());
                walk.list(&list);
            }
            Some(Ok(None)) => break,
            Some(Err(e)) => {
                return ("err".into(), printed.join("\n"), e.cause.to_string(), walk.words, walk.unsupported);
            }
        }
    }
    ("ok".into(), printed.join("\n"), String::new(), walk.words, walk.unsupported)
}

/// Parses `text` to the end of input.  `tb = None`: no aliases at all.
pub fn parse_with(text: &str, tb: Option<&Table>) -> Obs {
    let gl = tb.map(|t| {
        let mut set = AliasSet::new();
        for d in t {
            set.insert(HashEntry::new(render_name(&d.name), render_value(d), d.g, Location::dummy("alias")));
        }
        Counting { set, count: Cell::new(0) }
    });
    *CURRENT.lock().unwrap() = Some((Instant::now(), text.to_string()));
    let r = yvcommon::util::catch(|| do_parse(text, gl.as_ref()));
    *CURRENT.lock().unwrap() = None;
    let lookups = gl.as_ref().map(|g| g.count.get()).unwrap_or(0);
    match r {
        Ok((status, printed, err, words, unsupported)) => Obs { status, printed, err, words, unsupported, lookups },
        Err(msg) => Obs {
            status: if msg.contains("C17-LOOKUP-LIMIT") { "hang".into() } else { "panic".into() },
            printed: String::new(),
            err: msg,
            words: Vec::new(),
            unsupported: true,
            lookups,
        },
    }
}
