//! End to end through the `alias` / `unalias` built-ins: a real shell run on
//! the simulated OS (yvcommon::shell) reads a script from standard input, so
//! the read-eval loop parses it line by line with the alias table in effect
//! at that moment.
//!
//!   mode "next"   aliases defined on one line, used on the next
//!   mode "same"   defined and used on the same line: must NOT apply
//!   mode "unal"   defined, some removed with `unalias`, then used
//!   mode "redef"  defined, some redefined, then used
//!
//! `record` runs the alias script and records what was executed (probe
//! events, stdout, exit status) together with the table in effect when the
//! use line is parsed; TLC (Trace_Alias) computes the allowed by-hand
//! results for that table; `judge` runs each by-hand text in a shell with no
//! aliases and compares what was executed.
use crate::model::*;
use rand::Rng;
use serde_json::{Value, json};
use std::collections::HashMap;
use std::io::{BufRead, Write};
use yvcommon::shell::{ShellCfg, run_shell};
use yvcommon::util::{open_out, opt, opt_usize};

const FUNCS: [&str; 9] = ["a", "b", "c", "d", "e", "x", "y", "f", "q"];

fn preamble() -> String {
    // every word of the vocabulary is a function that records its name and arguments
    FUNCS.iter().map(|n| render_name(n)).map(|n| format!("{n}() {{ probe {n} \"$@\"; }}\n")).collect()
}

fn sq(s: &str) -> String {
    format!("'{}'", s.replace('\'', "'\\''"))
}

fn alias_cmd(t: &Table) -> String {
    let mut s = String::from("alias");
    for d in t {
        s.push(' ');
        s.push_str(&format!("{}={}", render_name(&d.name), sq(&render_value(d))));
    }
    s
}

struct Run {
    outcome: String,
    status: i32,
    stdout: String,
    probes: Vec<String>,
}

fn sh(script: &str) -> Run {
    let mut cfg = ShellCfg::stdin_script(script.as_bytes());
    cfg.step_limit = 200_000;
    // the shell's own parser has no look-up limit: a substitution loop is
    // caught by the watchdog (exit status 3, recorded as a hang)
    crate::parse::watch(Some(script));
    let r = run_shell(cfg);
    crate::parse::watch(None);
    Run { outcome: r.outcome_str(), status: r.status, stdout: r.stdout_str(), probes: r.probe_trace() }
}

impl Run {
    fn json(&self) -> Value {
        json!({"outcome": self.outcome, "status": self.status, "stdout": self.stdout, "probes": self.probes})
    }
}

pub fn run(args: &[String]) -> i32 {
    match args.first().map(|s| s.as_str()) {
        Some("record") => record(&args[1..]),
        Some("judge") => judge(&args[1..]),
        Some("redo") => redo(&args[1..]),
        _ => {
            eprintln!("usage: yv-c17 e2e <record|judge> ...");
            2
        }
    }
}

fn record(args: &[String]) -> i32 {
    let n = opt_usize(args, "--n", 200);
    let mut out = open_out(args);
    let mut g = Gen::new(yvcommon::util::seed() ^ 0xe2e17);
    g.loops = false;
    let mut id = 0;
    while id < n {
        let (mut tb, line) = g.case();
        for d in tb.iter_mut() {
            d.g = false; // the built-in cannot define global aliases
        }
        if tb.is_empty() {
            continue;
        }
        id += 1;
        set_spell(id);
        let text = render_line(&line);
        let r = g.rng.gen_range(0..100);
        let (mode, script, eff): (&str, String, Table) = if r < 50 {
            ("next", format!("{}\n{}\n", alias_cmd(&tb), text), tb.clone())
        } else if r < 70 {
            ("same", format!("{}; {}\n", alias_cmd(&tb), text), Table::new())
        } else if r < 85 {
            let removed: Vec<String> = tb.iter().filter(|_| g.rng.gen_range(0..2) == 0).map(|d| d.name.clone()).collect();
            let eff: Table = tb.iter().filter(|d| !removed.contains(&d.name)).cloned().collect();
            let un = if removed.is_empty() { "unalias -a".to_string() } else { format!("unalias {}", removed.iter().map(|n| render_name(n)).collect::<Vec<_>>().join(" ")) };
            let eff = if removed.is_empty() { Table::new() } else { eff };
            ("unal", format!("{}\n{}\n{}\n", alias_cmd(&tb), un, text), eff)
        } else {
            let tb2 = g.table();
            let mut eff = tb.clone();
            for d in &tb2 {
                let mut d = d.clone();
                d.g = false;
                eff.retain(|e| e.name != d.name);
                eff.push(d);
            }
            let second = if tb2.is_empty() { ":".to_string() } else { alias_cmd(&tb2.iter().map(|d| { let mut d = d.clone(); d.g = false; d }).collect()) };
            ("redef", format!("{}\n{}\n{}\n", alias_cmd(&tb), second, text), eff)
        };
        let full = format!("{}{}", preamble(), script);
        let obs = sh(&full);
        let st = if obs.outcome == "completed" { "ok" } else if obs.outcome == "steplimit" || obs.outcome == "deadlock" { "hang" } else { "panic" };
        let rec = json!({"id": id, "spell": spell_now(), "tb": table_json(&eff), "line": line, "st": st, "wordsok": false, "words": [],
            "mode": mode, "script": script, "obs": obs.json()});
        writeln!(out, "{rec}").unwrap();
    }
    out.flush().unwrap();
    0
}

/// Re-executes recorded scripts (used by --replay).
fn redo(args: &[String]) -> i32 {
    let input = yvcommon::util::open_in(args);
    let mut out = open_out(args);
    let mut id = 0;
    for l in input.lines() {
        let l = l.expect("read");
        if l.trim().is_empty() {
            continue;
        }
        let mut r: Value = serde_json::from_str(&l).expect("json");
        id += 1;
        set_spell(r["spell"].as_u64().unwrap_or(0) as usize);
        let obs = sh(&format!("{}{}", preamble(), r["script"].as_str().unwrap_or("")));
        r["st"] = json!(if obs.outcome == "completed" { "ok" } else if obs.outcome == "steplimit" || obs.outcome == "deadlock" { "hang" } else { "panic" });
        r["obs"] = obs.json();
        r["id"] = json!(id);
        writeln!(out, "{r}").unwrap();
    }
    out.flush().unwrap();
    0
}

fn judge(args: &[String]) -> i32 {
    let rec_path = opt(args, "--rec").expect("--rec");
    let res_path = opt(args, "--res").expect("--res");
    let mut out = open_out(args);
    let mut res: HashMap<u64, Value> = HashMap::new();
    for l in std::io::BufReader::new(std::fs::File::open(res_path).expect("open --res")).lines() {
        let l = l.unwrap();
        if l.trim().is_empty() {
            continue;
        }
        let v: Value = serde_json::from_str(&l).expect("json");
        res.insert(v["id"].as_u64().unwrap(), v);
    }
    let (mut n, mut n_unspec, mut n_ok, mut n_bad, mut n_missing, mut n_ran) = (0usize, 0usize, 0usize, 0usize, 0usize, 0usize);
    let mut modes: HashMap<String, usize> = HashMap::new();
    let mut samples = Vec::new();
    for l in std::io::BufReader::new(std::fs::File::open(rec_path).expect("open --rec")).lines() {
        let l = l.unwrap();
        if l.trim().is_empty() {
            continue;
        }
        let r: Value = serde_json::from_str(&l).expect("json");
        n += 1;
        let id = r["id"].as_u64().unwrap();
        let Some(s) = res.get(&id) else {
            n_missing += 1;
            continue;
        };
        if s["unspec"].as_bool().unwrap_or(false) {
            n_unspec += 1;
            continue;
        }
        set_spell(r["spell"].as_u64().unwrap_or(0) as usize);
        let mut ok = false;
        let mut hands = Vec::new();
        for a in s["res"].as_array().unwrap() {
            let htext = render_line(&strs(a));
            let hand = sh(&format!("{}{}\n", preamble(), htext));
            let same = r["obs"]["outcome"] == hand.outcome.as_str()
                && r["obs"]["status"] == hand.status
                && r["obs"]["stdout"] == hand.stdout.as_str()
                && r["obs"]["probes"] == json!(hand.probes);
            hands.push(json!({"text": htext, "run": hand.json()}));
            if same {
                ok = true;
                if !hand.probes.is_empty() {
                    n_ran += 1;
                }
                break;
            }
        }
        if ok {
            n_ok += 1;
            *modes.entry(r["mode"].as_str().unwrap_or("").to_string()).or_default() += 1;
            if samples.len() < 3 && n_ok % 41 == 1 {
                samples.push(json!({"script": r["script"], "by_hand": hands.last().unwrap()["text"], "executed": r["obs"]["probes"]}));
            }
        } else {
            n_bad += 1;
            writeln!(out, "{}", json!({"class": "e2e", "spell": r["spell"], "mode": r["mode"], "tb": r["tb"], "line": r["line"], "rec": r, "hand": hands})).unwrap();
        }
    }
    out.flush().unwrap();
    println!("{}", json!({"records": n, "unspecified_skipped": n_unspec, "agree": n_ok, "agree_with_commands_run": n_ran,
        "bad": n_bad, "missing": n_missing, "modes": modes, "samples": samples}));
    0
}
