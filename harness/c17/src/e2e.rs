//! End to end through the `alias` built-in (filled in below).
pub fn run(_args: &[String]) -> i32 {
    eprintln!("e2e: not implemented yet");
    2
}
