//! One observation of the real `yash_fnmatch` API on a (pattern, text,
//! configuration): everything Trace_FnmatchExt.tla judges.  This module only
//! calls the crate and writes down what it returned; it judges nothing.
use serde_json::{Value, json};
use std::ops::Range;
use yash_fnmatch::ast::{Ast, Atom};
use yash_fnmatch::{Config, Error, Pattern, PatternChar, with_escape, without_escape};
use yvcommon::util::catch;

#[derive(Clone, Copy, Debug, PartialEq, Eq)]
pub struct Cfg {
    pub ab: bool,
    pub ae: bool,
    pub sh: bool,
    pub lp: bool,
    pub ci: bool,
}

impl Cfg {
    pub fn config(&self) -> Config {
        let mut c = Config::default();
        c.anchor_begin = self.ab;
        c.anchor_end = self.ae;
        c.shortest_match = self.sh;
        c.literal_period = self.lp;
        c.case_insensitive = self.ci;
        c
    }
    pub fn from_json(v: &Value) -> Cfg {
        let b = |k: &str| v[k].as_bool().unwrap_or(false);
        Cfg { ab: b("ab"), ae: b("ae"), sh: b("sh"), lp: b("lp"), ci: b("ci") }
    }
}

/// How the pattern characters are handed to the parser.
#[derive(Clone, Copy, Debug, PartialEq, Eq)]
pub enum Mode {
    /// explicit `PatternChar`s (`c` = characters, `l` = quoted flags)
    Pc,
    /// `with_escape(text)`
    Esc,
    /// `without_escape(text)`
    Raw,
}

impl Mode {
    pub fn name(&self) -> &'static str {
        match self {
            Mode::Pc => "pc",
            Mode::Esc => "esc",
            Mode::Raw => "raw",
        }
    }
    pub fn from_name(s: &str) -> Mode {
        match s {
            "esc" => Mode::Esc,
            "raw" => Mode::Raw,
            _ => Mode::Pc,
        }
    }
}

pub fn strs(v: &Value) -> Vec<String> {
    v.as_array()
        .map(|a| a.iter().map(|x| x.as_str().unwrap_or("").to_string()).collect())
        .unwrap_or_default()
}

pub fn flags(v: &Value) -> Vec<bool> {
    v.as_array()
        .map(|a| a.iter().map(|x| x.as_i64().unwrap_or(0) != 0).collect())
        .unwrap_or_default()
}

pub fn chars_of(s: &str) -> Vec<String> {
    s.chars().map(|c| c.to_string()).collect()
}

pub fn pattern_chars(mode: Mode, c: &[String], l: &[bool]) -> Vec<PatternChar> {
    match mode {
        Mode::Pc => c
            .iter()
            .zip(l.iter().chain(std::iter::repeat(&false)))
            .map(|(c, &l)| {
                let ch = c.chars().next().unwrap_or('?');
                if l { PatternChar::Literal(ch) } else { PatternChar::Normal(ch) }
            })
            .collect(),
        Mode::Esc => with_escape(&c.concat()).collect(),
        Mode::Raw => without_escape(&c.concat()).collect(),
    }
}

pub const NONE: (i64, i64) = (-1, -1);

/// Character indices of a byte range; `None` if it does not lie on character
/// boundaries within the text.
fn conv(text: &str, r: &Range<usize>) -> Option<(i64, i64)> {
    if r.start > r.end || r.end > text.len() || !text.is_char_boundary(r.start) || !text.is_char_boundary(r.end) {
        return None;
    }
    Some((text[..r.start].chars().count() as i64, text[..r.end].chars().count() as i64))
}

fn error_name(e: &Error) -> (&'static str, String) {
    match e {
        Error::EmptyBracket => ("EmptyBracket", String::new()),
        Error::EmptyCollatingSymbol => ("EmptyCollatingSymbol", String::new()),
        Error::UndefinedCharClass(n) => ("UndefinedCharClass", n.clone()),
        Error::CharClassInRange(n) => ("CharClassInRange", n.clone()),
        Error::RegexError(_) => ("RegexError", String::new()),
        _ => ("Other", String::new()),
    }
}

/// What the three entry points and the accessors returned.
#[derive(Clone, Debug, PartialEq)]
pub struct Calls {
    pub e: String,
    pub en: String,
    pub cf: bool,
    pub lit: bool,
    pub lv: String,
    pub il: bool,
    pub iv: String,
    pub m: bool,
    pub f: Option<Range<usize>>,
    pub rf: Option<Range<usize>>,
}

/// Which public constructor compiles the pattern.
#[derive(Clone, Copy, Debug, PartialEq, Eq)]
enum Entry {
    ParseWithConfig,
    FromAstAndConfig,
    /// `Pattern::parse` (default configuration only)
    Parse,
    /// `Pattern::from_ast` (default configuration only)
    FromAst,
}

fn calls(entry: Entry, pc: &[PatternChar], cfg: Cfg, text: &str) -> Calls {
    let config = cfg.config();
    let compiled = match entry {
        Entry::ParseWithConfig => Pattern::parse_with_config(pc.iter().copied(), config),
        Entry::FromAstAndConfig => Pattern::from_ast_and_config(&Ast::new(pc.iter().copied()), config),
        Entry::Parse => Pattern::parse(pc.iter().copied()),
        Entry::FromAst => Pattern::from_ast(&Ast::new(pc.iter().copied())),
    };
    match compiled {
        Err(e) => {
            let (k, n) = error_name(&e);
            Calls { e: k.to_string(), en: n, cf: true, lit: false, lv: String::new(), il: false, iv: String::new(),
                    m: false, f: None, rf: None }
        }
        Ok(p) => {
            let cf = *p.config() == config;
            let lit = p.as_literal().map(|s| s.to_string());
            let m = p.is_match(text);
            let f = p.find(text);
            let rf = p.rfind(text);
            let il = p.into_literal();
            Calls {
                e: String::new(),
                en: String::new(),
                cf,
                lit: lit.is_some(),
                lv: lit.unwrap_or_default(),
                il: il.is_ok(),
                iv: il.unwrap_or_default(),
                m,
                f,
                rf,
            }
        }
    }
}

/// is_match of the pattern with both anchors added (literal_period off) on `part`
fn anchored_match(pc: &[PatternChar], cfg: Cfg, part: &str) -> i64 {
    let c2 = Cfg { ab: true, ae: true, lp: false, ..cfg };
    match Pattern::parse_with_config(pc.iter().copied(), c2.config()) {
        Ok(p) => p.is_match(part) as i64,
        Err(_) => 0,
    }
}

/// The full record for Trace_FnmatchExt.tla.
pub fn observe(mode: Mode, c: &[String], l: &[bool], cfg: Cfg, text: &str) -> Value {
    let mut rec = json!({
        "mode": mode.name(),
        "c": c,
        "l": l.iter().map(|&b| b as i32).collect::<Vec<i32>>(),
        "s": chars_of(text),
        "ab": cfg.ab, "ae": cfg.ae, "sh": cfg.sh, "lp": cfg.lp, "ci": cfg.ci,
        "pcc": [], "pcl": [], "pn": true, "e": "", "en": [], "cf": true,
        "lit": false, "lv": [], "il": false, "iv": [], "ak": [], "ac": [],
        "m": false, "f": [-1, -1], "rf": [-1, -1], "bd": true, "d": true, "rx": true, "fa": -1, "ra": -1, "sf": [-2, -2],
    });
    let r = catch(|| {
        let pc = pattern_chars(mode, c, l);
        let ast = Ast::new(pc.iter().copied());
        let a = calls(Entry::ParseWithConfig, &pc, cfg, text);
        // the same again, and through the other public constructors
        let mut same = a == calls(Entry::ParseWithConfig, &pc, cfg, text) && a == calls(Entry::FromAstAndConfig, &pc, cfg, text);
        if cfg.config() == Config::default() {
            same = same && a == calls(Entry::Parse, &pc, cfg, text) && a == calls(Entry::FromAst, &pc, cfg, text);
        }
        // Ast::to_regex / fmt_regex: "Only the anchor_begin and anchor_end options in config affect the results."
        let anchors_only = Cfg { sh: false, lp: false, ci: false, ..cfg };
        let mut written = String::new();
        let wrote = ast.fmt_regex(&cfg.config(), &mut written).map(|()| written);
        let rx = ast.to_regex(&cfg.config()) == ast.to_regex(&anchors_only.config()) && wrote == ast.to_regex(&cfg.config());
        let mut fa = -1;
        let mut ra = -1;
        let mut sf: Option<Option<Range<usize>>> = None;
        if let Some(r) = &a.f {
            if conv(text, r).is_some() {
                fa = anchored_match(&pc, cfg, &text[r.clone()]);
                if let Ok(p) = Pattern::parse_with_config(pc.iter().copied(), cfg.config()) {
                    sf = Some(p.find(&text[r.start..]));
                }
            }
        }
        if let Some(r) = &a.rf {
            if conv(text, r).is_some() {
                ra = anchored_match(&pc, cfg, &text[r.clone()]);
            }
        }
        (pc, ast, a, same, rx, fa, ra, sf)
    });
    let Ok((pc, ast, a, same, rx, fa, ra, sf)) = r else {
        return rec;
    };
    let o = rec.as_object_mut().unwrap();
    o.insert("pn".into(), json!(false));
    o.insert("pcc".into(), json!(pc.iter().map(|p| p.char_value().to_string()).collect::<Vec<_>>()));
    o.insert("pcl".into(), json!(pc.iter().map(|p| matches!(p, PatternChar::Literal(_)) as i32).collect::<Vec<_>>()));
    o.insert("e".into(), json!(a.e));
    o.insert("en".into(), json!(chars_of(&a.en)));
    o.insert("cf".into(), json!(a.cf));
    o.insert("lit".into(), json!(a.lit));
    o.insert("lv".into(), json!(chars_of(&a.lv)));
    o.insert("il".into(), json!(a.il));
    o.insert("iv".into(), json!(chars_of(&a.iv)));
    let mut ak = vec![];
    let mut ac = vec![];
    for atom in &ast.atoms {
        let (k, ch) = match atom {
            Atom::Char(ch) => ("c", ch.to_string()),
            Atom::AnyChar => ("q", String::new()),
            Atom::AnyString => ("s", String::new()),
            Atom::Bracket(b) => (if b.complement { "n" } else { "b" }, String::new()),
        };
        ak.push(k);
        ac.push(ch);
    }
    o.insert("ak".into(), json!(ak));
    o.insert("ac".into(), json!(ac));
    o.insert("m".into(), json!(a.m));
    o.insert("d".into(), json!(same));
    o.insert("rx".into(), json!(rx));
    let mut bd = true;
    let mut put = |o: &mut serde_json::Map<String, Value>, k: &str, r: &Option<Range<usize>>, none: (i64, i64)| match r {
        None => {
            o.insert(k.into(), json!([none.0, none.1]));
        }
        Some(r) => match conv(text, r) {
            Some((x, y)) => {
                o.insert(k.into(), json!([x, y]));
            }
            None => {
                bd = false;
                o.insert(k.into(), json!([r.start as i64, r.end as i64]));
            }
        },
    };
    put(o, "f", &a.f, NONE);
    put(o, "rf", &a.rf, NONE);
    match (&a.f, sf) {
        (Some(fr), Some(sfr)) => {
            // relative to the suffix text
            let suffix = &text[fr.start..];
            match &sfr {
                None => {
                    o.insert("sf".into(), json!([-1, -1]));
                }
                Some(r) => match conv(suffix, r) {
                    Some((x, y)) => {
                        o.insert("sf".into(), json!([x, y]));
                    }
                    None => {
                        bd = false;
                        o.insert("sf".into(), json!([r.start as i64, r.end as i64]));
                    }
                },
            }
        }
        _ => {}
    }
    o.insert("bd".into(), json!(bd));
    o.insert("fa".into(), json!(fa));
    o.insert("ra".into(), json!(ra));
    rec
}

/// JSON text with every non-ASCII character written as \uXXXX so that the
/// JVM's default charset cannot matter.
pub fn ascii_json(v: &Value) -> String {
    let s = v.to_string();
    if s.is_ascii() {
        return s;
    }
    let mut out = String::with_capacity(s.len() + 16);
    for ch in s.chars() {
        if ch.is_ascii() {
            out.push(ch);
        } else {
            let mut buf = [0u16; 2];
            for u in ch.encode_utf16(&mut buf) {
                out.push_str(&format!("\\u{:04x}", u));
            }
        }
    }
    out
}
