//! `case` and `${v#p}` `${v##p}` `${v%p}` `${v%%p}` through the whole shell
//! (the places where the shell configures yash-fnmatch: anchors and
//! shortest_match; neither literal_period nor case_insensitive).  Expected
//! values are read from the lines TLC printed (Gen_FnmatchExt, Kind =
//! "shell"); this module only renders each (pattern, subject) as shell text,
//! runs the real shell on the simulated OS and compares the probe arguments.
//!
//! Two renderings of a pattern:
//!  * `var`:    the pattern text is stored in a variable and expanded
//!              unquoted: a backslash quotes the next character;
//!  * `direct`: the pattern is written in the script, quoted characters
//!              written as `\c`, `'c'` or `"c"` in turn.
use crate::obs;
use serde_json::{Value, json};
use std::io::{BufRead, Write};
use yvcommon::shell::{ShellCfg, run_shell};
use yvcommon::util;

fn sq(s: &str) -> String {
    format!("'{}'", s.replace('\'', "'\\''"))
}

const SAFE: &str = "abcdefghijklmnopqrstuvwxyzABCDEFGHIJKLMNOPQRSTUVWXYZ0123456789.-*?[]!^:=,/+@%_";

fn safe(ch: char) -> bool {
    SAFE.contains(ch) || !ch.is_ascii()
}

fn render_var(c: &[String], l: &[bool]) -> Option<String> {
    let mut t = String::new();
    for (c, &l) in c.iter().zip(l) {
        if l {
            t.push('\\');
        } else if c == "\\" {
            return None;
        }
        t.push_str(c);
    }
    Some(t)
}

fn render_direct(c: &[String], l: &[bool]) -> Option<String> {
    let mut t = String::new();
    for (i, (c, &l)) in c.iter().zip(l).enumerate() {
        let ch = c.chars().next()?;
        if l {
            match i % 3 {
                _ if ch == '\'' => t.push_str("\\'"),
                0 if ch != '\n' => {
                    t.push('\\');
                    t.push(ch);
                }
                1 if !"$`\\\"".contains(ch) => {
                    t.push('"');
                    t.push(ch);
                    t.push('"');
                }
                _ => {
                    t.push('\'');
                    t.push(ch);
                    t.push('\'');
                }
            }
        } else if safe(ch) {
            t.push(ch);
        } else {
            return None;
        }
    }
    // a leading "#" or "%" would change the operator; "esac" is reserved
    if t.starts_with('#') || t.starts_with('%') || t == "esac" || t.is_empty() {
        return None;
    }
    Some(t)
}

pub fn run(args: &[String]) -> i32 {
    let inp = util::open_in(args);
    let mut w = util::open_out(args);
    let (mut patterns, mut cases, mut skipped, mut runs, mut mism) = (0u64, 0u64, 0u64, 0u64, 0u64);
    let (mut via_var, mut via_direct, mut nontrivial) = (0u64, 0u64, 0u64);
    for line in inp.lines() {
        let line = line.unwrap();
        if line.trim().is_empty() {
            continue;
        }
        let v: Value = serde_json::from_str(&line).expect("json");
        if v.get("dom").is_some() {
            continue;
        }
        let c = obs::strs(&v["c"]);
        let l = obs::flags(&v["l"]);
        let rows: Vec<Vec<String>> = v["sh"].as_array().map(|a| a.iter().map(obs::strs).collect()).unwrap_or_default();
        if rows.is_empty() {
            skipped += 1;
            continue;
        }
        patterns += 1;
        let mut renderings: Vec<(&str, String, String)> = vec![]; // (route, prelude, pattern text in the script)
        if let Some(t) = render_var(&c, &l) {
            renderings.push(("var", format!("p={}\n", sq(&t)), "$p".to_string()));
            via_var += 1;
        }
        if let Some(t) = render_direct(&c, &l) {
            renderings.push(("direct", String::new(), t));
            via_direct += 1;
        }
        for (route, prelude, pt) in renderings {
            let mut script = prelude.clone();
            for (i, row) in rows.iter().enumerate() {
                script.push_str(&format!(
                    "v={}\nprobe t{i} \"${{v#{pt}}}\" \"${{v##{pt}}}\" \"${{v%{pt}}}\" \"${{v%%{pt}}}\"\ncase \"$v\" in\n({pt}) probe c{i} 1;;\n(*) probe c{i} 0;;\nesac\n",
                    sq(&row[0])
                ));
            }
            runs += 1;
            let r = run_shell(ShellCfg::command(&script));
            let outcome = r.outcome_str();
            let mut got_t: Vec<Option<Vec<String>>> = vec![None; rows.len()];
            let mut got_c: Vec<Option<String>> = vec![None; rows.len()];
            for e in &r.events {
                if e["ev"] != "probe" {
                    continue;
                }
                let a = obs::strs(&e["args"]);
                if a.is_empty() {
                    continue;
                }
                if let Some(i) = a[0].strip_prefix('t').and_then(|x| x.parse::<usize>().ok()) {
                    if i < rows.len() {
                        got_t[i] = Some(a[1..].to_vec());
                    }
                } else if let Some(i) = a[0].strip_prefix('c').and_then(|x| x.parse::<usize>().ok()) {
                    if i < rows.len() {
                        got_c[i] = a.get(1).cloned();
                    }
                }
            }
            for (i, row) in rows.iter().enumerate() {
                cases += 1;
                let want_t = &row[1..5];
                if want_t.iter().any(|t| t != &row[0]) || row[5] == "1" {
                    nontrivial += 1;
                }
                let ok_t = got_t[i].as_deref() == Some(want_t);
                let ok_c = got_c[i].as_deref() == Some(row[5].as_str());
                if !(ok_t && ok_c) {
                    mism += 1;
                    if mism <= 200 {
                        let kind = if outcome != "completed" {
                            "shell-run"
                        } else if got_t[i].is_none() || got_c[i].is_none() {
                            "shell-missing"
                        } else if !ok_t {
                            "shell-trim"
                        } else {
                            "shell-case"
                        };
                        writeln!(
                            w,
                            "{}",
                            obs::ascii_json(&json!({"kind": kind, "route": route, "c": c, "l": v["l"], "s": row[0],
                                   "want": {"trim": want_t, "case": row[5]},
                                   "got": {"trim": got_t[i], "case": got_c[i], "outcome": outcome,
                                           "stderr": r.stderr_str().chars().take(300).collect::<String>()},
                                   "pattern_text": pt}))
                        )
                        .unwrap();
                    }
                }
            }
        }
    }
    writeln!(
        w,
        "{}",
        json!({"stats": {"patterns": patterns, "cases": cases, "nontrivial": nontrivial, "skipped_open": skipped, "shell_runs": runs,
                          "via_var": via_var, "via_direct": via_direct, "mismatches": mism}})
    )
    .unwrap();
    0
}
