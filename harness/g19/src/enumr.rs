//! spec -> impl: every pattern line printed by TLC (Gen_FnmatchExt, Kind =
//! "match") is compiled by the real `yash_fnmatch` under every configuration
//! of the header and `is_match` / `find` / `rfind` are run on every subject of
//! the domain.  The result must be one of the outcomes that TLC printed for
//! that (pattern, subject, configuration); `as_literal`, the atoms of
//! `Ast::new` and the error of `parse_with_config` must be what the line says.
//! Expected values are only ever read from TLC's lines.
use crate::obs::{self, Cfg, Mode};
use serde_json::{Value, json};
use std::collections::HashMap;
use std::io::{BufRead, Write};
use std::sync::Mutex;
use std::sync::atomic::{AtomicU64, Ordering};
use yash_fnmatch::ast::{Ast, Atom};
use yash_fnmatch::{Error, Pattern, PatternChar};
use yvcommon::util::{self, catch};

struct Header {
    dom: Vec<String>,
    cfgs: Vec<Cfg>,
}

#[derive(Default)]
struct Stats {
    patterns: AtomicU64,
    open_patterns: AtomicU64,
    error_patterns: AtomicU64,
    literal_patterns: AtomicU64,
    cases: AtomicU64,
    cases_open: AtomicU64,
    cases_multi: AtomicU64,
    cases_matching: AtomicU64,
    nontrivial_patterns: AtomicU64,
    mismatches: AtomicU64,
    sampled: AtomicU64,
}

fn enc(text: &str, f: &Option<std::ops::Range<usize>>, r: &Option<std::ops::Range<usize>>) -> Option<i64> {
    let ci = |b: usize| -> Option<i64> {
        if b <= text.len() && text.is_char_boundary(b) { Some(text[..b].chars().count() as i64) } else { None }
    };
    let one = |x: &Option<std::ops::Range<usize>>| -> Option<(i64, i64)> {
        match x {
            None => Some((-1, -1)),
            Some(r) => Some((ci(r.start)?, ci(r.end)?)),
        }
    };
    let (f1, f2) = one(f)?;
    let (r1, r2) = one(r)?;
    Some((f1 + 1) * 1000 + (f2 + 1) * 100 + (r1 + 1) * 10 + (r2 + 1))
}

fn error_kind(e: &Error) -> &'static str {
    match e {
        Error::EmptyBracket => "EmptyBracket",
        Error::EmptyCollatingSymbol => "EmptyCollatingSymbol",
        Error::UndefinedCharClass(_) => "UndefinedCharClass",
        Error::CharClassInRange(_) => "CharClassInRange",
        Error::RegexError(_) => "RegexError",
        _ => "Other",
    }
}

fn one_pattern(
    h: &Header,
    v: &Value,
    st: &Stats,
    every: u64,
    out: &Mutex<Box<dyn Write + Send>>,
    sample: &Mutex<Box<dyn Write + Send>>,
) {
    let c = obs::strs(&v["c"]);
    let l = obs::flags(&v["l"]);
    let pc: Vec<PatternChar> = obs::pattern_chars(Mode::Pc, &c, &l);
    let open = v["u"].as_str().unwrap_or("") != "" || v["mc"].as_bool().unwrap_or(false);
    let ek = obs::strs(&v["ek"]);
    st.patterns.fetch_add(1, Ordering::Relaxed);
    if open {
        st.open_patterns.fetch_add(1, Ordering::Relaxed);
    }
    let mism = |kind: &str, s: &str, cfg: Option<Cfg>, detail: Value| {
        let n = st.mismatches.fetch_add(1, Ordering::Relaxed);
        if n < 400 {
            let mut o = out.lock().unwrap();
            let cfgv = cfg.map(|k| json!({"ab": k.ab, "ae": k.ae, "sh": k.sh, "lp": k.lp, "ci": k.ci})).unwrap_or(Value::Null);
            writeln!(o, "{}", obs::ascii_json(&json!({"kind": kind, "c": c, "l": v["l"], "s": obs::chars_of(s), "cfg": cfgv,
                                                       "detail": detail}))).unwrap();
        }
    };
    let write_sample = |s: &str, cfg: Cfg| {
        let rec = obs::observe(Mode::Pc, &c, &l, cfg, s);
        st.sampled.fetch_add(1, Ordering::Relaxed);
        writeln!(sample.lock().unwrap(), "{}", obs::ascii_json(&rec)).unwrap();
    };

    // the abstract syntax tree and the literal fast path (configuration-independent)
    if !open {
        match catch(|| Ast::new(pc.iter().copied())) {
            Err(m) => mism("panic", "", None, json!({"where": "Ast::new", "msg": m})),
            Ok(ast) => {
                let mut ak = vec![];
                let mut ac = vec![];
                for a in &ast.atoms {
                    let (k, ch) = match a {
                        Atom::Char(ch) => ("c", ch.to_string()),
                        Atom::AnyChar => ("q", String::new()),
                        Atom::AnyString => ("s", String::new()),
                        Atom::Bracket(b) => (if b.complement { "n" } else { "b" }, String::new()),
                    };
                    ak.push(k.to_string());
                    ac.push(ch);
                }
                if ak != obs::strs(&v["ak"]) || ac != obs::strs(&v["ac"]) {
                    mism("ast", "", None, json!({"want": [v["ak"], v["ac"]], "got": [ak, ac]}));
                }
                let want_lit = v["lit"].as_bool().unwrap_or(false);
                let want_lv = obs::strs(&v["lv"]).concat();
                if ast.is_literal() != want_lit || ast.to_literal() != want_lit.then(|| want_lv.clone()) {
                    mism("ast-literal", "", None, json!({"want": [want_lit, want_lv], "got": [ast.is_literal(), ast.to_literal()]}));
                }
            }
        }
    }
    // rows: subject -> per configuration the allowed outcome codes
    let rows: HashMap<String, Vec<Vec<i64>>> = match v["t"].as_object() {
        None => HashMap::new(),
        Some(t) => t
            .iter()
            .map(|(k, row)| {
                let r: Vec<Vec<i64>> = row
                    .as_array()
                    .map(|a| a.iter().map(|alts| alts.as_array().map(|x| x.iter().filter_map(|y| y.as_i64()).collect()).unwrap_or_default()).collect())
                    .unwrap_or_default();
                (k.clone(), r)
            })
            .collect(),
    };
    if !rows.is_empty() {
        st.nontrivial_patterns.fetch_add(1, Ordering::Relaxed);
    }
    let none_only = vec![0i64];
    let mut counted_err = false;
    let mut counted_lit = false;
    for (k, cfg) in h.cfgs.iter().enumerate() {
        let compiled = catch(|| Pattern::parse_with_config(pc.iter().copied(), cfg.config()));
        let p = match compiled {
            Err(m) => {
                mism("panic", "", Some(*cfg), json!({"where": "parse_with_config", "msg": m}));
                continue;
            }
            Ok(Err(e)) => {
                let kind = error_kind(&e);
                if !counted_err {
                    counted_err = true;
                    st.error_patterns.fetch_add(1, Ordering::Relaxed);
                }
                if !(ek.iter().any(|x| x == "*") || ek.iter().any(|x| x == kind)) {
                    mism("error", "", Some(*cfg), json!({"want": ek, "got": kind, "msg": e.to_string()}));
                }
                // name carried by the error and the rest: judged by TLC on a sampled record
                if k == 0 {
                    write_sample(h.dom.first().map(|s| s.as_str()).unwrap_or(""), *cfg);
                }
                continue;
            }
            Ok(Ok(p)) => p,
        };
        if !(ek.iter().any(|x| x == "*") || ek.iter().any(|x| x.is_empty())) {
            mism("error", "", Some(*cfg), json!({"want": ek, "got": ""}));
        }
        if !open {
            let want_lit = v["lit"].as_bool().unwrap_or(false);
            let want_lv = obs::strs(&v["lv"]).concat();
            let got = p.as_literal().map(|s| s.to_string());
            if got.is_some() != want_lit || got.clone().unwrap_or_default() != want_lv {
                mism("as_literal", "", Some(*cfg), json!({"want": [want_lit, want_lv], "got": got}));
            }
            if want_lit && !counted_lit {
                counted_lit = true;
                st.literal_patterns.fetch_add(1, Ordering::Relaxed);
            }
        }
        for s in &h.dom {
            let n = st.cases.fetch_add(1, Ordering::Relaxed);
            let r = catch(|| (p.is_match(s), p.find(s), p.rfind(s)));
            let take_sample = every > 0 && n % every == 0;
            match r {
                Err(m) => {
                    mism("panic", s, Some(*cfg), json!({"msg": m}));
                    write_sample(s, *cfg);
                }
                Ok((m, f, rf)) => {
                    if open {
                        st.cases_open.fetch_add(1, Ordering::Relaxed);
                        // only the structural invariants apply: judged by TLC on a sample
                        if take_sample || n % 7 == 0 {
                            write_sample(s, *cfg);
                        }
                        continue;
                    }
                    let allowed: &Vec<i64> = rows.get(s).and_then(|r| r.get(k)).unwrap_or(&none_only);
                    if allowed.len() > 1 {
                        st.cases_multi.fetch_add(1, Ordering::Relaxed);
                    }
                    if f.is_some() {
                        st.cases_matching.fetch_add(1, Ordering::Relaxed);
                    }
                    let code = enc(s, &f, &rf);
                    let ok = match code {
                        None => false,
                        Some(code) => allowed.contains(&code) && m == f.is_some(),
                    };
                    if !ok {
                        let kind = if code.is_none() {
                            "boundary"
                        } else if m != f.is_some() {
                            "is_match"
                        } else {
                            "outcome"
                        };
                        mism(kind, s, Some(*cfg), json!({"allowed": allowed, "got": {"m": m, "code": code,
                              "find": f.map(|r| [r.start, r.end]), "rfind": rf.map(|r| [r.start, r.end])}}));
                        write_sample(s, *cfg);
                    } else if take_sample {
                        write_sample(s, *cfg);
                    }
                }
            }
        }
    }
}

pub fn run(args: &[String]) -> i32 {
    let inp = util::open_in(args);
    let out: Mutex<Box<dyn Write + Send>> = Mutex::new(Box::new(std::io::BufWriter::new(
        std::fs::File::create(util::opt(args, "--out").expect("--out")).expect("create --out"),
    )));
    let sample: Mutex<Box<dyn Write + Send>> = Mutex::new(Box::new(std::io::BufWriter::new(
        std::fs::File::create(util::opt(args, "--sample").expect("--sample")).expect("create --sample"),
    )));
    let threads = util::opt_usize(args, "--threads", 4).max(1);
    let every = util::opt_usize(args, "--every", 500) as u64;
    let mut header: Option<Header> = None;
    let mut lines: Vec<Value> = vec![];
    for line in inp.lines() {
        let line = line.unwrap();
        if line.trim().is_empty() {
            continue;
        }
        let v: Value = serde_json::from_str(&line).expect("json");
        if v.get("dom").is_some() {
            // integrity of the character transport: the folding table's characters carry their code points
            for w in v["wide"].as_array().cloned().unwrap_or_default() {
                let ch = w[0].as_str().unwrap_or("").chars().collect::<Vec<char>>();
                let cp: u32 = w[1].as_str().unwrap_or("0").parse().unwrap_or(0);
                if ch.len() != 1 || ch[0] as u32 != cp {
                    writeln!(out.lock().unwrap(), "{}", json!({"kind": "tool", "detail": format!("character transport broken: {w}")})).unwrap();
                    return 0;
                }
            }
            header = Some(Header {
                dom: obs::strs(&v["dom"]),
                cfgs: v["cfgs"].as_array().map(|a| a.iter().map(Cfg::from_json).collect()).unwrap_or_default(),
            });
        } else {
            lines.push(v);
        }
    }
    let Some(h) = header else {
        writeln!(out.lock().unwrap(), "{}", json!({"kind": "tool", "detail": "no header line"})).unwrap();
        return 0;
    };
    let st = Stats::default();
    let next = AtomicU64::new(0);
    std::thread::scope(|sc| {
        for _ in 0..threads {
            sc.spawn(|| {
                loop {
                    let i = next.fetch_add(1, Ordering::Relaxed) as usize;
                    if i >= lines.len() {
                        break;
                    }
                    one_pattern(&h, &lines[i], &st, every, &out, &sample);
                }
            });
        }
    });
    let g = |a: &AtomicU64| a.load(Ordering::Relaxed);
    writeln!(
        out.lock().unwrap(),
        "{}",
        json!({"stats": {"patterns": g(&st.patterns), "open_patterns": g(&st.open_patterns), "error_patterns": g(&st.error_patterns),
                          "literal_patterns": g(&st.literal_patterns), "nontrivial_patterns": g(&st.nontrivial_patterns),
                          "cases": g(&st.cases), "cases_open": g(&st.cases_open),
                          "cases_multi": g(&st.cases_multi), "cases_matching": g(&st.cases_matching),
                          "mismatches": g(&st.mismatches), "sampled": g(&st.sampled),
                          "domain": h.dom.len(), "configs": h.cfgs.len()}})
    )
    .unwrap();
    out.lock().unwrap().flush().unwrap();
    sample.lock().unwrap().flush().unwrap();
    0
}
