//! Conformance harness of the specification-growth module G19 (the
//! configuration flags and the literal fast path of yash-fnmatch), see
//! spec/FnmatchExt.tla.
//!
//! * `enum`   spec -> impl: every pattern line printed by TLC
//!            (Gen_FnmatchExt) is compiled by the real `yash_fnmatch` under
//!            every configuration of the header; `is_match` / `find` /
//!            `rfind`, `as_literal`, the atoms of `Ast::new` and the error of
//!            `parse_with_config` are compared with what TLC printed; a
//!            sample of full observations is written for Trace_FnmatchExt.
//! * `random` impl -> spec: seeded random (pattern, text, configuration)
//!            cases beyond the exhaustive bounds are executed on the real
//!            code and recorded for validation by spec/Trace_FnmatchExt.tla.
//! * `redo`   re-executes recorded cases (replay of a violation).
//! * `shell`  `case` and the four trims through the whole shell for the
//!            lines printed by TLC (Gen_FnmatchExt, Kind = "shell").
mod enumr;
mod obs;
mod random;
mod shell;

fn main() {
    let args: Vec<String> = std::env::args().collect();
    if args.len() < 2 {
        eprintln!("usage: yv-g19 <enum|random|redo|shell> ...");
        std::process::exit(2);
    }
    yvcommon::util::quiet_panics();
    let rest = &args[2..];
    let code = match args[1].as_str() {
        "enum" => enumr::run(rest),
        "random" => random::run(rest),
        "redo" => random::redo(rest),
        "shell" => shell::run(rest),
        other => {
            eprintln!("unknown subcommand {other}");
            2
        }
    };
    std::process::exit(code);
}
