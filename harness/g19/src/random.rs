//! impl -> spec: seeded random cases beyond the exhaustive bounds (longer
//! patterns and texts, all five flags, every character of the specification's
//! folding table, with_escape / without_escape), executed on the real code
//! and recorded for validation by spec/Trace_FnmatchExt.tla.
//! The generator only chooses inputs; it judges nothing.
use crate::obs::{self, Cfg, Mode};
use rand::rngs::StdRng;
use rand::{Rng, SeedableRng};
use serde_json::Value;
use std::io::{BufRead, Write};
use yvcommon::util;

const SPECIALS: &[char] = &[
    '\\', '.', '+', '*', '?', '(', ')', '|', '[', ']', '{', '}', '^', '$', '-', '&', '~', '#', '!', ':', '=', ',', '/',
    '<', '>', '"', '\'', '`', '%', '@', ';', '_', ' ', '\n', '\t',
];
const LETTERS: &[char] = &['a', 'b', 'c', 'z', 'A', 'B', 'Z', 'k', 'K', 's', 'S', 'i', 'I', 'm', 'M', 'f', 'x', '0', '1', '9'];
/// the characters of FnmatchExt!WideTable
const WIDE: &[char] = &[
    '\u{c4}', '\u{e4}', '\u{c9}', '\u{e9}', '\u{df}', '\u{1e9e}', '\u{17f}', '\u{212a}', '\u{212b}', '\u{c5}', '\u{e5}',
    '\u{3a3}', '\u{3c2}', '\u{3c3}', '\u{b5}', '\u{39c}', '\u{3bc}', '\u{42f}', '\u{44f}', '\u{1c4}', '\u{1c5}', '\u{1c6}',
    '\u{130}', '\u{131}', '\u{3042}', '\u{6f22}', '\u{301}', '\u{a0}', '\u{1f600}',
];
/// characters the specification does not list (case-insensitive cases with them are open)
const UNLISTED: &[char] = &['\u{f6}', '\u{d6}', '\u{1f0}', '\u{1f1e6}'];
const CLASSES: &[&str] = &[
    "alnum", "alpha", "blank", "cntrl", "digit", "graph", "lower", "print", "punct", "space", "upper", "xdigit",
];

fn pick<T: Copy>(r: &mut StdRng, a: &[T]) -> T {
    a[r.gen_range(0..a.len())]
}

fn any_char(r: &mut StdRng) -> char {
    match r.gen_range(0..20) {
        0..=8 => pick(r, LETTERS),
        9..=12 => pick(r, SPECIALS),
        13..=18 => pick(r, WIDE),
        _ => match r.gen_range(0..4) {
            0 => pick(r, UNLISTED),
            1 => {
                // any Unicode scalar value (1 to 4 bytes in UTF-8; cased or not)
                let cp = match r.gen_range(0..4) {
                    0 => r.gen_range(0x80..0x800),
                    1 => r.gen_range(0x800..0xd800),
                    2 => r.gen_range(0xe000..0x10000),
                    _ => r.gen_range(0x10000..0x110000),
                };
                char::from_u32(cp).unwrap_or('x')
            }
            _ => pick(r, LETTERS),
        },
    }
}

fn letter(r: &mut StdRng) -> char {
    if r.gen_bool(0.6) { pick(r, LETTERS) } else { pick(r, WIDE) }
}

/// some character with the same upper / lower case mapping (input choice only)
fn flip(r: &mut StdRng, c: char) -> char {
    let alts: Vec<char> = c.to_uppercase().chain(c.to_lowercase()).filter(|&d| d != c).collect();
    let special = match c {
        's' | 'S' => Some('\u{17f}'),
        'k' | 'K' => Some('\u{212a}'),
        '\u{e5}' | '\u{c5}' => Some('\u{212b}'),
        '\u{3c3}' | '\u{3a3}' => Some('\u{3c2}'),
        'i' => Some('\u{130}'),
        'I' => Some('\u{131}'),
        _ => None,
    };
    match (special, alts.len()) {
        (Some(s), _) if r.gen_bool(0.4) => s,
        (_, 1) => alts[0],
        _ => c,
    }
}

/// One piece of a pattern: its pattern characters (char, quoted) and a
/// sample of text that is likely (not certainly) matched by it.
struct Piece {
    pc: Vec<(char, bool)>,
    sample: Vec<char>,
}

fn bracket(r: &mut StdRng) -> Piece {
    let mut pc: Vec<(char, bool)> = vec![('[', false)];
    let mut members: Vec<char> = vec![];
    let neg = r.gen_range(0..3) == 0;
    if neg {
        pc.push((if r.gen_bool(0.6) { '!' } else { '^' }, false));
    }
    let n = r.gen_range(1..4);
    for i in 0..n {
        match r.gen_range(0..14) {
            0 if i == 0 => {
                pc.push((']', false));
                members.push(']');
            }
            1 if i == 0 || i == n - 1 => {
                pc.push(('-', false));
                members.push('-');
            }
            2..=4 => {
                // a range, usually ascending and inside ASCII
                let mut a = pick(r, LETTERS);
                let mut b = pick(r, LETTERS);
                if a > b && r.gen_range(0..12) != 0 {
                    std::mem::swap(&mut a, &mut b);
                }
                if r.gen_range(0..30) == 0 {
                    b = pick(r, WIDE);
                }
                pc.push((a, false));
                pc.push(('-', false));
                pc.push((b, false));
                members.push(a);
                members.push(b);
                if a < b {
                    if let Some(mid) = char::from_u32((a as u32 + b as u32) / 2) {
                        members.push(mid);
                    }
                }
            }
            5..=7 => {
                let name = match r.gen_range(0..16) {
                    0 => "foo",
                    1 => "",
                    _ => pick(r, CLASSES),
                };
                pc.extend([('[', false), (':', false)]);
                pc.extend(name.chars().map(|c| (c, false)));
                pc.extend([(':', false), (']', false)]);
                if r.gen_range(0..20) == 0 {
                    pc.extend([('-', false), ('z', false)]);
                }
                members.extend(['a', 'Z', '5', ' ', '.', 'f', '\u{17f}', '\u{212a}']);
            }
            8 => {
                // collating symbol / equivalence class
                let d = if r.gen_bool(0.5) { '.' } else { '=' };
                pc.extend([('[', false), (d, false)]);
                if r.gen_range(0..8) != 0 {
                    let c = any_char(r);
                    pc.push((c, false));
                    members.push(c);
                    if r.gen_range(0..8) == 0 {
                        pc.push((any_char(r), false));
                    }
                }
                pc.extend([(d, false), (']', false)]);
            }
            9 => {
                members.push('.');
                pc.push(('.', false));
            }
            _ => {
                let c = any_char(r);
                let q = matches!(c, ']') || r.gen_range(0..6) == 0;
                pc.push((c, q));
                members.push(c);
            }
        }
    }
    if r.gen_range(0..25) != 0 {
        pc.push((']', false));
    }
    let sample = if neg || members.is_empty() || r.gen_range(0..5) == 0 {
        vec![any_char(r)]
    } else {
        vec![pick(r, &members)]
    };
    Piece { pc, sample }
}

fn piece(r: &mut StdRng, literal_only: bool) -> Piece {
    let k = if literal_only { r.gen_range(12..20) } else { r.gen_range(0..20) };
    match k {
        0..=3 => {
            let n = r.gen_range(0..3);
            Piece { pc: vec![('*', false)], sample: (0..n).map(|_| any_char(r)).collect() }
        }
        4..=5 => Piece { pc: vec![('?', false)], sample: vec![any_char(r)] },
        6..=10 => bracket(r),
        11 | 12 => {
            // a quoted special character
            let c = pick(r, &['*', '?', '[', ']', '\\', '.', '+', '(', '$']);
            Piece { pc: vec![(c, true)], sample: vec![c] }
        }
        13 => Piece { pc: vec![('.', false)], sample: vec!['.'] },
        14 | 15 => {
            let c = pick(r, SPECIALS);
            let unq_special = matches!(c, '*' | '?' | '[');
            Piece { pc: vec![(c, literal_only && unq_special || r.gen_range(0..8) == 0 && c != '\n')], sample: vec![c] }
        }
        _ => {
            let c = letter(r);
            Piece { pc: vec![(c, r.gen_range(0..8) == 0)], sample: vec![c] }
        }
    }
}

pub struct Case {
    pub mode: Mode,
    pub c: Vec<String>,
    pub l: Vec<bool>,
    pub s: String,
    pub cfg: Cfg,
}

fn gen_case(r: &mut StdRng) -> Case {
    let cfg = Cfg {
        ab: r.gen_bool(0.45),
        ae: r.gen_bool(0.45),
        sh: r.gen_bool(0.4),
        lp: r.gen_bool(0.45),
        ci: r.gen_bool(0.55),
    };
    let literal_only = r.gen_range(0..6) == 0;
    let n = if r.gen_range(0..12) == 0 { 0 } else { r.gen_range(1..6) };
    let pieces: Vec<Piece> = (0..n).map(|_| piece(r, literal_only)).collect();
    let mut pcs: Vec<(char, bool)> = pieces.iter().flat_map(|p| p.pc.iter().copied()).collect();
    pcs.truncate(30);
    // the text
    let mut s: Vec<char> = if r.gen_range(0..10) < 7 {
        pieces.iter().flat_map(|p| p.sample.iter().copied()).collect()
    } else {
        let n = r.gen_range(0..6);
        (0..n)
            .map(|_| if !pcs.is_empty() && r.gen_bool(0.5) { pcs[r.gen_range(0..pcs.len())].0 } else { any_char(r) })
            .collect()
    };
    if cfg.ci || r.gen_range(0..4) == 0 {
        for i in 0..s.len() {
            if r.gen_bool(0.4) {
                s[i] = flip(r, s[i]);
            }
        }
    }
    if r.gen_range(0..5) == 0 && !s.is_empty() {
        let i = r.gen_range(0..s.len());
        match r.gen_range(0..3) {
            0 => {
                s.remove(i);
            }
            1 => s[i] = any_char(r),
            _ => s.insert(i, any_char(r)),
        }
    }
    if !cfg.ab && r.gen_bool(0.6) {
        for _ in 0..r.gen_range(0..3) {
            let c = any_char(r);
            s.insert(0, c);
        }
    }
    if !cfg.ae && r.gen_bool(0.6) {
        for _ in 0..r.gen_range(0..3) {
            s.push(any_char(r));
        }
    }
    if cfg.lp && r.gen_bool(0.6) {
        if r.gen_bool(0.3) && !s.is_empty() {
            s[0] = '.';
        } else {
            s.insert(0, '.');
        }
    }
    s.truncate(8);
    // how the pattern reaches the parser
    let has_normal_backslash = pcs.iter().any(|&(c, q)| c == '\\' && !q);
    let has_quoted = pcs.iter().any(|&(_, q)| q);
    let mode = match r.gen_range(0..10) {
        0..=2 if !has_normal_backslash => Mode::Esc,
        3 if !has_quoted => Mode::Raw,
        4 => Mode::Esc, // the characters as a text with arbitrary backslashes (a trailing one included)
        _ => Mode::Pc,
    };
    let (c, l): (Vec<String>, Vec<bool>) = match mode {
        Mode::Pc => (pcs.iter().map(|p| p.0.to_string()).collect(), pcs.iter().map(|p| p.1).collect()),
        Mode::Raw => (pcs.iter().map(|p| p.0.to_string()).collect(), vec![]),
        Mode::Esc => {
            let mut t: Vec<String> = vec![];
            for &(ch, q) in &pcs {
                if q {
                    t.push("\\".into());
                }
                t.push(ch.to_string());
            }
            if r.gen_range(0..12) == 0 {
                t.push("\\".into());
            }
            (t, vec![])
        }
    };
    Case { mode, c, l, s: s.into_iter().collect(), cfg }
}

pub fn execute(case: &Case) -> Value {
    obs::observe(case.mode, &case.c, &case.l, case.cfg, &case.s)
}

pub fn run(args: &[String]) -> i32 {
    let n = util::opt_usize(args, "--n", 1000);
    let mut r = StdRng::seed_from_u64(util::seed().wrapping_mul(0x9e37_79b9_7f4a_7c15) ^ 0x619);
    let mut w = util::open_out(args);
    for _ in 0..n {
        let case = gen_case(&mut r);
        writeln!(w, "{}", obs::ascii_json(&execute(&case))).unwrap();
    }
    0
}

/// Re-executes recorded cases (only the inputs of each record are used).
pub fn redo(args: &[String]) -> i32 {
    let inp = util::open_in(args);
    let mut w = util::open_out(args);
    for line in inp.lines() {
        let line = line.unwrap();
        if line.trim().is_empty() {
            continue;
        }
        let v: Value = serde_json::from_str(&line).expect("json");
        let case = Case {
            mode: Mode::from_name(v["mode"].as_str().unwrap_or("pc")),
            c: obs::strs(&v["c"]),
            l: obs::flags(&v["l"]),
            s: obs::strs(&v["s"]).concat(),
            cfg: Cfg::from_json(&v),
        };
        writeln!(w, "{}", obs::ascii_json(&execute(&case))).unwrap();
    }
    0
}
