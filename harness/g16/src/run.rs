//! Running one scenario on the REAL shell over the simulated OS, with the
//! harness as scheduler and as terminal driver, and recording what
//! spec/Trace_ProcGroups.tla judges: after every scheduling step the process
//! table (process group, state, dispositions of the job-control signals,
//! standard input) and the terminal's foreground process group, plus the
//! probes run from inside the commands.
use crate::scen::{Scn, argv, render};
use crate::sched::{Outcome, Schedule, Scheduler};
use serde_json::{Value, json};
use std::cell::RefCell;
use std::collections::BTreeMap;
use std::ops::ControlFlow::{Break, Continue};
use std::pin::Pin;
use std::rc::Rc;
use yash_cli::startup::args::Parse;
use yash_env::Env;
use yash_env::builtin::{Builtin, Result as BResult, Type};
use yash_env::io::Fd;
use yash_env::job::{Pid, ProcessResult, ProcessState};
use yash_env::option::Option::Interactive;
use yash_env::option::State::On;
use yash_env::semantics::{Divert, ExitStatus, Field};
use yash_env::system::r#virtual::{self as vs, FileBody, Inode, Process, SystemState, VirtualSystem};
use yash_env::system::{Concurrent, Disposition, GetPid as _, Mode};
use crate::kern::{self, K};
use yvcommon::shell::{EVENTS, push_event, register_generic_probes};

pub type Sys = Rc<Concurrent<K>>;
pub type VEnv = Env<Sys>;

pub const STEP_LIMIT: usize = 20_000;
pub const MAIN_PID: i32 = 2;

pub const SIG5: [(&str, yash_env::signal::Number); 5] =
    [("TSTP", vs::SIGTSTP), ("TTIN", vs::SIGTTIN), ("TTOU", vs::SIGTTOU), ("INT", vs::SIGINT), ("QUIT", vs::SIGQUIT)];

pub const SIGS: [(&str, yash_env::signal::Number); 12] = [
    ("HUP", vs::SIGHUP),
    ("INT", vs::SIGINT),
    ("QUIT", vs::SIGQUIT),
    ("KILL", vs::SIGKILL),
    ("TERM", vs::SIGTERM),
    ("STOP", vs::SIGSTOP),
    ("TSTP", vs::SIGTSTP),
    ("CONT", vs::SIGCONT),
    ("TTIN", vs::SIGTTIN),
    ("TTOU", vs::SIGTTOU),
    ("USR1", vs::SIGUSR1),
    ("CHLD", vs::SIGCHLD),
];

pub fn sig_name(raw: i32) -> String {
    SIGS.iter().find(|(_, n)| n.as_raw() == raw).map(|(s, _)| s.to_string()).unwrap_or_else(|| format!("#{raw}"))
}

pub fn sig_number(name: &str) -> Option<yash_env::signal::Number> {
    SIGS.iter().find(|(s, _)| *s == name).map(|(_, n)| *n)
}

/// An exit status as the specification writes it: the number, or `sig:NAME`
/// for the values above 128 that stand for a signal (128 + n of POSIX and the
/// 384 + n of this shell; exit_status.md).
pub fn status_class(v: i32) -> String {
    if v >= 384 {
        format!("sig:{}", sig_name(v - 384))
    } else if v > 128 && v < 256 {
        format!("sig:{}", sig_name(v - 128))
    } else {
        v.to_string()
    }
}

use crate::kern::STATE;
thread_local! {
    /// identity of the inode of /dev/null
    static NULL_INODE: RefCell<usize> = const { RefCell::new(0) };
}

// ---------------------------------------------------------------------------
// names
// ---------------------------------------------------------------------------

/// Name of a process: `s` for the shell, `<parent>.<k>` for the k-th child
/// its parent forked.
pub fn names(st: &SystemState) -> BTreeMap<i32, String> {
    let mut out: BTreeMap<i32, String> = BTreeMap::new();
    let mut nk: BTreeMap<i32, usize> = BTreeMap::new();
    // process IDs grow in fork order, and a parent is older than its children
    for (pid, p) in &st.processes {
        if pid.0 == MAIN_PID {
            out.insert(pid.0, "s".to_string());
            continue;
        }
        let pp = p.ppid().0;
        let k = nk.entry(pp).or_insert(0);
        *k += 1;
        let pn = out.get(&pp).cloned().unwrap_or_else(|| format!("?{pp}"));
        out.insert(pid.0, format!("{pn}.{k}"));
    }
    out
}

pub fn group_name(nm: &BTreeMap<i32, String>, pgid: i32, outer: i32) -> String {
    if let Some(n) = nm.get(&pgid) {
        n.clone()
    } else if pgid == outer {
        "outer".to_string()
    } else {
        "other".to_string()
    }
}

fn disp_char(d: Disposition) -> &'static str {
    match d {
        Disposition::Default => "D",
        Disposition::Ignore => "I",
        Disposition::Catch => "C",
    }
}

fn stdin_kind(p: &Process) -> &'static str {
    match p.fds().get(&Fd::STDIN) {
        None => "c",
        Some(body) => {
            let ofd = body.open_file_description.borrow();
            let id = Rc::as_ptr(ofd.inode()) as usize;
            if id == NULL_INODE.with(|n| *n.borrow()) { "n" } else { "o" }
        }
    }
}

fn proc_json(nm: &BTreeMap<i32, String>, pid: i32, p: &Process, outer: i32) -> Value {
    let (st, ss, ex) = match p.state() {
        ProcessState::Running => ("R", String::new(), String::new()),
        ProcessState::Halted(ProcessResult::Stopped(s)) => ("S", sig_name(s.as_raw()), String::new()),
        ProcessState::Halted(ProcessResult::Exited(e)) => ("Z", String::new(), status_class(e.0)),
        ProcessState::Halted(ProcessResult::Signaled { signal, .. }) => ("Z", String::new(), format!("sig:{}", sig_name(signal.as_raw()))),
    };
    // the descriptors of a terminated process are closed
    let inp = if st == "Z" { "-" } else { stdin_kind(p) };
    // a terminated process has no dispositions
    let dp: Vec<&str> = if st == "Z" { vec![] } else { SIG5.iter().map(|(_, n)| disp_char(p.disposition(*n))).collect() };
    json!({"n": nm.get(&pid).cloned().unwrap_or_default(),
           "par": nm.get(&p.ppid().0).cloned().unwrap_or_else(|| "-".to_string()),
           "pg": group_name(nm, p.pgid().0, outer), "st": st, "ss": ss, "ex": ex, "dp": dp, "in": inp})
}

/// The system calls of the job-control protocol logged since the last
/// observation, with names for process and group IDs.
fn take_calls(state: &Rc<RefCell<SystemState>>, outer: i32) -> Vec<Value> {
    let raw = kern::CALLS.with(|c| std::mem::take(&mut *c.borrow_mut()));
    if raw.is_empty() {
        return raw;
    }
    let st = state.borrow();
    let nm = names(&st);
    let name = |v: &Value| nm.get(&(v.as_i64().unwrap_or(-1) as i32)).cloned().unwrap_or_else(|| "?".into());
    raw.iter()
        .map(|c| {
            let by = name(&c["by"]);
            match c["c"].as_str().unwrap_or("") {
                "setpgid" => json!({"c": "setpgid", "by": by, "t": name(&c["t"]), "g": group_name(&nm, c["g"].as_i64().unwrap_or(0) as i32, outer),
                                    "sig": "", "k": "", "blk": false, "ign": false}),
                "tcset" => json!({"c": "tcset", "by": by, "t": "", "g": group_name(&nm, c["g"].as_i64().unwrap_or(0) as i32, outer),
                                  "sig": "", "k": "", "blk": c["blk"], "ign": c["ign"]}),
                _ => {
                    let t = c["t"].as_i64().unwrap_or(0) as i32;
                    let (k, tn) = if t < 0 { ("grp", group_name(&nm, -t, outer)) } else { ("pid", nm.get(&t).cloned().unwrap_or_else(|| "?".into())) };
                    json!({"c": "kill", "by": by, "t": tn, "g": "", "sig": c["sig"], "k": k, "blk": false, "ign": false})
                }
            }
        })
        .collect()
}

/// The observable state of the simulated kernel.
pub fn snapshot(state: &Rc<RefCell<SystemState>>, outer: i32) -> Value {
    let st = state.borrow();
    let nm = names(&st);
    let ps: Vec<Value> = st.processes.iter().map(|(pid, p)| proc_json(&nm, pid.0, p, outer)).collect();
    let fg = match st.foreground {
        None => "none".to_string(),
        Some(g) => group_name(&nm, g.0, outer),
    };
    json!({"fg": fg, "ps": ps})
}

// ---------------------------------------------------------------------------
// built-ins of the scenarios
// ---------------------------------------------------------------------------

/// `pg TAG`: records, from inside the command, who runs it, its process group,
/// the terminal's foreground group, the dispositions of the job-control
/// signals, what standard input is, `$?`, `$!` and the jobs the environment
/// owns.  Exit status 0.
fn pg_main(env: &mut VEnv, args: Vec<Field>) -> Pin<Box<dyn Future<Output = BResult> + '_>> {
    Box::pin(async move {
        let tag = args.first().map(|f| f.value.clone()).unwrap_or_default();
        let pid = env.system.getpid().0;
        let state = STATE.with(|s| s.borrow().clone());
        if let Some(state) = state {
            let st = state.borrow();
            let nm = names(&st);
            let outer = OUTER.with(|o| *o.borrow());
            let p = &st.processes[&Pid(pid)];
            let fg = match st.foreground {
                None => "none".to_string(),
                Some(g) => group_name(&nm, g.0, outer),
            };
            let mut jobs = vec![];
            for (_idx, job) in env.jobs.iter() {
                if !job.is_owned {
                    continue;
                }
                let js = match job.state {
                    ProcessState::Running => "R",
                    ProcessState::Halted(ProcessResult::Stopped(_)) => "S",
                    ProcessState::Halted(_) => "D",
                };
                jobs.push(json!({"ld": nm.get(&job.pid.0).cloned().unwrap_or_else(|| "?".into()), "st": js, "jc": job.job_controlled}));
            }
            let bang = env.jobs.last_async_pid();
            let bang = if bang.0 == 0 { String::new() } else { nm.get(&bang.0).cloned().unwrap_or_else(|| "?".into()) };
            let dp: Vec<&str> = SIG5.iter().map(|(_, n)| disp_char(p.disposition(*n))).collect();
            let ev = json!({"ev": "pg", "tag": tag, "who": nm.get(&pid).cloned().unwrap_or_default(),
                            "pg": group_name(&nm, p.pgid().0, outer), "tc": fg, "dp": dp, "in": stdin_kind(p),
                            "st": status_class(env.exit_status.0), "jobs": jobs, "bang": bang,
                            "cj": env.controls_jobs()});
            drop(st);
            push_event(ev);
        }
        BResult::new(ExitStatus(0))
    })
}

thread_local! {
    static OUTER: RefCell<i32> = const { RefCell::new(1) };
}

/// `pause`: blocks until the process is killed (sleeps on the virtual clock,
/// which the scheduler of this harness never advances).
fn pause_main(env: &mut VEnv, _args: Vec<Field>) -> Pin<Box<dyn Future<Output = BResult> + '_>> {
    Box::pin(async move {
        use yash_env::system::concurrency::Sleep as _;
        env.system.sleep(std::time::Duration::from_secs(1_000_000_000)).await;
        BResult::new(ExitStatus(98))
    })
}

/// `stopme SIG`: the calling process sends SIG to itself.
fn stopme_main(env: &mut VEnv, args: Vec<Field>) -> Pin<Box<dyn Future<Output = BResult> + '_>> {
    Box::pin(async move {
        use yash_env::system::SendSignal as _;
        let name = args.first().map(|f| f.value.clone()).unwrap_or_default();
        let Some(sig) = sig_number(&name) else { return BResult::new(ExitStatus(97)) };
        let me = env.system.getpid();
        let _ = env.system.kill(me, Some(sig)).await;
        BResult::new(ExitStatus(0))
    })
}

// ---------------------------------------------------------------------------
// the runner
// ---------------------------------------------------------------------------

async fn session_body(env: &mut VEnv, source: &yash_cli::startup::args::Source, is_interactive: bool) -> i32 {
    let ref_env = RefCell::new(env);
    let lexer = match yash_cli::startup::input::prepare_input(&ref_env, source).await {
        Ok(lexer) => lexer,
        Err(_) => {
            let mut env = ref_env.borrow_mut();
            env.exit_status = ExitStatus::NOT_FOUND;
            return env.exit_status.0;
        }
    };
    let result = if is_interactive {
        yash_semantics::interactive_read_eval_loop(&ref_env, &mut { lexer }).await
    } else {
        yash_semantics::read_eval_loop(&ref_env, &mut { lexer }).await
    };
    let env = ref_env.into_inner();
    env.apply_result(result);
    match result {
        Continue(())
        | Break(Divert::Continue { .. })
        | Break(Divert::Break { .. })
        | Break(Divert::Return(_))
        | Break(Divert::Interrupt(_))
        | Break(Divert::Exit(_)) => yash_semantics::trap::run_exit_trap(env).await,
        Break(Divert::Abort(_)) => (),
    }
    env.exit_status.0
}

fn save(state: &Rc<RefCell<SystemState>>, path: &str, inode: Inode) -> Rc<RefCell<Inode>> {
    let rc = Rc::new(RefCell::new(inode));
    state.borrow_mut().file_system.save(path, Rc::clone(&rc)).unwrap();
    rc
}

pub struct RunOut {
    /// the record judged by Trace_ProcGroups (without schedule information)
    pub record: Value,
    pub choices: Vec<(usize, usize)>,
    pub stderr: String,
    pub text: String,
}

pub fn run_scn(scn: &Scn, schedule: Schedule, child_first: bool) -> RunOut {
    EVENTS.with(|e| e.borrow_mut().clear());
    let system = VirtualSystem::new();
    let state = Rc::clone(&system.state);
    let sched = Rc::new(Scheduler::new(schedule, STEP_LIMIT));
    state.borrow_mut().executor = Some(Rc::clone(&sched) as Rc<dyn yash_env::system::r#virtual::Executor>);
    state.borrow_mut().now = Some(std::time::Instant::now());
    for d in ["/bin", "/home"] {
        save(&state, d, Inode { body: FileBody::Directory { files: Default::default() }, permissions: Mode::from_bits_truncate(0o755) });
    }
    for (name, b) in yash_builtin::iter::<Sys>() {
        if b.r#type == Type::Substitutive {
            let mut inode = Inode::new(Vec::<u8>::new());
            inode.permissions = Mode::from_bits_truncate(0o755);
            if let FileBody::Regular { is_native_executable, .. } = &mut inode.body {
                *is_native_executable = true;
            }
            save(&state, &format!("/bin/{name}"), inode);
        }
    }
    // the controlling terminal and the null device
    save(&state, "/dev/tty", Inode::new([]));
    let null = save(&state, "/dev/null", Inode::new([]));
    NULL_INODE.with(|n| *n.borrow_mut() = Rc::as_ptr(&null) as usize);
    let text = render(scn);
    {
        let st = state.borrow();
        let inode = st.file_system.get("/dev/stdin").unwrap();
        inode.borrow_mut().body = FileBody::new(text.as_bytes().to_vec());
    }
    // the shell's process group and the terminal's foreground group at start
    let main_pid = system.process_id;
    let outer = 1;
    if scn.spg == "own" {
        let mut st = state.borrow_mut();
        let old = st.processes.remove(&main_pid).unwrap();
        let mut new = Process::with_parent_and_group(Pid(1), main_pid);
        for (fd, body) in old.fds() {
            let _ = new.set_fd(*fd, body.clone());
        }
        st.processes.insert(main_pid, new);
    }
    OUTER.with(|o| *o.borrow_mut() = outer);
    {
        let mut st = state.borrow_mut();
        let shell_pg = st.processes[&main_pid].pgid();
        st.foreground = Some(if scn.fg0 == "shell" { shell_pg } else { Pid(77) });
    }
    STATE.with(|s| *s.borrow_mut() = Some(Rc::clone(&state)));

    let run = match yash_cli::startup::args::parse(argv(scn).into_iter()) {
        Ok(Parse::Run(run)) => run,
        other => {
            return RunOut { record: json!({"scn": scn.to_json(), "ev": [], "outcome": "argv", "msg": format!("{other:?}")}),
                            choices: vec![], stderr: String::new(), text };
        }
    };
    kern::CFG.with(|c| {
        *c.borrow_mut() = kern::KernCfg { enforce: scn.enf, session_leader_group: scn.sl, child_first };
    });
    kern::CALLS.with(|c| c.borrow_mut().clear());
    kern::set_main_pgid(state.borrow().processes[&main_pid].pgid().0);
    let main_vs = system.clone();
    let sys: Sys = Rc::new(Concurrent::new(K::new(system)));
    let mut env = Env::with_system(Rc::clone(&sys));
    env.variables.extend_env([("PATH".to_string(), "/bin".to_string())]);
    let sys2 = Rc::clone(&sys);
    let exit_status = Rc::new(std::cell::Cell::new(-1));
    let es2 = Rc::clone(&exit_status);
    let main_task = async move {
        let body = async move {
            let env = &mut env;
            let work = yash_cli::startup::configure_environment(env, run).await;
            register_generic_probes(env);
            env.builtins.insert("pg", Builtin::new(Type::Mandatory, pg_main));
            env.builtins.insert("pause", Builtin::new(Type::Mandatory, pause_main));
            env.builtins.insert("stopme", Builtin::new(Type::Mandatory, stopme_main));
            let is_interactive = env.options.get(Interactive) == On;
            es2.set(session_body(env, &work.source, is_interactive).await);
        };
        kern::run_loop_for(main_vs, &sys2, body).await;
    };

    // observation after every scheduling step
    let steps: Rc<RefCell<Vec<Value>>> = Rc::new(RefCell::new(vec![]));
    let last: Rc<RefCell<Value>> = Rc::new(RefCell::new(Value::Null));
    {
        let st = Rc::clone(&state);
        let steps = Rc::clone(&steps);
        let last = Rc::clone(&last);
        *sched.observer.borrow_mut() = Some(Box::new(move |task| {
            let sn = snapshot(&st, outer);
            let pr: Vec<Value> = EVENTS.with(|e| std::mem::take(&mut *e.borrow_mut())).into_iter().filter(|e| e["ev"] == "pg").collect();
            let calls = take_calls(&st, outer);
            if pr.is_empty() && calls.is_empty() && *last.borrow() == sn {
                return;
            }
            let who = {
                let s = st.borrow();
                names(&s).get(&(MAIN_PID + task as i32)).cloned().unwrap_or_else(|| format!("?task{task}"))
            };
            *last.borrow_mut() = sn.clone();
            steps.borrow_mut().push(json!({"w": who, "sig": "", "pr": pr, "calls": calls, "sn": sn}));
        }));
    }
    // the terminal driver: at every idle point the next signal of the scenario
    // goes to the foreground process group
    {
        let st = Rc::clone(&state);
        let steps = Rc::clone(&steps);
        let last = Rc::clone(&last);
        let mut pending: std::collections::VecDeque<String> = scn.env.iter().cloned().collect();
        *sched.idle.borrow_mut() = Some(Box::new(move || {
            // whoever started the shell brings a stopped shell back to the foreground
            let shell_stopped = matches!(st.borrow().processes.get(&Pid(MAIN_PID)).map(|p| p.state()),
                                         Some(ProcessState::Halted(ProcessResult::Stopped(_))));
            if shell_stopped {
                use futures_util::FutureExt as _;
                use yash_env::system::SendSignal as _;
                let pg = st.borrow().processes[&Pid(MAIN_PID)].pgid();
                st.borrow_mut().foreground = Some(pg);
                let driver = VirtualSystem { state: Rc::clone(&st), process_id: Pid(1) };
                let _ = driver.kill(Pid(-pg.0), Some(vs::SIGCONT)).now_or_never();
                let sn = snapshot(&st, outer);
                *last.borrow_mut() = sn.clone();
                steps.borrow_mut().push(json!({"w": "outer", "sig": "", "pr": [], "calls": [], "sn": sn}));
                return true;
            }
            let Some(sig) = pending.pop_front() else { return false };
            let Some(num) = sig_number(&sig) else { return false };
            let fg = st.borrow().foreground;
            if let Some(fg) = fg {
                use futures_util::FutureExt as _;
                use yash_env::system::SendSignal as _;
                let driver = VirtualSystem { state: Rc::clone(&st), process_id: Pid(1) };
                let _ = driver.kill(Pid(-fg.0), Some(num)).now_or_never();
            }
            let sn = snapshot(&st, outer);
            *last.borrow_mut() = sn.clone();
            steps.borrow_mut().push(json!({"w": "env", "sig": sig, "pr": [], "calls": [], "sn": sn}));
            true
        }));
    }
    {
        let sc = Rc::clone(&sched);
        kern::CHILD_FIRST_HOOK.with(|h| {
            *h.borrow_mut() = Some(Rc::new(move || {
                sc.flush_current();
                sc.poll_newest();
            }))
        });
    }
    let outcome = sched.run_main(Box::pin(main_task), &state);
    kern::CHILD_FIRST_HOOK.with(|h| *h.borrow_mut() = None);
    *sched.observer.borrow_mut() = None;
    *sched.idle.borrow_mut() = None;

    let stderr = {
        let st = state.borrow();
        match st.file_system.get("/dev/stderr") {
            Ok(inode) => match &inode.borrow().body {
                FileBody::Regular { content, .. } => String::from_utf8_lossy(content).into_owned(),
                _ => String::new(),
            },
            Err(_) => String::new(),
        }
    };
    let mut fin = snapshot(&state, outer);
    // The runner does not make the shell process exit at the end of its input:
    // the final table shows it as terminated with the status it would exit with.
    if outcome == Outcome::Completed && exit_status.get() >= 0 {
        if let Some(ps) = fin["ps"].as_array_mut() {
            for p in ps.iter_mut() {
                if p["n"] == "s" && p["st"] == "R" {
                    p["st"] = json!("Z");
                    p["ex"] = json!(status_class(exit_status.get()));
                    p["in"] = json!("-");
                }
            }
        }
    }
    STATE.with(|s| *s.borrow_mut() = None);
    let executor = state.borrow_mut().executor.take();
    drop(executor);
    let (oc, msg) = match &outcome {
        Outcome::Completed => ("completed", String::new()),
        Outcome::Deadlock => ("deadlock", String::new()),
        Outcome::StepLimit => ("steplimit", String::new()),
        Outcome::Panic(m) => ("panic", m.clone()),
    };
    let ev = steps.borrow().clone();
    // the end summary compared with the catalogue of spec/Gen_ProcGroups.tla
    let mut probes = serde_json::Map::new();
    let mut dup = false;
    for e in &ev {
        for p in e["pr"].as_array().map(|a| a.as_slice()).unwrap_or(&[]) {
            let mut q = p.clone();
            if let Some(o) = q.as_object_mut() {
                o.remove("ev");
            }
            if probes.insert(p["tag"].as_str().unwrap_or("").to_string(), q).is_some() {
                dup = true;
            }
        }
    }
    let record = json!({"scn": scn.to_json(), "cf": child_first, "ev": ev, "outcome": oc, "msg": msg, "dup": dup,
                        "end": {"probes": probes, "fin": fin}});
    RunOut { record, choices: sched.choices(), stderr, text }
}
