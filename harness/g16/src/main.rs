//! yv-g16: conformance harness of the specification-growth module G16
//! (process groups and the controlling terminal under job control,
//! spec/ProcGroups.tla).
//!
//!   yv-g16 run --scn JSON [--prefix a,b,c] [--text] [--debug]
//!   yv-g16 explore --in gen.ndjson --out trace.ndjson [--threads N] [--dfs-depth D] [--max-dfs K] [--random R]
//!   yv-g16 random --n N --out trace.ndjson [--threads N]
//!   yv-g16 calls --in cases.ndjson --out trace.ndjson
mod calls;
mod explore;
mod kern;
mod kern_delegates;
mod run;
mod scen;
mod sched;

fn main() {
    yvcommon::real::maybe_child_main();
    let args: Vec<String> = std::env::args().skip(1).collect();
    let code = match args.first().map(|s| s.as_str()) {
        Some("run") => explore::one(&args[1..]),
        Some("explore") => explore::explore(&args[1..]),
        Some("random") => explore::random(&args[1..]),
        Some("calls") => calls::main(&args[1..]),
        _ => {
            eprintln!("usage: yv-g16 run|explore|random|calls ...");
            2
        }
    };
    std::process::exit(code);
}
