//! Delegation of the system interface of `K` (see kern.rs) to the wrapped
//! `VirtualSystem`: generated from yash-env/src/system/concurrency/delegates.rs
//! (the same list of traits `Concurrent<S>` forwards to its inner system).
#![allow(clippy::all)]
use crate::kern::K;
use enumset::EnumSet;
use std::convert::Infallible;
use std::ffi::{CStr, CString};
use std::io::SeekFrom;
use std::ops::RangeInclusive;
use std::time::Instant;
use yash_env::io::Fd;
use yash_env::job::{Pid, ProcessState};
use yash_env::path::PathBuf;
use yash_env::semantics::ExitStatus;
use yash_env::str::UnixString;
use yash_env::system::c_string::IntoCStrArray;
use yash_env::system::resource::{GetRlimit, LimitPair, Resource, SetRlimit};
use yash_env::system::r#virtual::VirtualSystem;
use yash_env::system::{
    Chdir, Clock, Close, CpuTimes, Dir, Dup, Exec, Exit, Fcntl, FdFlag, Fstat, GetCwd, GetPw, GetUid, Gid,
    IsExecutableFile, Isatty, Mode, OfdAccess, Open, OpenFlag, Pipe, Result, Seek, ShellPath, Signals, Sysconf,
    TcGetPgrp, Times, Uid, Umask, Wait,
};
use yash_env::signal;

impl Fstat for K {
    type Stat = <VirtualSystem as Fstat>::Stat;

    #[inline]
    fn fstat(&self, fd: Fd) -> Result<Self::Stat> {
        self.inner.fstat(fd)
    }
    #[inline]
    fn fstatat(&self, dir_fd: Fd, path: &CStr, follow_symlinks: bool) -> Result<Self::Stat> {
        self.inner.fstatat(dir_fd, path, follow_symlinks)
    }
    #[inline]
    fn is_directory(&self, path: &CStr) -> bool {
        self.inner.is_directory(path)
    }
    #[inline]
    fn fd_is_pipe(&self, fd: Fd) -> bool {
        self.inner.fd_is_pipe(fd)
    }
}

impl IsExecutableFile for K {
    #[inline]
    fn is_executable_file(&self, path: &CStr) -> bool {
        self.inner.is_executable_file(path)
    }
}

impl Pipe for K {
    #[inline]
    fn pipe(&self) -> Result<(Fd, Fd)> {
        self.inner.pipe()
    }
}

impl Dup for K {
    #[inline]
    fn dup(&self, from: Fd, to_min: Fd, flags: EnumSet<FdFlag>) -> Result<Fd> {
        self.inner.dup(from, to_min, flags)
    }

    #[inline]
    fn dup2(&self, from: Fd, to: Fd) -> Result<Fd> {
        self.inner.dup2(from, to)
    }
}

impl Open for K {
    #[inline]
    fn open(
        &self,
        path: &CStr,
        access: OfdAccess,
        flags: EnumSet<OpenFlag>,
        mode: Mode,
    ) -> impl Future<Output = Result<Fd>> + use<> {
        self.inner.open(path, access, flags, mode)
    }

    #[inline]
    fn open_tmpfile(&self, parent_dir: &yash_env::path::Path) -> Result<Fd> {
        self.inner.open_tmpfile(parent_dir)
    }

    #[inline]
    fn fdopendir(&self, fd: Fd) -> Result<impl Dir + use<>> {
        self.inner.fdopendir(fd)
    }

    #[inline]
    fn opendir(&self, path: &CStr) -> Result<impl Dir + use<>> {
        self.inner.opendir(path)
    }
}

impl Close for K {
    #[inline]
    fn close(&self, fd: Fd) -> Result<()> {
        self.inner.close(fd)
    }
}

impl Fcntl for K {
    #[inline]
    fn ofd_access(&self, fd: Fd) -> Result<OfdAccess> {
        self.inner.ofd_access(fd)
    }

    #[inline]
    fn get_and_set_nonblocking(&self, fd: Fd, nonblocking: bool) -> Result<bool> {
        self.inner.get_and_set_nonblocking(fd, nonblocking)
    }

    #[inline]
    fn fcntl_getfd(&self, fd: Fd) -> Result<EnumSet<FdFlag>> {
        self.inner.fcntl_getfd(fd)
    }

    #[inline]
    fn fcntl_setfd(&self, fd: Fd, flags: EnumSet<FdFlag>) -> Result<()> {
        self.inner.fcntl_setfd(fd, flags)
    }
}

impl Seek for K {
    #[inline]
    fn lseek(&self, fd: Fd, position: SeekFrom) -> Result<u64> {
        self.inner.lseek(fd, position)
    }
}

impl Umask for K {
    #[inline]
    fn umask(&self, new_mask: Mode) -> Mode {
        self.inner.umask(new_mask)
    }
}

impl GetCwd for K {
    #[inline]
    fn getcwd(&self) -> Result<PathBuf> {
        self.inner.getcwd()
    }
}

impl Chdir for K {
    #[inline]
    fn chdir(&self, path: &CStr) -> Result<()> {
        self.inner.chdir(path)
    }
}

impl Clock for K {
    #[inline]
    fn now(&self) -> Instant {
        self.inner.now()
    }
}

impl Times for K {
    #[inline]
    fn times(&self) -> Result<CpuTimes> {
        self.inner.times()
    }
}

impl Signals for K {
    const SIGABRT: signal::Number = VirtualSystem::SIGABRT;
    const SIGALRM: signal::Number = VirtualSystem::SIGALRM;
    const SIGBUS: signal::Number = VirtualSystem::SIGBUS;
    const SIGCHLD: signal::Number = VirtualSystem::SIGCHLD;
    const SIGCLD: Option<signal::Number> = VirtualSystem::SIGCLD;
    const SIGCONT: signal::Number = VirtualSystem::SIGCONT;
    const SIGEMT: Option<signal::Number> = VirtualSystem::SIGEMT;
    const SIGFPE: signal::Number = VirtualSystem::SIGFPE;
    const SIGHUP: signal::Number = VirtualSystem::SIGHUP;
    const SIGILL: signal::Number = VirtualSystem::SIGILL;
    const SIGINFO: Option<signal::Number> = VirtualSystem::SIGINFO;
    const SIGINT: signal::Number = VirtualSystem::SIGINT;
    const SIGIO: Option<signal::Number> = VirtualSystem::SIGIO;
    const SIGIOT: signal::Number = VirtualSystem::SIGIOT;
    const SIGKILL: signal::Number = VirtualSystem::SIGKILL;
    const SIGLOST: Option<signal::Number> = VirtualSystem::SIGLOST;
    const SIGPIPE: signal::Number = VirtualSystem::SIGPIPE;
    const SIGPOLL: Option<signal::Number> = VirtualSystem::SIGPOLL;
    const SIGPROF: signal::Number = VirtualSystem::SIGPROF;
    const SIGPWR: Option<signal::Number> = VirtualSystem::SIGPWR;
    const SIGQUIT: signal::Number = VirtualSystem::SIGQUIT;
    const SIGSEGV: signal::Number = VirtualSystem::SIGSEGV;
    const SIGSTKFLT: Option<signal::Number> = VirtualSystem::SIGSTKFLT;
    const SIGSTOP: signal::Number = VirtualSystem::SIGSTOP;
    const SIGSYS: signal::Number = VirtualSystem::SIGSYS;
    const SIGTERM: signal::Number = VirtualSystem::SIGTERM;
    const SIGTHR: Option<signal::Number> = VirtualSystem::SIGTHR;
    const SIGTRAP: signal::Number = VirtualSystem::SIGTRAP;
    const SIGTSTP: signal::Number = VirtualSystem::SIGTSTP;
    const SIGTTIN: signal::Number = VirtualSystem::SIGTTIN;
    const SIGTTOU: signal::Number = VirtualSystem::SIGTTOU;
    const SIGURG: signal::Number = VirtualSystem::SIGURG;
    const SIGUSR1: signal::Number = VirtualSystem::SIGUSR1;
    const SIGUSR2: signal::Number = VirtualSystem::SIGUSR2;
    const SIGVTALRM: signal::Number = VirtualSystem::SIGVTALRM;
    const SIGWINCH: signal::Number = VirtualSystem::SIGWINCH;
    const SIGXCPU: signal::Number = VirtualSystem::SIGXCPU;
    const SIGXFSZ: signal::Number = VirtualSystem::SIGXFSZ;

    #[inline]
    fn sigrt_range(&self) -> Option<RangeInclusive<signal::Number>> {
        self.inner.sigrt_range()
    }

    const NAMED_SIGNALS: &'static [(&'static str, Option<signal::Number>)] = VirtualSystem::NAMED_SIGNALS;

    #[inline]
    fn iter_sigrt(&self) -> impl DoubleEndedIterator<Item = signal::Number> + use<> {
        self.inner.iter_sigrt()
    }
    #[inline]
    fn to_signal_number<N: Into<signal::RawNumber>>(&self, number: N) -> Option<signal::Number> {
        self.inner.to_signal_number(number)
    }
    #[inline]
    fn sig2str<N: Into<signal::RawNumber>>(
        &self,
        signal: N,
    ) -> Option<std::borrow::Cow<'static, str>> {
        self.inner.sig2str(signal)
    }
    #[inline]
    fn str2sig(&self, name: &str) -> Option<signal::Number> {
        self.inner.str2sig(name)
    }
    #[inline]
    fn validate_signal(&self, number: signal::RawNumber) -> Option<(signal::Name, signal::Number)> {
        self.inner.validate_signal(number)
    }
    #[inline]
    fn signal_name_from_number(&self, number: signal::Number) -> signal::Name {
        self.inner.signal_name_from_number(number)
    }
    #[inline]
    fn signal_number_from_name(&self, name: signal::Name) -> Option<signal::Number> {
        self.inner.signal_number_from_name(name)
    }
}

impl Isatty for K {
    #[inline]
    fn isatty(&self, fd: Fd) -> bool {
        self.inner.isatty(fd)
    }
}

impl TcGetPgrp for K {
    #[inline]
    fn tcgetpgrp(&self, fd: Fd) -> Result<Pid> {
        self.inner.tcgetpgrp(fd)
    }
}

impl Wait for K {
    #[inline]
    fn wait(&self, target: Pid) -> Result<Option<(Pid, ProcessState)>> {
        self.inner.wait(target)
    }
}

impl Exec for K {
    #[inline]
    fn execve<A, E>(
        &self,
        path: &CStr,
        args: A,
        envs: E,
    ) -> impl Future<Output = Result<Infallible>> + use<A, E>
    where
        A: IntoCStrArray,
        E: IntoCStrArray,
    {
        self.inner.execve(path, args, envs)
    }
}

impl Exit for K {
    #[inline]
    fn exit(&self, exit_status: ExitStatus) -> impl Future<Output = Infallible> + use<> {
        self.inner.exit(exit_status)
    }
}

impl GetUid for K {
    #[inline]
    fn getuid(&self) -> Uid {
        self.inner.getuid()
    }
    #[inline]
    fn geteuid(&self) -> Uid {
        self.inner.geteuid()
    }
    #[inline]
    fn getgid(&self) -> Gid {
        self.inner.getgid()
    }
    #[inline]
    fn getegid(&self) -> Gid {
        self.inner.getegid()
    }
}

impl GetPw for K {
    #[inline]
    fn getpwnam_dir(&self, name: &CStr) -> Result<Option<PathBuf>> {
        self.inner.getpwnam_dir(name)
    }
}

impl Sysconf for K {
    #[inline]
    fn confstr_path(&self) -> Result<UnixString> {
        self.inner.confstr_path()
    }
}

impl ShellPath for K {
    #[inline]
    fn shell_path(&self) -> CString {
        self.inner.shell_path()
    }
}

impl GetRlimit for K {
    #[inline]
    fn getrlimit(&self, resource: Resource) -> Result<LimitPair> {
        self.inner.getrlimit(resource)
    }
}

impl SetRlimit for K {
    #[inline]
    fn setrlimit(&self, resource: Resource, limits: LimitPair) -> Result<()> {
        self.inner.setrlimit(resource, limits)
    }
}
