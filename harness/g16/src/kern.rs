//! `K`: the simulated kernel of yash-env (`VirtualSystem`) behind an
//! instrumented system interface.  The real shell runs on
//! `Rc<Concurrent<K>>`; every call is forwarded to the wrapped
//! `VirtualSystem` (kern_delegates.rs), except that
//!  * `setpgid`, `tcsetpgrp` and `kill` are logged (who called, with what,
//!    with SIGTTOU blocked / ignored or not) - the system calls of the
//!    job-control protocol, one event each;
//!  * `tcsetpgrp` implements XBD 11.1.4 when the scenario asks for it: a
//!    caller in a background process group that neither blocks nor ignores
//!    SIGTTOU gets SIGTTOU for its process group and the call is restarted
//!    once the process runs again (`VirtualSystem::tcsetpgrp` leaves that out);
//!  * `getsid` answers as the scenario says (`VirtualSystem` has no sessions);
//!  * `fork` can run the child first: the new process is polled until it blocks
//!    BEFORE the parent returns from `run_in_child_process` - the interleaving
//!    a cooperative simulator never produces by itself.
use serde_json::{Value, json};
use std::cell::{Cell, RefCell};
use std::ffi::c_int;
use std::rc::Rc;
use std::time::Duration;
use yash_env::io::Fd;
use yash_env::job::{Pid, ProcessResult, ProcessState};
use yash_env::signal::Number;
use yash_env::system::concurrency::RunLoop;
use yash_env::system::r#virtual::VirtualSystem;

type Sigset = <VirtualSystem as Sigmask>::Sigset;
type FdSet = <VirtualSystem as Select>::FdSet;
use yash_env::system::{
    CaughtSignals, Concurrent, Disposition, Errno, Fork, GetPid, GetSigaction, Read, Result, Select, SendSignal, SetPgid,
    Sigaction, Sigmask, SigmaskOp, Sigset as _, TcSetPgrp, Write,
};

#[derive(Clone, Debug)]
pub struct K {
    pub inner: VirtualSystem,
}

/// Per-run switches and the call log (one run per thread at a time).
pub struct KernCfg {
    /// enforce SIGTTOU for tcsetpgrp from the background
    pub enforce: bool,
    /// what getsid(0) answers: the shell's own group (true) or another one
    pub session_leader_group: bool,
    /// poll a new child before the parent goes on
    pub child_first: bool,
}

thread_local! {
    pub static CFG: RefCell<KernCfg> = const { RefCell::new(KernCfg { enforce: false, session_leader_group: false, child_first: false }) };
    pub static CALLS: RefCell<Vec<Value>> = const { RefCell::new(Vec::new()) };
    /// called by `fork` with child-first scheduling: flushes the observation of
    /// the running process and polls the newest task
    #[allow(clippy::type_complexity)]
    pub static CHILD_FIRST_HOOK: RefCell<Option<Rc<dyn Fn()>>> = const { RefCell::new(None) };
    static MAIN_PGID: Cell<i32> = const { Cell::new(0) };
}

pub fn set_main_pgid(p: i32) {
    MAIN_PGID.with(|m| m.set(p));
}

fn log(v: Value) {
    CALLS.with(|c| c.borrow_mut().push(v));
}

impl K {
    pub fn new(inner: VirtualSystem) -> K {
        K { inner }
    }
    fn me(&self) -> i32 {
        self.inner.process_id.0
    }
    fn ttou_state(&self) -> (bool, bool) {
        let p = self.inner.current_process();
        let blocked = p.blocked_signals().contains(VirtualSystem::SIGTTOU) == Ok(true);
        let ignored = p.disposition(VirtualSystem::SIGTTOU) == Disposition::Ignore;
        (blocked, ignored)
    }
}

use yash_env::system::Signals as _;

impl GetPid for K {
    fn getpid(&self) -> Pid {
        self.inner.getpid()
    }
    fn getppid(&self) -> Pid {
        self.inner.getppid()
    }
    fn getpgrp(&self) -> Pid {
        self.inner.getpgrp()
    }
    fn getsid(&self, pid: Pid) -> Result<Pid> {
        // (VirtualSystem::getsid does not know pid 0 = the calling process)
        self.inner.getsid(if pid.0 == 0 { self.inner.process_id } else { pid })?;
        if CFG.with(|c| c.borrow().session_leader_group) {
            Ok(Pid(MAIN_PGID.with(|m| m.get())))
        } else {
            Ok(Pid(9999))
        }
    }
}

impl SetPgid for K {
    fn setpgid(&self, pid: Pid, pgid: Pid) -> Result<()> {
        let r = self.inner.setpgid(pid, pgid);
        let target = if pid.0 == 0 { self.me() } else { pid.0 };
        let group = if pgid.0 == 0 { target } else { pgid.0 };
        log(json!({"c": "setpgid", "by": self.me(), "t": target, "g": group, "ok": r.is_ok()}));
        r
    }
}

impl SendSignal for K {
    fn kill(&self, pid: Pid, signal: Option<Number>) -> impl Future<Output = Result<()>> + use<> {
        // signals a process sends to itself (stopme, exit_or_raise) are not part of the protocol
        if pid.0 != self.me() {
            if let Some(s) = signal {
                log(json!({"c": "kill", "by": self.me(), "t": pid.0, "sig": crate::run::sig_name(s.as_raw())}));
            }
        }
        self.inner.kill(pid, signal)
    }
    fn raise(&self, signal: Number) -> impl Future<Output = Result<()>> + use<> {
        self.inner.raise(signal)
    }
}

impl TcSetPgrp for K {
    fn tcsetpgrp(&self, fd: Fd, pgid: Pid) -> impl Future<Output = Result<()>> + use<> {
        let this = self.clone();
        async move {
            loop {
                let (blocked, ignored) = this.ttou_state();
                log(json!({"c": "tcset", "by": this.me(), "g": pgid.0, "blk": blocked, "ign": ignored}));
                let enforce = CFG.with(|c| c.borrow().enforce);
                let mypg = this.inner.getpgrp();
                let fg = this.inner.state.borrow().foreground;
                let group_exists = this.inner.state.borrow().processes.values().any(|p| p.pgid() == pgid);
                if enforce && group_exists && fg != Some(mypg) && !blocked && !ignored {
                    // SIGTTOU for the caller's process group; the call is restarted
                    // when the process runs again
                    this.inner.kill(Pid(-mypg.0), Some(VirtualSystem::SIGTTOU)).await?;
                    continue;
                }
                return this.inner.tcsetpgrp(fd, pgid).await;
            }
        }
    }
}

impl Read for K {
    fn read<'a>(&self, fd: Fd, buffer: &'a mut [u8]) -> impl Future<Output = Result<usize>> + use<'a> {
        self.inner.read(fd, buffer)
    }
}

impl Write for K {
    fn write<'a>(&self, fd: Fd, buffer: &'a [u8]) -> impl Future<Output = Result<usize>> + use<'a> {
        self.inner.write(fd, buffer)
    }
}

impl Sigmask for K {
    type Sigset = Sigset;
    fn sigmask(&self, op: Option<(SigmaskOp, &Sigset)>, old_mask: Option<&mut Sigset>) -> impl Future<Output = Result<()>> + use<> {
        self.inner.sigmask(op, old_mask)
    }
}

impl GetSigaction for K {
    fn get_sigaction(&self, signal: Number) -> Result<Disposition> {
        self.inner.get_sigaction(signal)
    }
}

impl Sigaction for K {
    fn sigaction(&self, signal: Number, action: Disposition) -> Result<Disposition> {
        self.inner.sigaction(signal, action)
    }
}

impl CaughtSignals for K {
    fn caught_signals(&self) -> Vec<Number> {
        self.inner.caught_signals()
    }
}

impl Select for K {
    type FdSet = FdSet;
    fn select<'a>(
        &self,
        readers: &'a mut FdSet,
        writers: &'a mut FdSet,
        timeout: Option<Duration>,
        signal_mask: Option<&Sigset>,
    ) -> impl Future<Output = Result<c_int>> + use<'a> {
        self.inner.select(readers, writers, timeout, signal_mask)
    }
}

impl Fork for K {
    fn run_in_child_process<D, F>(&self, shared_data: D, child_task: F) -> (Result<Pid>, D)
    where
        D: Clone + 'static,
        F: AsyncFnOnce(Self, D) + 'static,
    {
        let r = self.inner.run_in_child_process(shared_data, async move |child: VirtualSystem, d: D| {
            child_task(K::new(child), d).await;
        });
        if r.0.is_ok() && CFG.with(|c| c.borrow().child_first) {
            let hook = CHILD_FIRST_HOOK.with(|h| h.borrow().clone());
            if let Some(hook) = hook {
                hook();
            }
        }
        r
    }
}

enum Life {
    Running,
    Stopped,
    Dead,
}

fn life(sys: &VirtualSystem) -> Life {
    let st = sys.state.borrow();
    match st.processes.get(&sys.process_id).map(|p| p.state()) {
        Some(ProcessState::Running) => Life::Running,
        Some(ProcessState::Halted(ProcessResult::Stopped(_))) => Life::Stopped,
        _ => Life::Dead,
    }
}

/// Waits while the process is stopped; true if it has terminated.
async fn while_stopped(sys: &VirtualSystem) -> bool {
    let waker = Rc::new(Cell::new(None));
    std::future::poll_fn(|cx| match life(sys) {
        Life::Running => std::task::Poll::Ready(false),
        Life::Dead => std::task::Poll::Ready(true),
        Life::Stopped => {
            waker.set(Some(cx.waker().clone()));
            let mut st = sys.state.borrow_mut();
            if let Some(p) = st.processes.get_mut(&sys.process_id) {
                p.wake_on_resumption(Rc::downgrade(&waker));
            }
            std::task::Poll::Pending
        }
    })
    .await
}

thread_local! {
    /// the wrapped system of the process whose run loop is being polled; set by
    /// the runner for the main process and by `run_loop` for the others
    static SELF_SYS: RefCell<Vec<VirtualSystem>> = const { RefCell::new(Vec::new()) };
}

/// The main loop of a simulated process: the counterpart of
/// `Concurrent::<VirtualSystem>::run_virtual` written with the public
/// interface (`Concurrent::select`, the public process table).
pub async fn run_loop_for<F>(sys: VirtualSystem, concurrent: &Concurrent<K>, task: F)
where
    F: Future<Output = ()>,
{
    use futures_util::{pending, poll};
    use std::pin::pin;
    use yash_env::system::concurrency::Select as _;
    let mut task = pin!(task);
    loop {
        // A process that has been stopped or terminated does not run (the run
        // loop of yash-env looks at the state only after it has polled the task).
        match life(&sys) {
            Life::Running => {}
            Life::Stopped => {
                if while_stopped(&sys).await {
                    return;
                }
                continue;
            }
            Life::Dead => return,
        }
        if poll!(&mut task).is_ready() {
            return;
        }
        // stopped inside one of its own calls (kill, tcsetpgrp): the call goes on
        // when the process runs again
        match life(&sys) {
            Life::Running => {}
            Life::Stopped => {
                if while_stopped(&sys).await {
                    return;
                }
                continue;
            }
            Life::Dead => return,
        }
        let mut select = pin!(concurrent.select());
        loop {
            match life(&sys) {
                Life::Running => {}
                Life::Stopped => {
                    if while_stopped(&sys).await {
                        return;
                    }
                    continue;
                }
                Life::Dead => return,
            }
            if poll!(&mut select).is_ready() {
                break;
            }
            pending!();
        }
    }
}

impl RunLoop for K {
    fn run_loop<'c, F>(concurrent: &'c Concurrent<Self>, task: F) -> impl Future<Output = ()> + use<'c, F>
    where
        F: Future<Output = ()>,
    {
        // the process this loop belongs to: `Concurrent<K>` delegates GetPid
        let pid = concurrent.getpid();
        let state = STATE.with(|s| s.borrow().clone()).expect("kernel state");
        let sys = VirtualSystem { state, process_id: pid };
        run_loop_for(sys, concurrent, task)
    }
}

thread_local! {
    pub static STATE: RefCell<Option<Rc<RefCell<yash_env::system::r#virtual::SystemState>>>> = const { RefCell::new(None) };
}

#[allow(dead_code)]
fn _unused(_: Errno) {}
