//! Call-level binding (to be filled in).
pub fn main(_args: &[String]) -> i32 {
    2
}
