//! Schedule exploration over scenarios: every scenario is run under bounded
//! depth-first enumeration of the scheduling choice points plus seeded random
//! schedules; one record per distinct observation.
use crate::run::run_scn;
use crate::scen::{Cmd, Scn};
use crate::sched::{Schedule, next_prefix};
use rand::{Rng, SeedableRng};
use serde_json::{Value, json};
use std::collections::HashMap;
use std::io::{BufRead, Write};
use yvcommon::util::{opt, opt_usize};

pub struct Explored {
    pub records: Vec<Value>,
    pub runs: usize,
    pub max_choice_points: usize,
    pub exhausted: bool,
}

pub fn explore_scn(scn: &Scn, dfs_depth: usize, max_dfs: usize, random: usize, seed: u64) -> Explored {
    let mut seen: HashMap<String, usize> = HashMap::new();
    let mut records: Vec<Value> = vec![];
    let mut runs = 0;
    let mut maxcp = 0;
    let mut add = |rec: Value, sched: Value, records: &mut Vec<Value>| {
        let key = rec.to_string();
        match seen.get(&key) {
            Some(&k) => {
                let n = records[k]["nsched"].as_u64().unwrap_or(0) + 1;
                records[k]["nsched"] = json!(n);
            }
            None => {
                seen.insert(key, records.len());
                let mut rec = rec;
                rec["sched"] = sched;
                rec["nsched"] = json!(1);
                records.push(rec);
            }
        }
    };
    let mut exhausted = true;
    // both fork disciplines: the parent goes on first (what the cooperative
    // simulator does) and the child runs first
    for cf in [false, true] {
        let mut prefix: Vec<usize> = vec![];
        let mut done = false;
        let mut cps = 0;
        for _ in 0..max_dfs.max(1) {
            let out = run_scn(scn, Schedule::Prefix(prefix.clone()), cf);
            runs += 1;
            cps = cps.max(out.choices.len());
            add(out.record, json!({"prefix": prefix, "cf": cf}), &mut records);
            match next_prefix(&out.choices, dfs_depth) {
                Some(p) => prefix = p,
                None => {
                    done = true;
                    break;
                }
            }
        }
        exhausted &= done;
        maxcp = maxcp.max(cps);
        if cps > 0 {
            for k in 0..random {
                let s = seed.wrapping_mul(1_000_003).wrapping_add(k as u64).wrapping_add(cf as u64 * 7);
                let out = run_scn(scn, Schedule::Random(s), cf);
                runs += 1;
                let choices: Vec<usize> = out.choices.iter().map(|c| c.0).collect();
                add(out.record, json!({"prefix": choices, "cf": cf}), &mut records);
            }
        }
    }
    Explored { records, runs, max_choice_points: maxcp, exhausted }
}

fn run_parallel(scns: Vec<Scn>, args: &[String]) -> i32 {
    let dfs_depth = opt_usize(args, "--dfs-depth", 6);
    let max_dfs = opt_usize(args, "--max-dfs", 16);
    let random = opt_usize(args, "--random", 2);
    let threads = opt_usize(args, "--threads", 8).max(1);
    let seed = yvcommon::util::seed();
    let scns = std::sync::Arc::new(scns);
    let cursor = std::sync::Arc::new(std::sync::atomic::AtomicUsize::new(0));
    let (tx, rx) = std::sync::mpsc::sync_channel::<Vec<String>>(1024);
    let mut handles = vec![];
    for _ in 0..threads {
        let scns = std::sync::Arc::clone(&scns);
        let cursor = std::sync::Arc::clone(&cursor);
        let tx = tx.clone();
        handles.push(std::thread::spawn(move || -> Result<(usize, usize, usize, usize), String> {
            let (mut n, mut runs, mut maxcp, mut capped) = (0usize, 0usize, 0usize, 0usize);
            loop {
                let k = cursor.fetch_add(1, std::sync::atomic::Ordering::SeqCst);
                if k >= scns.len() {
                    break;
                }
                let ex = explore_scn(&scns[k], dfs_depth, max_dfs, random, seed.wrapping_add(k as u64));
                n += 1;
                runs += ex.runs;
                maxcp = maxcp.max(ex.max_choice_points);
                if !ex.exhausted {
                    capped += 1;
                }
                tx.send(ex.records.iter().map(|r| r.to_string()).collect()).map_err(|_| "writer gone".to_string())?;
            }
            Ok((n, runs, maxcp, capped))
        }));
    }
    drop(tx);
    let mut w = yvcommon::util::open_out(args);
    let mut nrec = 0usize;
    for recs in rx {
        for r in recs {
            if writeln!(w, "{r}").is_err() {
                eprintln!("cannot write the trace");
                return 2;
            }
            nrec += 1;
        }
    }
    let _ = w.flush();
    let (mut n, mut runs, mut maxcp, mut capped) = (0usize, 0usize, 0usize, 0usize);
    for h in handles {
        match h.join() {
            Ok(Ok((s, r, m, c))) => {
                n += s;
                runs += r;
                maxcp = maxcp.max(m);
                capped += c;
            }
            Ok(Err(e)) => {
                eprintln!("worker failed: {e}");
                return 2;
            }
            Err(_) => {
                eprintln!("worker thread died");
                return 2;
            }
        }
    }
    eprintln!("{}", json!({"scenarios": n, "runs": runs, "records": nrec, "max_choice_points": maxcp, "dfs_capped": capped}));
    0
}

pub fn explore(args: &[String]) -> i32 {
    yvcommon::util::quiet_panics();
    let input = yvcommon::util::open_in(args);
    let mut scns = vec![];
    for (k, line) in input.lines().enumerate() {
        let Ok(line) = line else { continue };
        if line.trim().is_empty() {
            continue;
        }
        let v: Value = match serde_json::from_str(&line) {
            Ok(v) => v,
            Err(e) => {
                eprintln!("bad input line {}: {e}", k + 1);
                return 2;
            }
        };
        // lines of the catalogue that are not scenarios (allowed end states) are skipped
        if v.get("prog").is_none() {
            continue;
        }
        match Scn::from_json(&v) {
            Some(s) => scns.push(s),
            None => {
                eprintln!("bad scenario on line {}", k + 1);
                return 2;
            }
        }
    }
    run_parallel(scns, args)
}

// ---------------------------------------------------------------------------
// random larger scenarios (impl -> spec)
// ---------------------------------------------------------------------------

struct Gen {
    rng: rand::rngs::StdRng,
    tags: usize,
}

impl Gen {
    fn tag(&mut self) -> String {
        self.tags += 1;
        format!("q{}z", self.tags)
    }
    fn probe(&mut self) -> Cmd {
        Cmd::probe(&self.tag())
    }
    /// a command list run inside a job (no job control there)
    fn body(&mut self, depth: usize, may_block: bool) -> Vec<Cmd> {
        let mut out = vec![self.probe()];
        let n = self.rng.gen_range(0..3);
        for _ in 0..n {
            let c = match self.rng.gen_range(0..10) {
                0 | 1 => self.probe(),
                2 => Cmd { n: self.rng.gen_range(0..4), ..Cmd::new("ret") },
                3 if depth < 2 => Cmd { body: vec![self.body(depth + 1, false)], ..Cmd::new("sub") },
                4 if depth < 2 => Cmd { body: vec![self.body(depth + 1, false), self.body(depth + 1, false)], ..Cmd::new("pipe") },
                5 if depth < 2 => Cmd { body: vec![self.body(depth + 1, false)], ..Cmd::new("csub") },
                6 if depth < 1 => Cmd { body: vec![self.body(depth + 1, false)], ..Cmd::new("async") },
                _ => self.probe(),
            };
            out.push(c);
        }
        if may_block && self.rng.gen_bool(0.3) {
            out.push(Cmd::new("pause"));
        }
        out
    }
}

pub fn random_scn(seed: u64, id: i64) -> Scn {
    let mut g = Gen { rng: rand::rngs::StdRng::seed_from_u64(seed), tags: 0 };
    let (m, i) = match g.rng.gen_range(0..8) {
        0 => (false, false),
        1 => (false, true),
        2 | 3 | 4 => (true, false),
        _ => (true, true),
    };
    let mut prog: Vec<Cmd> = vec![];
    let mut env: Vec<String> = vec![];
    // jobs[k] = (index of the starting command, state as the shell will know it)
    #[derive(Clone, Copy, PartialEq)]
    enum J {
        Stopped,
        RunningPaused,
        RunningFinishing,
        Gone,
    }
    let mut jobs: Vec<(i64, J)> = vec![];
    let len = g.rng.gen_range(2..7);
    while prog.len() < len {
        let idx = prog.len() as i64 + 1;
        match g.rng.gen_range(0..12) {
            0 | 1 => prog.push(g.probe()),
            2 => {
                // a foreground job that ends by itself
                let b = g.body(1, false);
                prog.push(Cmd { body: vec![b], ..Cmd::new("sub") });
            }
            3 => {
                let (a, b) = (g.body(1, false), g.body(1, false));
                prog.push(Cmd { body: vec![a, b], ..Cmd::new("pipe") });
            }
            4 if m => {
                // a foreground job that suspends itself, then goes on
                let mut b = vec![g.probe(), Cmd { sig: if g.rng.gen_bool(0.5) { "TSTP".into() } else { "STOP".into() }, ..Cmd::new("stopme") }];
                b.push(g.probe());
                prog.push(Cmd { body: vec![b], ..Cmd::new("sub") });
                jobs.push((idx, J::Stopped));
            }
            5 if m => {
                // a foreground job suspended from the terminal (^Z), single process or pipeline
                let pipe = g.rng.gen_bool(0.5);
                if pipe {
                    let a = vec![g.probe(), Cmd::new("pause")];
                    let b = vec![g.probe(), Cmd::new("pause")];
                    prog.push(Cmd { body: vec![a, b], ..Cmd::new("pipe") });
                } else {
                    prog.push(Cmd { body: vec![vec![g.probe(), Cmd::new("pause")]], ..Cmd::new("sub") });
                }
                env.push("TSTP".into());
                jobs.push((idx, J::Stopped));
            }
            6 => {
                let b = g.body(1, false);
                prog.push(Cmd { body: vec![b], ..Cmd::new("async") });
                jobs.push((idx, J::RunningFinishing));
            }
            7 if m => {
                let b = vec![g.probe(), Cmd::new("pause")];
                prog.push(Cmd { body: vec![b], ..Cmd::new("async") });
                jobs.push((idx, J::RunningPaused));
            }
            8 if m => {
                // bg of a stopped job
                if let Some(k) = jobs.iter().position(|j| j.1 == J::Stopped) {
                    prog.push(Cmd { j: jobs[k].0, ..Cmd::new("bg") });
                    // a job stopped inside `pause` keeps blocking; one stopped by itself goes on and ends
                    let paused = prog[(jobs[k].0 - 1) as usize].body.iter().any(|l| l.iter().any(|c| c.op == "pause"));
                    jobs[k].1 = if paused { J::RunningPaused } else { J::RunningFinishing };
                }
            }
            9 if m => {
                // fg of a stopped job: one that blocks is then interrupted from the terminal (^C)
                if let Some(k) = jobs.iter().position(|j| j.1 == J::Stopped) {
                    prog.push(Cmd { j: jobs[k].0, ..Cmd::new("fg") });
                    let paused = prog[(jobs[k].0 - 1) as usize].body.iter().any(|l| l.iter().any(|c| c.op == "pause"));
                    if paused {
                        env.push("INT".into());
                    }
                    jobs[k].1 = J::Gone;
                }
            }
            10 => {
                if let Some(k) = jobs.iter().position(|j| j.1 == J::RunningFinishing) {
                    prog.push(Cmd { j: jobs[k].0, ..Cmd::new("wait") });
                    jobs[k].1 = J::Gone;
                }
            }
            _ => {
                if let Some(k) = jobs.iter().position(|j| j.1 == J::RunningPaused) {
                    prog.push(Cmd { j: jobs[k].0, sig: "TERM".into(), ..Cmd::new("kill") });
                    prog.push(Cmd { j: jobs[k].0, ..Cmd::new("wait") });
                    jobs[k].1 = J::Gone;
                }
            }
        }
    }
    prog.push(g.probe());
    Scn {
        id,
        m,
        i,
        fg0: if g.rng.gen_bool(0.8) { "shell".into() } else { "other".into() },
        spg: if g.rng.gen_bool(0.5) { "own".into() } else { "outer".into() },
        sl: g.rng.gen_bool(0.3),
        enf: g.rng.gen_bool(0.7),
        prog,
        env,
    }
}

pub fn random(args: &[String]) -> i32 {
    yvcommon::util::quiet_panics();
    let n = opt_usize(args, "--n", 100);
    let seed = yvcommon::util::seed();
    let scns: Vec<Scn> = (0..n).map(|k| random_scn(seed.wrapping_mul(7_919).wrapping_add(k as u64), 1_000_000 + k as i64)).collect();
    run_parallel(scns, args)
}

pub fn one(args: &[String]) -> i32 {
    yvcommon::util::quiet_panics();
    let scn: Scn = match opt(args, "--scn").map(serde_json::from_str::<Value>) {
        Some(Ok(v)) => match Scn::from_json(&v) {
            Some(s) => s,
            None => {
                eprintln!("bad scenario");
                return 2;
            }
        },
        _ => {
            eprintln!("--scn JSON required");
            return 2;
        }
    };
    if args.iter().any(|a| a == "--text") {
        print!("{}", crate::scen::render(&scn));
        return 0;
    }
    let prefix: Vec<usize> = opt(args, "--prefix").map(|p| p.split(',').filter_map(|x| x.parse().ok()).collect()).unwrap_or_default();
    let cf = args.iter().any(|a| a == "--cf");
    let out = run_scn(&scn, Schedule::Prefix(prefix.clone()), cf);
    if args.iter().any(|a| a == "--debug") {
        eprintln!("--- script\n{}--- stderr\n{}--- choices {:?}", out.text, out.stderr, out.choices);
        for e in out.record["ev"].as_array().unwrap_or(&vec![]) {
            eprintln!("{e}");
        }
    }
    let mut rec = out.record;
    rec["sched"] = json!({"prefix": prefix, "cf": cf});
    rec["nsched"] = json!(1);
    println!("{rec}");
    0
}
