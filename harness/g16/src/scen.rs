//! Scenarios of G16 (the JSON objects printed by spec/Gen_ProcGroups.tla or
//! drawn at random), their rendering as shell text, and the naming of the
//! simulated processes by their position in the process tree.
use serde_json::{Value, json};

/// One command of the scenario language of spec/ProcGroups.tla.
#[derive(Clone, Debug, PartialEq)]
pub struct Cmd {
    pub op: String,
    pub tag: String,
    pub n: i64,
    pub j: i64,
    pub sig: String,
    pub body: Vec<Vec<Cmd>>,
}

impl Cmd {
    pub fn new(op: &str) -> Cmd {
        Cmd { op: op.into(), tag: String::new(), n: 0, j: 0, sig: String::new(), body: vec![] }
    }
    pub fn probe(tag: &str) -> Cmd {
        Cmd { tag: tag.into(), ..Cmd::new("probe") }
    }
    pub fn from_json(v: &Value) -> Option<Cmd> {
        let body = v["body"]
            .as_array()
            .map(|a| {
                a.iter()
                    .map(|l| l.as_array().map(|x| x.iter().filter_map(Cmd::from_json).collect()).unwrap_or_default())
                    .collect()
            })
            .unwrap_or_default();
        Some(Cmd {
            op: v["op"].as_str()?.to_string(),
            tag: v["tag"].as_str().unwrap_or("").to_string(),
            n: v["n"].as_i64().unwrap_or(0),
            j: v["j"].as_i64().unwrap_or(0),
            sig: v["sig"].as_str().unwrap_or("").to_string(),
            body,
        })
    }
    pub fn to_json(&self) -> Value {
        json!({"op": self.op, "tag": self.tag, "n": self.n, "j": self.j, "sig": self.sig,
               "body": self.body.iter().map(|l| l.iter().map(|c| c.to_json()).collect::<Vec<_>>()).collect::<Vec<_>>()})
    }
    /// first probe tag of the command, depth first
    pub fn first_tag(&self) -> Option<String> {
        if self.op == "probe" {
            return Some(self.tag.clone());
        }
        for l in &self.body {
            for c in l {
                if let Some(t) = c.first_tag() {
                    return Some(t);
                }
            }
        }
        None
    }
}

#[derive(Clone, Debug)]
pub struct Scn {
    pub id: i64,
    /// monitor option given on the command line (-m / +m)
    pub m: bool,
    /// interactive option (-i)
    pub i: bool,
    /// the terminal's foreground group at start: "shell" or "other"
    pub fg0: String,
    /// the shell's process group at start: "own" (group leader) or "outer"
    pub spg: String,
    /// getsid() of the shell is its own process group
    pub sl: bool,
    /// the kernel enforces SIGTTOU for tcsetpgrp from the background
    pub enf: bool,
    pub prog: Vec<Cmd>,
    /// signals the terminal driver sends to the foreground group, one at each idle point
    pub env: Vec<String>,
}

impl Scn {
    pub fn from_json(v: &Value) -> Option<Scn> {
        Some(Scn {
            id: v["id"].as_i64().unwrap_or(0),
            m: v["m"].as_bool()?,
            i: v["i"].as_bool()?,
            fg0: v["fg0"].as_str().unwrap_or("shell").to_string(),
            spg: v["spg"].as_str().unwrap_or("outer").to_string(),
            sl: v["sl"].as_bool().unwrap_or(false),
            enf: v["enf"].as_bool().unwrap_or(false),
            prog: v["prog"].as_array()?.iter().filter_map(Cmd::from_json).collect(),
            env: v["env"].as_array().map(|a| a.iter().filter_map(|x| x.as_str().map(String::from)).collect()).unwrap_or_default(),
        })
    }
    pub fn to_json(&self) -> Value {
        // log: the system calls of the protocol are recorded and judged too
        json!({"id": self.id, "m": self.m, "i": self.i, "fg0": self.fg0, "spg": self.spg, "sl": self.sl, "enf": self.enf, "log": true,
               "prog": self.prog.iter().map(|c| c.to_json()).collect::<Vec<_>>(), "env": self.env})
    }
}

fn render_list(list: &[Cmd], top: &[Cmd]) -> String {
    // no `;` after the `&` of an asynchronous list
    let mut out = String::new();
    for (k, c) in list.iter().enumerate() {
        if k > 0 {
            out.push_str(if list[k - 1].op == "async" { " " } else { "; " });
        }
        out.push_str(&render_cmd(c, top));
    }
    out
}

fn job_id(j: i64, top: &[Cmd]) -> String {
    // the job started by the j-th command of the same list, found by a unique
    // substring of its command text (the tag of its first probe)
    match top.get((j - 1).max(0) as usize).and_then(|c| c.first_tag()) {
        Some(t) => format!("'%?{t}'"),
        None => "%nosuchjob".to_string(),
    }
}

pub fn render_cmd(c: &Cmd, top: &[Cmd]) -> String {
    match c.op.as_str() {
        "probe" => format!("pg {}", c.tag),
        "ret" => format!("status {}", c.n),
        "sub" => format!("( {} )", render_list(&c.body[0], &c.body[0])),
        "pipe" => format!("{{ {}\n}} | {{ {}\n}}", render_list(&c.body[0], &c.body[0]), render_list(&c.body[1], &c.body[1])),
        "async" => format!("{{ {}\n}}&", render_list(&c.body[0], &c.body[0])),
        "csub" => format!(": $( {} )", render_list(&c.body[0], &c.body[0])),
        "fg" => format!("fg {}", job_id(c.j, top)),
        "bg" => format!("bg {}", job_id(c.j, top)),
        "wait" => format!("wait {}", job_id(c.j, top)),
        "kill" => format!("kill -s {} {}", c.sig, job_id(c.j, top)),
        "stopme" => format!("stopme {}", c.sig),
        "pause" => "pause".to_string(),
        other => format!("pg BAD-{other}"),
    }
}

/// The script: every command of the shell's list on its own line.
pub fn render(s: &Scn) -> String {
    let mut out = String::new();
    for c in &s.prog {
        out.push_str(&render_cmd(c, &s.prog));
        out.push('\n');
    }
    out
}

pub fn argv(s: &Scn) -> Vec<String> {
    let mut a = vec!["yash".to_string()];
    a.push(if s.m { "-m".into() } else { "+m".into() });
    if s.i {
        a.push("-i".into());
    }
    a
}
