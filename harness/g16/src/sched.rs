//! Scheduler of the simulated processes for G16: the scheduler of
//! `yvcommon::sched` (one task per simulated process; at each step one of the
//! tasks whose waker has fired is polled; FIFO / enumerated prefix / seeded
//! random) extended with
//!  * an observer called after every poll with the index of the polled task,
//!  * an *idle hook* called when no task is runnable and the main task is
//!    unfinished: the place where the harness plays the terminal driver (a user
//!    typing ^Z or ^C) - every simulated process is blocked then, so the
//!    cooperative simulator delivers the signal faithfully.
use rand::{Rng, SeedableRng};
use std::cell::{Cell, RefCell};
use std::pin::Pin;
use std::rc::Rc;
use std::sync::Arc;
use std::sync::atomic::{AtomicBool, AtomicU64, Ordering};
use std::task::{Context, Poll, Wake, Waker};
use yash_env::system::r#virtual::{Executor, SystemState};
pub use yvcommon::sched::{Outcome, Schedule, next_prefix};

static WAKE_SEQ: AtomicU64 = AtomicU64::new(1);

struct Flag {
    woken: AtomicBool,
    seq: AtomicU64,
}

impl Wake for Flag {
    fn wake(self: Arc<Self>) {
        self.wake_by_ref()
    }
    fn wake_by_ref(self: &Arc<Self>) {
        if !self.woken.swap(true, Ordering::SeqCst) {
            self.seq.store(WAKE_SEQ.fetch_add(1, Ordering::SeqCst), Ordering::SeqCst);
        }
    }
}

type Task = Pin<Box<dyn Future<Output = ()>>>;

struct Slot {
    fut: Option<Task>,
    flag: Arc<Flag>,
}

pub struct Scheduler {
    tasks: RefCell<Vec<Slot>>,
    incoming: RefCell<Vec<Task>>,
    schedule: Schedule,
    rng: RefCell<rand::rngs::StdRng>,
    choices: RefCell<Vec<(usize, usize)>>,
    polls: Cell<usize>,
    current: Cell<Option<usize>>,
    step_limit: usize,
    /// Called after every poll with the index of the polled task.
    #[allow(clippy::type_complexity)]
    pub observer: RefCell<Option<Box<dyn FnMut(usize)>>>,
    /// Called when nothing is runnable and the main task is unfinished;
    /// returns true if it did something that may have made a task runnable.
    #[allow(clippy::type_complexity)]
    pub idle: RefCell<Option<Box<dyn FnMut() -> bool>>>,
}

impl std::fmt::Debug for Scheduler {
    fn fmt(&self, f: &mut std::fmt::Formatter<'_>) -> std::fmt::Result {
        f.write_str("Scheduler")
    }
}

impl Executor for Scheduler {
    fn spawn(&self, task: Task) -> Result<(), Box<dyn std::error::Error>> {
        self.incoming.borrow_mut().push(task);
        Ok(())
    }
}

fn new_slot(fut: Task) -> Slot {
    let flag = Arc::new(Flag { woken: AtomicBool::new(false), seq: AtomicU64::new(0) });
    flag.wake_by_ref();
    Slot { fut: Some(fut), flag }
}

impl Scheduler {
    pub fn new(schedule: Schedule, step_limit: usize) -> Self {
        let seed = match &schedule {
            Schedule::Random(s) => *s,
            _ => 0,
        };
        Scheduler {
            tasks: RefCell::new(vec![]),
            incoming: RefCell::new(vec![]),
            schedule,
            rng: RefCell::new(rand::rngs::StdRng::seed_from_u64(seed)),
            choices: RefCell::new(vec![]),
            polls: Cell::new(0),
            current: Cell::new(None),
            step_limit,
            observer: RefCell::new(None),
            idle: RefCell::new(None),
        }
    }

    pub fn choices(&self) -> Vec<(usize, usize)> {
        self.choices.borrow().clone()
    }

    pub fn polls(&self) -> usize {
        self.polls.get()
    }

    fn adopt_incoming(&self) {
        let new: Vec<Task> = std::mem::take(&mut *self.incoming.borrow_mut());
        let mut tasks = self.tasks.borrow_mut();
        for t in new {
            tasks.push(new_slot(t));
        }
    }

    fn choose(&self, n: usize) -> usize {
        if n <= 1 {
            return 0;
        }
        let k = self.choices.borrow().len();
        let c = match &self.schedule {
            Schedule::Fifo => 0,
            Schedule::Prefix(p) => p.get(k).copied().unwrap_or(0).min(n - 1),
            Schedule::Random(_) => self.rng.borrow_mut().gen_range(0..n),
        };
        self.choices.borrow_mut().push((c, n));
        c
    }

    /// Polls the most recently spawned task once, if it has never been polled
    /// (used by the call-level binding for "the child runs first").
    pub fn poll_newest(&self) -> bool {
        self.adopt_incoming();
        let idx = {
            let tasks = self.tasks.borrow();
            if tasks.is_empty() {
                return false;
            }
            tasks.len() - 1
        };
        self.poll_task(idx).is_some()
    }

    fn poll_task(&self, idx: usize) -> Option<Result<Poll<()>, String>> {
        let (mut fut, flag) = {
            let mut tasks = self.tasks.borrow_mut();
            let slot = &mut tasks[idx];
            let fut = slot.fut.take()?;
            slot.flag.woken.store(false, Ordering::SeqCst);
            (fut, Arc::clone(&slot.flag))
        };
        self.polls.set(self.polls.get() + 1);
        let waker = Waker::from(flag);
        let mut cx = Context::from_waker(&waker);
        let outer = self.current.replace(Some(idx));
        let r = std::panic::catch_unwind(std::panic::AssertUnwindSafe(|| fut.as_mut().poll(&mut cx)));
        self.current.set(outer);
        match r {
            Ok(Poll::Ready(())) => {
                self.observe(idx);
                Some(Ok(Poll::Ready(())))
            }
            Ok(Poll::Pending) => {
                self.tasks.borrow_mut()[idx].fut = Some(fut);
                self.observe(idx);
                Some(Ok(Poll::Pending))
            }
            Err(e) => {
                let msg = if let Some(s) = e.downcast_ref::<&str>() {
                    s.to_string()
                } else if let Some(s) = e.downcast_ref::<String>() {
                    s.clone()
                } else {
                    "panic".to_string()
                };
                std::mem::forget(fut);
                Some(Err(format!("task {idx}: {msg}")))
            }
        }
    }

    /// Observation of the process being polled, in the middle of its step
    /// (before another process is run inside that step).
    pub fn flush_current(&self) {
        if let Some(idx) = self.current.get() {
            self.observe(idx);
        }
    }

    fn observe(&self, idx: usize) {
        // the observer is taken out while it runs: it may call back into the scheduler
        let f = self.observer.borrow_mut().take();
        if let Some(mut f) = f {
            f(idx);
            let mut slot = self.observer.borrow_mut();
            if slot.is_none() {
                *slot = Some(f);
            }
        }
    }

    pub fn run_main(&self, main: Task, state: &Rc<RefCell<SystemState>>) -> Outcome {
        self.tasks.borrow_mut().push(new_slot(main));
        let mut main_done = false;
        loop {
            self.adopt_incoming();
            let mut ready: Vec<(u64, usize)> = self
                .tasks
                .borrow()
                .iter()
                .enumerate()
                .filter(|(_, s)| s.fut.is_some() && s.flag.woken.load(Ordering::SeqCst))
                .map(|(i, s)| (s.flag.seq.load(Ordering::SeqCst), i))
                .collect();
            ready.sort();
            if ready.is_empty() {
                if main_done {
                    return Outcome::Completed;
                }
                let f = self.idle.borrow_mut().take();
                if let Some(mut f) = f {
                    let did = f();
                    *self.idle.borrow_mut() = Some(f);
                    if did {
                        continue;
                    }
                }
                // The virtual clock is never advanced: `pause` sleeps on it.
                let _ = state;
                return Outcome::Deadlock;
            }
            if self.polls.get() >= self.step_limit {
                return Outcome::StepLimit;
            }
            let idx = ready[self.choose(ready.len())].1;
            match self.poll_task(idx) {
                Some(Ok(Poll::Ready(()))) => {
                    if idx == 0 {
                        main_done = true;
                    }
                }
                Some(Ok(Poll::Pending)) | None => {}
                Some(Err(msg)) => return Outcome::Panic(msg),
            }
        }
    }
}
