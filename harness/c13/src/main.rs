//! Conformance harness for property C13, see /verif/DESIGN.md.
fn main() {
    eprintln!("yv-c13: not implemented yet");
    std::process::exit(2);
}
