//! Conformance harness for property C13 (children started, awaited and
//! reaped correctly under every schedule), see /verif/DESIGN.md section 6.
//!
//! `yv-c13 explore --catalogue C --depth N --max-dfs M --random R --threads T
//!         --out-trace F --out-summary G`
//!   For every script of the TLC-generated catalogue: run the REAL shell on
//!   the simulated OS under the controllable scheduler, depth-first over the
//!   first N choice points (at most M schedules), then R seeded random
//!   schedules.  Every run is recorded as `reset`, `batch`*, `end` records
//!   (validated by spec/Trace_Procs.tla) plus one summary line.
//! `yv-c13 one --sid JSON --text T --prefix 0,1,.. --out F`
//!   One run under a given schedule (replay of a violation).
mod explore;

fn main() {
    let args: Vec<String> = std::env::args().collect();
    if args.len() < 2 {
        eprintln!("usage: yv-c13 <explore|one> ...");
        std::process::exit(2);
    }
    let rest = &args[2..];
    let code = match args[1].as_str() {
        "explore" => explore::explore(rest),
        "one" => explore::one(rest),
        other => {
            eprintln!("unknown subcommand {other}");
            2
        }
    };
    std::process::exit(code);
}
