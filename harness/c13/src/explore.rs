//! Schedule exploration of catalogue scripts and recording of the runs.
use serde_json::{Value, json};
use std::collections::hash_map::DefaultHasher;
use std::collections::{BTreeMap, HashSet};
use std::hash::{Hash, Hasher};
use std::io::Write;
use yvcommon::sched::{Outcome, Schedule, next_prefix};
use yvcommon::shell::{ShellCfg, ShellResult, proc_table, run_shell};
use yvcommon::util::{opt, opt_usize};

const MAIN_PID: i64 = 2;
const STEP_LIMIT: usize = 20_000;

#[derive(Default)]
struct Batch {
    actor: i64,
    probes: Vec<Value>,
    forks: Vec<i64>,
    reaps: Vec<i64>,
    /// other processes terminated by a signal the actor sent
    kills: Vec<i64>,
    /// other processes stopped ("S") or continued ("C") by a signal the actor sent, in order
    sigs: Vec<Value>,
    /// live children whose stop/continue notification the actor consumed (wait)
    acks: Vec<i64>,
    ex: bool,
    xs: i64,
    odd: Vec<String>,
}

impl Batch {
    fn to_json(&self, run: u64) -> Value {
        json!({"ev": "batch", "run": run, "actor": self.actor, "probes": self.probes, "forks": self.forks,
               "reaps": self.reaps, "kills": self.kills, "sigs": self.sigs, "acks": self.acks, "ex": self.ex, "xs": self.xs, "odd": self.odd})
    }
}

/// `E<n>` -> Some(n); `K<n>` (killed by signal n) -> Some(128 + n); else None
fn dead_status(st: &str) -> Option<i64> {
    if let Some(n) = st.strip_prefix('E') {
        n.parse().ok()
    } else if let Some(n) = st.strip_prefix('K') {
        n.parse::<i64>().ok().map(|n| 128 + n)
    } else {
        None
    }
}

struct Recorded {
    /// `batch`* and `end` records, without the run number
    batches: Vec<Batch>,
    end: Value,
    digest: Value,
}

/// Turns the event log of one run into the records validated by Trace_Procs:
/// one `batch` per maximal stretch of events caused by the same process (one
/// or more scheduling steps of that process; within a step only that process
/// acts), then `end`.
fn record(r: &ShellResult) -> Recorded {
    let mut table: BTreeMap<i64, (i64, String, bool)> = BTreeMap::new();
    let mut batches: Vec<Batch> = vec![];
    let mut path: BTreeMap<i64, Vec<i64>> = BTreeMap::new();
    let mut nforks: BTreeMap<i64, i64> = BTreeMap::new();
    let mut probes_of: BTreeMap<i64, Vec<Value>> = BTreeMap::new();
    let mut gl: Vec<Value> = vec![];
    path.insert(MAIN_PID, vec![]);
    // paths in the fork tree (k-th child of its parent); computed first because a
    // fork becomes visible only after the scheduling step in which it happened
    {
        let mut seen: HashSet<i64> = HashSet::new();
        seen.insert(MAIN_PID);
        for e in &r.events {
            if e["ev"] == "proc" {
                let pid = e["pid"].as_i64().unwrap_or(-1);
                let ppid = e["ppid"].as_i64().unwrap_or(-1);
                if seen.insert(pid) {
                    let k = nforks.entry(ppid).or_insert(0);
                    *k += 1;
                    let mut p = path.get(&ppid).cloned().unwrap_or_else(|| vec![-1, ppid]);
                    p.push(*k);
                    path.insert(pid, p);
                }
            }
        }
    }
    let path_of = |path: &BTreeMap<i64, Vec<i64>>, pid: i64| -> Value {
        match path.get(&pid) {
            Some(p) => json!(p),
            None => json!([-1, pid]),
        }
    };
    fn batch_for(batches: &mut Vec<Batch>, actor: i64) -> &mut Batch {
        if batches.last().map(|b| b.actor) != Some(actor) {
            batches.push(Batch { actor, xs: 0, ..Default::default() });
        }
        batches.last_mut().unwrap()
    }
    for e in &r.events {
        match e["ev"].as_str().unwrap_or("") {
            "probe" => {
                let pid = e["pid"].as_i64().unwrap_or(-1);
                let args: Vec<&str> = e["args"].as_array().map(|a| a.iter().filter_map(|x| x.as_str()).collect()).unwrap_or_default();
                let t = args.first().and_then(|s| s.parse::<i64>().ok()).unwrap_or(-1);
                let b = args.get(1).and_then(|s| s.parse::<i64>().ok()).unwrap_or(0);
                let st = e["st"].as_i64().unwrap_or(-1);
                let bt = batch_for(&mut batches, pid);
                bt.probes.push(json!({"t": t, "st": st, "b": b}));
                if args.len() > 2 || (args.len() == 2 && b == 0) {
                    bt.odd.push(format!("probe arguments {args:?}"));
                }
                let bp = if b != 0 { path_of(&path, b) } else { json!([]) };
                probes_of.entry(pid).or_default().push(json!([t, st, bp]));
                gl.push(json!([path_of(&path, pid), t, st, bp]));
            }
            "proc" => {
                let actor = e["task"].as_i64().unwrap_or(-1) + MAIN_PID;
                let pid = e["pid"].as_i64().unwrap_or(-1);
                let ppid = e["ppid"].as_i64().unwrap_or(-1);
                let st = e["st"].as_str().unwrap_or("?").to_string();
                let ch = e["ch"].as_bool().unwrap_or(false);
                match table.get(&pid).cloned() {
                    None => {
                        if pid == MAIN_PID && table.is_empty() {
                            // the initial process
                        } else {
                            let bt = batch_for(&mut batches, actor);
                            // fork, and possibly kill and wait, in one step of the actor
                            bt.forks.push(pid);
                            if st.starts_with('K') && ppid == actor {
                                bt.kills.push(pid);
                                if !ch {
                                    bt.reaps.push(pid);
                                }
                            } else if st != "R" || ch || ppid != actor {
                                bt.odd.push(format!("new process {pid} ppid={ppid} st={st} ch={ch} seen in a step of {actor}"));
                            }
                        }
                    }
                    Some((oppid, ost, och)) => {
                        let bt = batch_for(&mut batches, actor);
                        if oppid != ppid {
                            bt.odd.push(format!("ppid of {pid} changed {oppid} -> {ppid}"));
                        }
                        if ost == "R" && st == "S" && ch && pid != actor {
                            bt.sigs.push(json!([pid, "S"]));
                        } else if ost == "S" && st == "R" && ch && pid != actor {
                            bt.sigs.push(json!([pid, "C"]));
                        } else if ost == "R" && st == "R" && !och && ch && pid != actor {
                            // stopped and continued within one step of the actor: only a
                            // stop/continue pair sets the flag of a process that is running
                            bt.sigs.push(json!([pid, "S"]));
                            bt.sigs.push(json!([pid, "C"]));
                        } else if ost == "S" && st.starts_with('K') && pid != actor {
                            // continued and killed in one step of the actor
                            bt.sigs.push(json!([pid, "C"]));
                            bt.kills.push(pid);
                            if !ch {
                                bt.reaps.push(pid);
                            }
                        } else if ost == st && och && !ch && (st == "R" || st == "S") {
                            bt.acks.push(pid);
                        } else if ost == "R" && st != "R" {
                            match dead_status(&st) {
                                Some(xs) if ch && pid == actor && !bt.ex => {
                                    bt.ex = true;
                                    bt.xs = xs;
                                }
                                Some(_) if pid != actor && st.starts_with('K') => {
                                    // killed by the actor (and possibly reaped in the same step)
                                    bt.kills.push(pid);
                                    if !ch {
                                        bt.reaps.push(pid);
                                    }
                                }
                                _ => bt.odd.push(format!("process {pid}: {ost} -> {st} ch={ch} in a step of {actor}")),
                            }
                        } else if ost == st && och && !ch {
                            bt.reaps.push(pid);
                        } else {
                            bt.odd.push(format!("process {pid}: ({ost},{och}) -> ({st},{ch}) in a step of {actor}"));
                        }
                    }
                }
                table.insert(pid, (ppid, st, ch));
            }
            // what a probe built-in saw of its data is C14's business; EPIPE of a
            // writer shows in its exit status
            "sink" | "emit_error" | "sink_error" => {}
            other => {
                if let Some(b) = batches.last_mut() {
                    b.odd.push(format!("event {other}: {e}"));
                }
            }
        }
    }
    let (outcome, msg) = match &r.outcome {
        Outcome::Completed => ("completed", String::new()),
        Outcome::Deadlock => ("deadlock", String::new()),
        Outcome::StepLimit => ("steplimit", String::new()),
        Outcome::Panic(m) => ("panic", m.clone()),
    };
    let fin = proc_table(&r.state);
    let tab: Vec<Value> = fin
        .iter()
        .map(|(pid, (ppid, st, ch))| {
            json!({"pid": pid, "ppid": ppid, "alive": st == "R" || st == "S", "xs": dead_status(st).unwrap_or(-9), "ch": ch})
        })
        .collect();
    let mut stderr = r.stderr_str();
    stderr.truncate(300);
    let end = json!({"ev": "end", "outcome": outcome, "msg": msg, "status": r.status, "table": tab, "stderr": stderr});
    let mut procs = serde_json::Map::new();
    for (pid, (_ppid, st, _ch)) in &fin {
        let pid = *pid as i64;
        let key = path_of(&path, pid).to_string();
        procs.insert(key, json!({"pr": probes_of.get(&pid).cloned().unwrap_or_default(), "xs": dead_status(st).unwrap_or(-9)}));
    }
    let digest = json!({"outcome": outcome, "status": r.status, "gl": gl, "procs": procs});
    Recorded { batches, end, digest }
}

/// `mypid`: prints the simulated process id of the calling process (a
/// pipeline member publishes it through a pipe so that another process can
/// signal it).  `mypid NAME` assigns it to the variable NAME instead (no fork,
/// nothing written): an asynchronous child of the caller inherits the
/// variable and can stop / continue its parent.
fn mypid_main(
    env: &mut yvcommon::shell::VEnv,
    args: Vec<yash_env::semantics::Field>,
) -> std::pin::Pin<Box<dyn Future<Output = yash_env::builtin::Result> + '_>> {
    use yash_env::system::GetPid as _;
    use yash_env::system::concurrency::WriteAll as _;
    Box::pin(async move {
        if let Some(name) = args.first() {
            let pid = env.system.getpid().0.to_string();
            let st = match env.variables.get_or_new(name.value.clone(), yash_env::variable::Scope::Global).assign(pid, None) {
                Ok(_) => 0,
                Err(_) => 1,
            };
            return yash_env::builtin::Result::new(yash_env::semantics::ExitStatus(st));
        }
        let line = format!("{}\n", env.system.getpid().0);
        let st = match env.system.write_all(yash_env::io::Fd::STDOUT, line.as_bytes()).await {
            Ok(()) => 0,
            Err(_) => 1,
        };
        yash_env::builtin::Result::new(yash_env::semantics::ExitStatus(st))
    })
}

fn run(text: &str, schedule: Schedule) -> ShellResult {
    let mut cfg = ShellCfg::command(text);
    cfg.schedule = schedule;
    cfg.step_limit = STEP_LIMIT;
    cfg.trace_procs = true;
    // FIFOs nobody writes to unless the script does: `sink </tmp/fifo` blocks
    for f in ["/tmp/fifo", "/tmp/pf", "/tmp/ff"] {
        cfg.files.push(yvcommon::shell::FileSpec::Fifo { path: f.to_string() });
    }
    cfg.setup = Some(Box::new(|env, _state| {
        env.builtins.insert(
            "mypid",
            yash_env::builtin::Builtin::new(yash_env::builtin::Type::Mandatory, mypid_main),
        );
    }));
    run_shell(cfg)
}

struct Out {
    trace: Vec<String>,
    summary: Vec<String>,
}

fn mix(a: u64, b: u64, c: u64) -> u64 {
    let mut h = DefaultHasher::new();
    (a, b, c).hash(&mut h);
    h.finish()
}

/// Explores the schedules of one script.  Run numbers are `base + k`.
fn explore_script(idx: usize, entry: &Value, depth: usize, max_dfs: usize, random: usize, seed: u64, out: &mut Out) {
    let text = entry["text"].as_str().unwrap_or("");
    let sid = &entry["sid"];
    // distinct traces of this script: hash -> (index into `firsts`, multiplicity)
    let mut seen: std::collections::HashMap<u64, usize> = std::collections::HashMap::new();
    let mut firsts: Vec<(Value, u64)> = vec![];
    let mut k: u64 = 0;
    let mut max_cp: usize = 0;
    let mut emit = |r: &ShellResult, kind: &str, out: &mut Out| {
        let run = (idx as u64) * 1_000_000 + k;
        k += 1;
        max_cp = max_cp.max(r.choices.len());
        let rec = record(r);
        let mut lines: Vec<String> = vec![];
        for b in &rec.batches {
            lines.push(b.to_json(0).to_string());
        }
        lines.push(rec.end.to_string());
        let mut h = DefaultHasher::new();
        lines.hash(&mut h);
        let hash = h.finish();
        if let Some(&i) = seen.get(&hash) {
            firsts[i].1 += 1;
            return;
        }
        seen.insert(hash, firsts.len());
        out.trace.push(json!({"ev": "reset", "run": run, "sid": sid}).to_string());
        for b in &rec.batches {
            out.trace.push(b.to_json(run).to_string());
        }
        let mut end = rec.end.clone();
        end["run"] = json!(run);
        out.trace.push(end.to_string());
        let choices: Vec<usize> = r.choices.iter().map(|c| c.0).collect();
        firsts.push((
            json!({"run": run, "script": idx, "kind": kind, "choices": choices, "hash": format!("{hash:016x}"),
                   "polls": r.polls, "digest": rec.digest}),
            1,
        ));
    };
    // depth-first over the first `depth` choice points
    let mut prefix: Vec<usize> = vec![];
    let mut n = 0;
    let mut exhausted = false;
    while n < max_dfs {
        let r = run(text, Schedule::Prefix(prefix.clone()));
        emit(&r, "dfs", out);
        n += 1;
        match next_prefix(&r.choices, depth) {
            Some(p) => prefix = p,
            None => {
                exhausted = true;
                break;
            }
        }
    }
    for i in 0..random {
        let r = run(text, Schedule::Random(mix(seed, idx as u64, i as u64)));
        emit(&r, "random", out);
    }
    drop(emit);
    for (mut v, mult) in firsts {
        v["mult"] = json!(mult);
        out.summary.push(v.to_string());
    }
    // all schedules were enumerated iff the depth-first search ran out of
    // alternatives and no run had more choice points than the search depth
    out.summary.push(
        json!({"script": idx, "dfs_runs": n, "dfs_exhausted": exhausted, "random_runs": random,
               "max_choice_points": max_cp, "all_schedules": exhausted && max_cp <= depth})
        .to_string(),
    );
}

pub fn explore(args: &[String]) -> i32 {
    yvcommon::util::quiet_panics();
    let cat_path = opt(args, "--catalogue").expect("--catalogue");
    let depth = opt_usize(args, "--depth", 6);
    let max_dfs = opt_usize(args, "--max-dfs", 200);
    let random = opt_usize(args, "--random", 20);
    let threads = opt_usize(args, "--threads", 4).max(1);
    let seed = yvcommon::util::seed();
    let cat: Vec<Value> = std::fs::read_to_string(cat_path)
        .expect("read catalogue")
        .lines()
        .filter(|l| !l.trim().is_empty())
        .map(|l| serde_json::from_str(l).expect("catalogue line"))
        .collect();
    let cat = std::sync::Arc::new(cat);
    let next = std::sync::Arc::new(std::sync::atomic::AtomicUsize::new(0));
    let mut handles = vec![];
    for _ in 0..threads {
        let cat = cat.clone();
        let next = next.clone();
        handles.push(
            std::thread::Builder::new()
                .stack_size(64 << 20)
                .spawn(move || {
                    let mut res: Vec<(usize, Out)> = vec![];
                    loop {
                        let i = next.fetch_add(1, std::sync::atomic::Ordering::SeqCst);
                        if i >= cat.len() {
                            break;
                        }
                        let mut out = Out { trace: vec![], summary: vec![] };
                        explore_script(i, &cat[i], depth, max_dfs, random, seed, &mut out);
                        res.push((i, out));
                    }
                    res
                })
                .expect("spawn"),
        );
    }
    let mut all: Vec<(usize, Out)> = vec![];
    for h in handles {
        match h.join() {
            Ok(v) => all.extend(v),
            Err(_) => {
                eprintln!("worker thread panicked");
                return 2;
            }
        }
    }
    all.sort_by_key(|x| x.0);
    let mut tf = std::io::BufWriter::new(std::fs::File::create(opt(args, "--out-trace").expect("--out-trace")).expect("create trace"));
    let mut sf = std::io::BufWriter::new(std::fs::File::create(opt(args, "--out-summary").expect("--out-summary")).expect("create summary"));
    for (_, out) in &all {
        for l in &out.trace {
            writeln!(tf, "{l}").unwrap();
        }
        for l in &out.summary {
            writeln!(sf, "{l}").unwrap();
        }
    }
    0
}

pub fn one(args: &[String]) -> i32 {
    yvcommon::util::quiet_panics();
    let sid: Value = serde_json::from_str(opt(args, "--sid").expect("--sid")).expect("sid json");
    let text = opt(args, "--text").expect("--text");
    let prefix: Vec<usize> = opt(args, "--prefix")
        .unwrap_or("")
        .split(',')
        .filter(|s| !s.is_empty())
        .map(|s| s.parse().expect("prefix"))
        .collect();
    let r = run(text, Schedule::Prefix(prefix));
    if args.iter().any(|a| a == "--raw") {
        for e in &r.events {
            eprintln!("{e}");
        }
        eprintln!("stderr: {}", r.stderr_str());
    }
    let rec = record(&r);
    let mut f = std::io::BufWriter::new(std::fs::File::create(opt(args, "--out").expect("--out")).expect("create out"));
    writeln!(f, "{}", json!({"ev": "reset", "run": 1, "sid": sid})).unwrap();
    for b in &rec.batches {
        writeln!(f, "{}", b.to_json(1)).unwrap();
    }
    let mut end = rec.end.clone();
    end["run"] = json!(1);
    writeln!(f, "{end}").unwrap();
    println!("{}", json!({"digest": rec.digest, "choices": r.choices.iter().map(|c| c.0).collect::<Vec<_>>()}));
    0
}
