//! Running one case on the real shell (simulated OS) and comparing what was
//! observed with the events SetOpts.tla prescribes.
use serde_json::{Value, json};
use std::pin::Pin;
use yash_env::builtin::{Builtin, Result as BResult, Type};
use yash_env::semantics::Field;
use yvcommon::sched::Outcome;
use yvcommon::shell::{self, FileSpec, ShellCfg, VEnv, push_event};

pub const SCRIPT_FILE: &str = "/tmp/script";
pub const CMD_MARK: &str = "@C";

pub fn strs(v: &Value) -> Vec<String> {
    match v {
        Value::Array(a) => a.iter().map(|x| x.as_str().unwrap_or("").to_string()).collect(),
        _ => vec![],
    }
}

/// `obs "$-" "$#" "$0" "$*" "$@"`: the observation point.  Records the
/// expansions (arguments), the option set, the positional parameters and
/// `arg0` of the environment, and `$?`; leaves `$?` unchanged.
fn obs_main(env: &mut VEnv, args: Vec<Field>) -> Pin<Box<dyn Future<Output = BResult> + '_>> {
    Box::pin(async move {
        let a: Vec<String> = args.iter().map(|f| f.value.clone()).collect();
        let mut on: Vec<String> = vec![];
        for o in yash_env::option::Option::iter() {
            if env.options.get(o) == yash_env::option::State::On {
                on.push(o.to_string());
            }
        }
        let ppos: Vec<String> = env.variables.positional_params().values.clone();
        push_event(json!({"ev": "obs", "args": a, "on": on, "ppos": ppos, "ea0": env.arg0.clone(), "st": env.exit_status.0}));
        BResult::new(env.exit_status)
    })
}

/// `lst KIND TEXT`: records a listing; leaves `$?` unchanged.
fn lst_main(env: &mut VEnv, args: Vec<Field>) -> Pin<Box<dyn Future<Output = BResult> + '_>> {
    Box::pin(async move {
        let kind = args.first().map(|f| f.value.clone()).unwrap_or_default();
        let text = args.get(1).map(|f| f.value.clone()).unwrap_or_default();
        push_event(json!({"ev": "lst", "kind": kind, "text": text}));
        BResult::new(env.exit_status)
    })
}

/// What one run showed, normalised to the event vocabulary of SetOpts.tla.
#[derive(Clone, Debug)]
pub struct Observed {
    /// "run" | "error" | "info"
    pub kind: String,
    pub evs: Vec<Value>,
    pub exit: i32,
    pub done: bool,
    pub outcome: String,
}

impl Observed {
    pub fn to_json(&self) -> Value {
        json!({"kind": self.kind, "evs": self.evs, "exit": self.exit, "done": self.done, "outcome": self.outcome})
    }
}

fn blank(t: &str) -> Value {
    json!({"t": t, "dash": [], "ns": "", "a0": "", "ea0": "", "star": "", "pos": [], "ppos": [], "on": [], "st": 0,
           "rows": [], "lines": []})
}

fn normalise(events: &[Value]) -> Vec<Value> {
    let mut out = vec![];
    for e in events {
        match e["ev"].as_str().unwrap_or("") {
            "obs" => {
                let a = strs(&e["args"]);
                let mut v = blank("p");
                let mut dash: Vec<String> = a.first().map(|s| s.chars().map(|c| c.to_string()).collect()).unwrap_or_default();
                dash.sort();
                v["dash"] = json!(dash);
                v["ns"] = json!(a.get(1).cloned().unwrap_or_default());
                v["a0"] = json!(a.get(2).cloned().unwrap_or_default());
                v["star"] = json!(a.get(3).cloned().unwrap_or_default());
                v["pos"] = json!(a.iter().skip(4).cloned().collect::<Vec<_>>());
                v["ppos"] = e["ppos"].clone();
                v["ea0"] = e["ea0"].clone();
                v["on"] = e["on"].clone();
                v["st"] = e["st"].clone();
                // fewer than four arguments: the observation command itself was mangled
                if a.len() < 4 {
                    v["t"] = json!("bad");
                }
                out.push(v);
            }
            "lst" => {
                let kind = e["kind"].as_str().unwrap_or("");
                let text = e["text"].as_str().unwrap_or("");
                let mut v = blank(kind);
                if kind == "lo" {
                    let rows: Vec<Vec<String>> =
                        text.lines().map(|l| l.split_whitespace().map(|s| s.to_string()).collect()).collect();
                    v["rows"] = json!(rows);
                } else {
                    v["lines"] = json!(text.lines().map(|s| s.to_string()).collect::<Vec<_>>());
                }
                out.push(v);
            }
            _ => {}
        }
    }
    out
}

/// Runs the shell with command line `argv` (every `@C` replaced by the
/// script); the script is also the content of standard input and of
/// /tmp/script, so that whatever mode the shell chooses it finds it.
pub fn run_case(argv: &[String], script: &str) -> Observed {
    let argv: Vec<String> = argv.iter().map(|a| if a == CMD_MARK { script.to_string() } else { a.clone() }).collect();
    let parsed = yvcommon::util::catch(|| yash_cli::startup::args::parse(argv.iter().cloned()));
    match parsed {
        Err(msg) => {
            return Observed { kind: "run".into(), evs: vec![], exit: -1, done: false, outcome: format!("panic in args::parse: {msg}") };
        }
        Ok(Err(_)) => return Observed { kind: "error".into(), evs: vec![], exit: 2, done: true, outcome: "completed".into() },
        Ok(Ok(yash_cli::startup::args::Parse::Run(_))) => {}
        Ok(Ok(_)) => return Observed { kind: "info".into(), evs: vec![], exit: 0, done: true, outcome: "completed".into() },
    }
    let mut cfg = ShellCfg::with_argv(argv);
    cfg.stdin = script.as_bytes().to_vec();
    cfg.files.push(FileSpec::Regular { path: SCRIPT_FILE.into(), content: script.as_bytes().to_vec(), mode: 0o644 });
    cfg.cwd = Some("/tmp".into());
    cfg.step_limit = 200_000;
    cfg.setup = Some(Box::new(|env, _st| {
        env.builtins.insert("obs", Builtin::new(Type::Mandatory, obs_main));
        env.builtins.insert("lst", Builtin::new(Type::Mandatory, lst_main));
    }));
    let r = shell::run_shell(cfg);
    let done = matches!(r.outcome, Outcome::Completed);
    Observed { kind: "run".into(), evs: normalise(&r.events), exit: r.status, done, outcome: r.outcome_str() }
}

fn st_ok(exp: i64, got: i64) -> bool {
    if exp == -1 { got != 0 } else { exp == got }
}

/// Does the observed event match the expected one?  Returns the name of the
/// first deviating field.
fn same_event(e: &Value, o: &Value) -> Option<&'static str> {
    let t = e["t"].as_str().unwrap_or("");
    if o["t"].as_str().unwrap_or("") != t {
        return Some("kind-of-observation");
    }
    match t {
        "p" => {
            let pos = strs(&e["pos"]);
            let mut ed = strs(&e["dash"]);
            ed.sort();
            let mut eon = strs(&e["on"]);
            eon.sort();
            let mut oon = strs(&o["on"]);
            oon.sort();
            if strs(&o["dash"]) != ed {
                Some("dash")
            } else if oon != eon {
                Some("options")
            } else if strs(&o["ppos"]) != pos {
                Some("positional")
            } else if strs(&o["pos"]) != pos {
                Some("at")
            } else if o["ns"].as_str().unwrap_or("") != pos.len().to_string() {
                Some("count")
            } else if o["star"].as_str().unwrap_or("") != pos.join(" ") {
                Some("star")
            } else if o["a0"] != e["a0"] || o["ea0"] != e["a0"] {
                Some("arg0")
            } else if !st_ok(e["st"].as_i64().unwrap_or(0), o["st"].as_i64().unwrap_or(-99)) {
                Some("status")
            } else {
                None
            }
        }
        "lo" => {
            let er: Vec<Vec<String>> = e["rows"].as_array().map(|a| a.iter().map(strs).collect()).unwrap_or_default();
            let or: Vec<Vec<String>> = o["rows"].as_array().map(|a| a.iter().map(strs).collect()).unwrap_or_default();
            if er != or { Some("set-o-listing") } else { None }
        }
        "lp" => {
            if strs(&e["lines"]) != strs(&o["lines"]) { Some("set+o-listing") } else { None }
        }
        _ => Some("kind-of-observation"),
    }
}

/// Compares a whole run with the expected events.  None = as prescribed;
/// Some((index of the expected event, field)).
pub fn compare(exp_kind: &str, exp: &[Value], obs: &Observed) -> Option<(usize, String)> {
    if obs.kind != exp_kind {
        return Some((0, format!("command-line:{}", obs.kind)));
    }
    if exp_kind != "run" {
        return None;
    }
    if !obs.done {
        return Some((0, format!("outcome:{}", obs.outcome)));
    }
    let mut j = 0usize;
    for (i, e) in exp.iter().enumerate() {
        match e["t"].as_str().unwrap_or("") {
            "x" | "e" => {
                let st = e["st"].as_i64().unwrap_or(0);
                let may = e["may"].as_bool().unwrap_or(false);
                if j >= obs.evs.len() {
                    // nothing more was observed: the shell has left here
                    return if st_ok(st, obs.exit as i64) { None } else { Some((i, "exit-status".into())) };
                }
                if !may {
                    return Some((i, "runs-on".into()));
                }
            }
            _ => {
                if j >= obs.evs.len() {
                    return Some((i, "exits-early".into()));
                }
                if let Some(f) = same_event(e, &obs.evs[j]) {
                    return Some((i, f.into()));
                }
                j += 1;
            }
        }
    }
    Some((exp.len(), "no-end-event".into()))
}
