//! Conformance harness for specification-growth module G06 (shell options
//! and positional parameters as state; set, shift, $-, the shell's command
//! line), see spec/SetOpts.tla.
//!
//! `yv-g06 replay --in GEN.ndjson --out MISMATCHES.ndjson [--threads T]`
//!     spec -> impl: every line of GEN is a state printed by Gen_SetOpts
//!     (command line, witness, and for every operation of the fan the events
//!     SetOpts.tla prescribes).  For every (state, operation) the real shell
//!     is started on the simulated OS with that command line and the script
//!     <witness; operation> and what it shows is compared; so is the
//!     catalogue of command lines.
//! `yv-g06 random --runs N --len L --out TRACE.ndjson [--threads T]`
//!     impl -> spec: N seeded random command lines x operation sequences are
//!     run; the observations are written for Trace_SetOpts to judge.
//! `yv-g06 real --in GEN.ndjson --out MISMATCHES.ndjson`
//!     spec -> impl through the true entry point: the catalogue of command
//!     lines (those started under the name `yash`) is run with
//!     `yash_cli::main()` on the real OS; the script prints $-, $#, $0 and
//!     the positional parameters with /bin/echo.  Also observed here (and
//!     only here): the exit status of the shell for an invalid command line.
//! `yv-g06 redo --in RECORDS.ndjson --out OUT.ndjson`
//!     re-runs mismatch records (compared again) or random records
//!     (recorded again for TLC).
mod genr;
mod run;

use genr::Op;
use rand::SeedableRng;
use run::{Observed, compare, run_case, strs};
use serde_json::{Value, json};
use std::collections::BTreeMap;
use std::io::{BufRead, Write};
use std::sync::Mutex;
use yvcommon::util::{self, opt, opt_usize};

#[derive(Default)]
struct Stats {
    states: usize,
    cases: usize,
    starts: usize,
    unspec: usize,
    mismatches: usize,
    nontrivial: usize,
    by_kind: BTreeMap<String, usize>,
    by_effect: BTreeMap<String, usize>,
    by_class: BTreeMap<String, usize>,
    samples: Vec<Value>,
}

impl Stats {
    fn merge(&mut self, o: Stats) {
        self.states += o.states;
        self.cases += o.cases;
        self.starts += o.starts;
        self.unspec += o.unspec;
        self.mismatches += o.mismatches;
        self.nontrivial += o.nontrivial;
        for (k, v) in o.by_kind {
            *self.by_kind.entry(k).or_default() += v;
        }
        for (k, v) in o.by_effect {
            *self.by_effect.entry(k).or_default() += v;
        }
        for (k, v) in o.by_class {
            *self.by_class.entry(k).or_default() += v;
        }
        for s in o.samples {
            if self.samples.len() < 8 {
                self.samples.push(s);
            }
        }
    }
}

fn kind_of(lines: &[String]) -> &'static str {
    let l = lines.first().map(|s| s.as_str()).unwrap_or("");
    let l = l.strip_prefix("command ").unwrap_or(l);
    if l.starts_with("set") {
        "set"
    } else if l.starts_with("shift") {
        "shift"
    } else if l.starts_with("f()") {
        "call"
    } else if l.starts_with("x=$(") {
        "listing"
    } else {
        "other"
    }
}

/// What the specification prescribes for the case, as a class (evidence only).
fn effect_of(s: &Value, evs: &[Value]) -> &'static str {
    if evs.iter().any(|e| e["t"] == "x" && e["may"] == false) {
        return "shell-exits";
    }
    if evs.iter().any(|e| e["t"] == "x") {
        return "may-exit";
    }
    let last = evs.iter().rev().find(|e| e["t"] == "p");
    match last {
        None => "none",
        Some(p) => {
            if p["st"].as_i64().unwrap_or(0) != 0 {
                "error-status"
            } else if p["on"] != s["on"] && p["pos"] != s["pos"] {
                "options+positional"
            } else if p["on"] != s["on"] {
                "options"
            } else if p["pos"] != s["pos"] {
                "positional"
            } else {
                "unchanged"
            }
        }
    }
}

fn script_of(pre: &[String], lines: &[String]) -> String {
    let mut all = vec![genr::OBS_LINE.to_string()];
    all.extend(pre.iter().cloned());
    all.extend(lines.iter().cloned());
    all.join("\n") + "\n"
}

#[allow(clippy::too_many_arguments)]
fn do_state(line: &Value, fanlines: &[Vec<String>], biglines: &[Vec<String>], out: &Mutex<Box<dyn Write + Send>>) -> Stats {
    let mut st = Stats { states: 1, ..Default::default() };
    let argv = strs(&line["argv"]);
    let pre = strs(&line["prelines"]);
    let preevs: Vec<Value> = line["preevs"].as_array().cloned().unwrap_or_default();
    let empty = vec![];
    for (fam, lines_of, arr) in [("core", fanlines, line["fan"].as_array().unwrap_or(&empty)), ("big", biglines, line["big"].as_array().unwrap_or(&empty))] {
        for (i, c) in arr.iter().enumerate() {
            if c["unspec"].as_bool().unwrap_or(false) {
                st.unspec += 1;
                continue;
            }
            let lines = &lines_of[i];
            let mut exp = preevs.clone();
            let evs: Vec<Value> = c["evs"].as_array().cloned().unwrap_or_default();
            exp.extend(evs.iter().cloned());
            let script = script_of(&pre, lines);
            let obs = run_case(&argv, &script);
            st.cases += 1;
            *st.by_kind.entry(kind_of(lines).into()).or_default() += 1;
            *st.by_class.entry(c["cls"].as_str().unwrap_or("?").into()).or_default() += 1;
            let eff = effect_of(&line["s"], &evs);
            *st.by_effect.entry(eff.into()).or_default() += 1;
            if eff != "unchanged" {
                st.nontrivial += 1;
            }
            if st.samples.len() < 2 && (i % 97 == 5) {
                st.samples.push(json!({"argv": argv, "script": script, "expected_events": evs.len(), "observed": obs.to_json()}));
            }
            if let Some((at, field)) = compare("run", &exp, &obs) {
                st.mismatches += 1;
                let rec = json!({"what": "op", "fam": fam, "root": line["root"], "argv": argv, "s": line["s"], "prelines": pre,
                                 "lines": lines, "exp": exp, "obs": obs.to_json(), "at": at, "field": field});
                let mut o = out.lock().unwrap();
                writeln!(o, "{rec}").unwrap();
            }
        }
    }
    if let Some(starts) = line["starts"].as_array() {
        for c in starts {
            let k = c["k"].as_str().unwrap_or("");
            if k == "unspec" {
                st.unspec += 1;
                continue;
            }
            let argv = strs(&c["argv"]);
            let script = script_of(&[], &[]);
            let obs = run_case(&argv, &script);
            st.starts += 1;
            *st.by_class.entry(format!("sh:{}", c["cls"].as_str().unwrap_or("?"))).or_default() += 1;
            let exp: Vec<Value> = c["evs"].as_array().cloned().unwrap_or_default();
            if let Some((at, field)) = compare(k, &exp, &obs) {
                st.mismatches += 1;
                let rec = json!({"what": "start", "fam": "start", "argv": argv, "k": k, "prelines": [], "lines": [],
                                 "exp": exp, "obs": obs.to_json(), "at": at, "field": field});
                let mut o = out.lock().unwrap();
                writeln!(o, "{rec}").unwrap();
            }
        }
    }
    st
}

fn lines_table(v: &Value) -> Vec<Vec<String>> {
    v.as_array().map(|a| a.iter().map(strs).collect()).unwrap_or_default()
}

fn replay(args: &[String]) {
    let path = opt(args, "--in").expect("--in");
    let threads = opt_usize(args, "--threads", 8);
    // pass 1: the line that carries the script lines of the fans
    let mut fanlines = vec![];
    let mut biglines = vec![];
    {
        let f = std::io::BufReader::new(std::fs::File::open(path).expect("open --in"));
        for l in f.lines() {
            let l = l.unwrap();
            if l.contains("\"fanlines\":[[") {
                let v: Value = serde_json::from_str(&l).expect("json");
                fanlines = lines_table(&v["fanlines"]);
                biglines = lines_table(&v["biglines"]);
                break;
            }
        }
    }
    if fanlines.is_empty() {
        eprintln!("yv-g06: no line with the fan's script lines");
        std::process::exit(2);
    }
    let out: Mutex<Box<dyn Write + Send>> = Mutex::new(Box::new(std::io::BufWriter::new(
        std::fs::File::create(opt(args, "--out").expect("--out")).expect("create --out"),
    )));
    let input = Mutex::new(std::io::BufReader::new(std::fs::File::open(path).expect("open --in")).lines());
    let total = Mutex::new(Stats::default());
    std::thread::scope(|s| {
        for _ in 0..threads {
            s.spawn(|| {
                util::quiet_panics();
                loop {
                    let l = { input.lock().unwrap().next() };
                    let Some(l) = l else { break };
                    let l = l.unwrap();
                    if l.trim().is_empty() {
                        continue;
                    }
                    let v: Value = serde_json::from_str(&l).expect("json");
                    let st = do_state(&v, &fanlines, &biglines, &out);
                    total.lock().unwrap().merge(st);
                }
            });
        }
    });
    out.lock().unwrap().flush().unwrap();
    let t = total.into_inner().unwrap();
    println!(
        "{}",
        json!({"states": t.states, "cases": t.cases, "starts": t.starts, "unspec": t.unspec, "mismatches": t.mismatches,
               "nontrivial": t.nontrivial, "by_kind": t.by_kind, "by_effect": t.by_effect, "by_class": t.by_class, "samples": t.samples,
               "fan": fanlines.len(), "bigfan": biglines.len()})
    );
}

fn record(id: usize, argv: &[String], ops: &[Op]) -> Value {
    let script = genr::script(ops);
    let obs = run_case(argv, &script);
    json!({"id": id, "argv": argv, "ops": ops.iter().map(|o| o.to_json()).collect::<Vec<_>>(), "script": script,
           "kind": obs.kind, "evs": obs.evs, "exit": obs.exit, "done": obs.done, "outcome": obs.outcome})
}

fn random(args: &[String]) {
    let runs = opt_usize(args, "--runs", 1000);
    let len = opt_usize(args, "--len", 5);
    let threads = opt_usize(args, "--threads", 8);
    let seed = util::seed();
    let ids: Vec<usize> = (0..runs).collect();
    let next = std::sync::atomic::AtomicUsize::new(0);
    let results: Mutex<Vec<Option<Value>>> = Mutex::new(vec![None; runs]);
    std::thread::scope(|s| {
        for _ in 0..threads {
            s.spawn(|| {
                util::quiet_panics();
                loop {
                    let i = next.fetch_add(1, std::sync::atomic::Ordering::SeqCst);
                    if i >= ids.len() {
                        break;
                    }
                    let mut rng = rand::rngs::StdRng::seed_from_u64(seed.wrapping_mul(0x9E37_79B9_7F4A_7C15).wrapping_add(i as u64));
                    let (argv, portable) = genr::random_argv(&mut rng);
                    let ops = genr::random_ops(&mut rng, len, portable);
                    let rec = record(i, &argv, &ops);
                    results.lock().unwrap()[i] = Some(rec);
                }
            });
        }
    });
    let mut out = util::open_out(args);
    let mut steps = 0usize;
    let mut kinds: BTreeMap<String, usize> = BTreeMap::new();
    let mut events = 0usize;
    for r in results.into_inner().unwrap().into_iter().flatten() {
        steps += r["ops"].as_array().map(|a| a.len()).unwrap_or(0);
        events += r["evs"].as_array().map(|a| a.len()).unwrap_or(0);
        *kinds.entry(r["kind"].as_str().unwrap_or("").to_string()).or_default() += 1;
        writeln!(out, "{r}").unwrap();
    }
    out.flush().unwrap();
    println!("{}", json!({"runs": runs, "ops": steps, "events": events, "kinds": kinds}));
}

fn redo(args: &[String]) {
    let input = util::open_in(args);
    let mut out = util::open_out(args);
    let mut bad = 0usize;
    let mut n = 0usize;
    for l in input.lines() {
        let l = l.unwrap();
        if l.trim().is_empty() {
            continue;
        }
        let v: Value = serde_json::from_str(&l).expect("json");
        n += 1;
        if v.get("ops").is_some() {
            let ops: Vec<Op> = v["ops"].as_array().map(|a| a.iter().map(Op::from_json).collect()).unwrap_or_default();
            let rec = record(v["id"].as_u64().unwrap_or(0) as usize, &strs(&v["argv"]), &ops);
            writeln!(out, "{rec}").unwrap();
        } else if v["what"] == "real" {
            let c = json!({"argv": v["argv"], "k": v["k"], "evs": v["exp"]});
            let (field, seen) = real_case(&c);
            if field.is_some() {
                bad += 1;
            }
            let text = match &field {
                None => "as prescribed".to_string(),
                Some(f) => format!("deviates: {f}"),
            };
            writeln!(out, "{}", json!({"argv": v["argv"], "script": REAL_SCRIPT, "verdict": text, "obs": seen})).unwrap();
        } else {
            let argv = strs(&v["argv"]);
            let script = script_of(&strs(&v["prelines"]), &strs(&v["lines"]));
            let obs: Observed = run_case(&argv, &script);
            let exp: Vec<Value> = v["exp"].as_array().cloned().unwrap_or_default();
            let kind = if v["what"] == "start" { v["k"].as_str().unwrap_or("run").to_string() } else { "run".to_string() };
            let verdict = compare(&kind, &exp, &obs);
            if verdict.is_some() {
                bad += 1;
            }
            let text = match &verdict {
                None => "as prescribed".to_string(),
                Some((at, f)) => format!("deviates at expected event {at}: {f}"),
            };
            writeln!(out, "{}", json!({"argv": argv, "script": script, "verdict": text, "obs": obs.to_json()})).unwrap();
        }
    }
    out.flush().unwrap();
    println!("{}", json!({"records": n, "bad": bad}));
}

const REAL_SCRIPT: &str = "/bin/echo \"D=$-\"\n/bin/echo \"N=$#\"\n/bin/echo \"Z=$0\"\nfor a in \"$@\"; do /bin/echo \"A=$a\"; done\n";

/// One command line through `yash_cli::main()` on the real OS.  Returns the
/// deviating field, if any, and what was seen.
fn real_case(c: &Value) -> (Option<String>, Value) {
    use yvcommon::real::{RealCfg, run_real};
    use yvcommon::shell::FileSpec;
    let argv = strs(&c["argv"]);
    let k = c["k"].as_str().unwrap_or("");
    let fix = |a: &String| -> String {
        if a == run::CMD_MARK {
            REAL_SCRIPT.to_string()
        } else if a == run::SCRIPT_FILE {
            "script".to_string()
        } else {
            a.clone()
        }
    };
    let cfg = RealCfg {
        args: argv.iter().skip(1).map(fix).collect(),
        stdin: REAL_SCRIPT.as_bytes().to_vec(),
        files: vec![FileSpec::Regular { path: "script".into(), content: REAL_SCRIPT.as_bytes().to_vec(), mode: 0o644 }],
        mirror: false,
        timeout: std::time::Duration::from_secs(20),
        env: vec![],
    };
    let r = run_real(&cfg);
    let out = String::from_utf8_lossy(&r.stdout).into_owned();
    let seen = json!({"status": r.status, "timed_out": r.timed_out, "stdout": out, "stderr": String::from_utf8_lossy(&r.stderr)});
    if r.timed_out {
        return (Some("timeout".into()), seen);
    }
    let field = match k {
        "error" => {
            if r.status == 0 {
                Some("exit-status")
            } else if !out.is_empty() {
                Some("runs-on")
            } else if r.stderr.is_empty() {
                Some("no-diagnostic")
            } else {
                None
            }
        }
        "info" => {
            if r.status != 0 {
                Some("exit-status")
            } else if out.is_empty() {
                Some("no-output")
            } else {
                None
            }
        }
        _ => {
            let evs = c["evs"].as_array().cloned().unwrap_or_default();
            let p = evs.iter().find(|e| e["t"] == "p");
            match p {
                None => {
                    // exec off: nothing runs
                    if !out.is_empty() {
                        Some("runs-on")
                    } else if r.status != 0 {
                        Some("exit-status")
                    } else {
                        None
                    }
                }
                Some(p) => {
                    let mut d = String::new();
                    let mut n = String::new();
                    let mut z = String::new();
                    let mut a: Vec<String> = vec![];
                    for l in out.lines() {
                        if let Some(x) = l.strip_prefix("D=") {
                            d = x.to_string();
                        } else if let Some(x) = l.strip_prefix("N=") {
                            n = x.to_string();
                        } else if let Some(x) = l.strip_prefix("Z=") {
                            z = x.to_string();
                        } else if let Some(x) = l.strip_prefix("A=") {
                            a.push(x.to_string());
                        }
                    }
                    let mut dd: Vec<String> = d.chars().map(|c| c.to_string()).collect();
                    dd.sort();
                    let mut ed = strs(&p["dash"]);
                    ed.sort();
                    let pos = strs(&p["pos"]);
                    let ea0 = p["a0"].as_str().unwrap_or("");
                    let ea0 = if ea0 == run::SCRIPT_FILE { "script" } else { ea0 };
                    // $0 is the harness binary when the specification says argv[0]
                    let a0_known = ea0 != argv[0];
                    if dd != ed {
                        Some("dash")
                    } else if n != pos.len().to_string() {
                        Some("count")
                    } else if a != pos {
                        Some("at")
                    } else if a0_known && z != ea0 {
                        Some("arg0")
                    } else if r.status != 0 {
                        Some("exit-status")
                    } else {
                        None
                    }
                }
            }
        }
    };
    (field.map(|s| s.to_string()), seen)
}

fn real(args: &[String]) {
    let path = opt(args, "--in").expect("--in");
    let mut out = util::open_out(args);
    let f = std::io::BufReader::new(std::fs::File::open(path).expect("open --in"));
    let mut n = 0usize;
    let mut skipped = 0usize;
    let mut bad = 0usize;
    let mut kinds: BTreeMap<String, usize> = BTreeMap::new();
    for l in f.lines() {
        let l = l.unwrap();
        if !l.contains("\"fanlines\":[[") {
            continue;
        }
        let v: Value = serde_json::from_str(&l).expect("json");
        for c in v["starts"].as_array().cloned().unwrap_or_default() {
            let argv = strs(&c["argv"]);
            let k = c["k"].as_str().unwrap_or("").to_string();
            // positional parameters with a newline or the name the shell is started under cannot be chosen here
            if argv.first().map(|s| s.as_str()) != Some("yash") || k == "unspec" {
                skipped += 1;
                continue;
            }
            n += 1;
            *kinds.entry(k.clone()).or_default() += 1;
            let (field, seen) = real_case(&c);
            if let Some(field) = field {
                bad += 1;
                writeln!(out, "{}", json!({"what": "real", "fam": "real", "argv": argv, "k": k, "prelines": [], "lines": [],
                                           "exp": c["evs"], "obs": seen, "at": 0, "field": field})).unwrap();
            }
        }
        break;
    }
    out.flush().unwrap();
    println!("{}", json!({"real_cases": n, "skipped": skipped, "mismatches": bad, "kinds": kinds}));
}

fn main() {
    yvcommon::real::maybe_child_main();
    let args: Vec<String> = std::env::args().collect();
    match args.get(1).map(|s| s.as_str()) {
        Some("replay") => replay(&args[2..]),
        Some("random") => random(&args[2..]),
        Some("redo") => redo(&args[2..]),
        Some("real") => real(&args[2..]),
        _ => {
            eprintln!("usage: yv-g06 replay|random|real|redo ...");
            std::process::exit(2);
        }
    }
}
