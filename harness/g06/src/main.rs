//! Conformance harness for specification-growth module g06 (see /verif/DESIGN.md 12.6).
fn main() {
    eprintln!("yv-g06: not implemented yet");
    std::process::exit(2);
}
