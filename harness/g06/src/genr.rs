//! Operations as data, their script text (the same rendering as
//! `Script` in spec/SetOpts.tla - Trace_SetOpts checks that), and the seeded
//! random generator of command lines and operation sequences.
use rand::Rng;
use rand::rngs::StdRng;
use serde_json::{Value, json};

pub const OBS_LINE: &str = "obs \"$-\" \"$#\" \"$0\" \"$*\" \"$@\"";

#[derive(Clone, Debug)]
pub struct Op {
    pub k: String,
    pub cmd: bool,
    pub args: Vec<String>,
    pub body: Vec<Op>,
}

impl Op {
    pub fn to_json(&self) -> Value {
        json!({"k": self.k, "cmd": self.cmd, "args": self.args, "body": self.body.iter().map(|o| o.to_json()).collect::<Vec<_>>()})
    }
    pub fn from_json(v: &Value) -> Op {
        Op {
            k: v["k"].as_str().unwrap_or("").to_string(),
            cmd: v["cmd"].as_bool().unwrap_or(false),
            args: crate::run::strs(&v["args"]),
            body: v["body"].as_array().map(|a| a.iter().map(Op::from_json).collect()).unwrap_or_default(),
        }
    }
}

fn qarg(a: &str) -> String {
    if a.starts_with('"') { a.to_string() } else { format!("'{a}'") }
}

fn cmd_text(name: &str, cmd: bool, args: &[String]) -> String {
    let mut s = String::new();
    if cmd {
        s.push_str("command ");
    }
    s.push_str(name);
    for a in args {
        s.push(' ');
        s.push_str(&qarg(a));
    }
    s
}

fn basic_lines(op: &Op, out: &mut Vec<String>) {
    match op.k.as_str() {
        "set" | "shift" => {
            out.push(cmd_text(&op.k, op.cmd, &op.args));
            out.push(OBS_LINE.into());
        }
        "lo" | "lp" => {
            let flag = if op.k == "lo" { "-o" } else { "+o" };
            out.push(format!("x=$({} {})", cmd_text("set", op.cmd, &[]), flag));
            out.push(format!("lst {} \"$x\"", op.k));
            out.push(OBS_LINE.into());
        }
        _ => {}
    }
}

pub fn op_lines(op: &Op, out: &mut Vec<String>) {
    if op.k == "call" {
        out.push("f() {".into());
        out.push(OBS_LINE.into());
        for b in &op.body {
            basic_lines(b, out);
        }
        out.push("}".into());
        out.push(cmd_text("f", false, &op.args));
        out.push(OBS_LINE.into());
    } else {
        basic_lines(op, out);
    }
}

pub fn script(ops: &[Op]) -> String {
    let mut lines = vec![OBS_LINE.to_string()];
    for o in ops {
        op_lines(o, &mut lines);
    }
    lines.join("\n") + "\n"
}

// ---------------------------------------------------------------------------
// random generation
// ---------------------------------------------------------------------------

const OPTIONS: [&str; 21] = [
    "allexport", "clobber", "cmdline", "errexit", "exec", "glob", "hashondefinition", "ignoreeof", "interactive", "log",
    "login", "monitor", "notify", "pipefail", "portable", "posixlycorrect", "stdin", "unset", "verbose", "vi", "xtrace",
];
// weights: the options whose effect cuts the run short (exec) or that are left open (login) are rare
const OPT_WEIGHT: [u32; 21] = [6, 6, 2, 5, 1, 6, 4, 4, 1, 5, 1, 3, 4, 5, 4, 4, 2, 6, 4, 5, 5];
const PUNCT: [char; 7] = ['-', '_', '*', '!', '.', ' ', ':'];

fn pick<'a, T>(rng: &mut StdRng, xs: &'a [T]) -> &'a T {
    &xs[rng.gen_range(0..xs.len())]
}

fn weighted(rng: &mut StdRng, w: &[u32]) -> usize {
    let total: u32 = w.iter().sum();
    let mut x = rng.gen_range(0..total);
    for (i, wi) in w.iter().enumerate() {
        if x < *wi {
            return i;
        }
        x -= wi;
    }
    w.len() - 1
}

/// A spelling of a long option name: full or abbreviated, with or without
/// `no`, in random case, with punctuation sprinkled in.
fn long_name(rng: &mut StdRng) -> String {
    if rng.gen_bool(0.04) {
        return pick(rng, &["bogus", "exit", "errexit1", "", "nono", "o", "no-"]).to_string();
    }
    let mut name = OPTIONS[weighted(rng, &OPT_WEIGHT)].to_string();
    if rng.gen_bool(0.3) {
        name = format!("no{name}");
    }
    if rng.gen_bool(0.35) {
        let n = rng.gen_range(1..=name.len());
        name.truncate(n);
    }
    if rng.gen_bool(0.25) {
        name = name.chars().map(|c| if rng.gen_bool(0.4) { c.to_ascii_uppercase() } else { c }).collect();
    }
    if rng.gen_bool(0.2) {
        let mut s = String::new();
        for c in name.chars() {
            if rng.gen_bool(0.2) {
                s.push(*pick(rng, &PUNCT));
            }
            s.push(c);
        }
        name = s;
    }
    name
}

/// A POSIX spelling (to get somewhere while the portable option is on).
fn posix_name(rng: &mut StdRng) -> String {
    pick(
        rng,
        &["allexport", "notify", "noclobber", "errexit", "noglob", "ignoreeof", "nolog", "monitor", "nounset", "pipefail",
          "verbose", "vi", "xtrace", "portable"],
    )
    .to_string()
}

fn letters(rng: &mut StdRng, startup: bool) -> String {
    let good = ['a', 'b', 'C', 'e', 'f', 'h', 'm', 'u', 'v', 'x'];
    let n = rng.gen_range(1..=3);
    let mut s = String::new();
    for _ in 0..n {
        let r = rng.gen_range(0..100);
        let c = if r < 84 {
            *pick(rng, &good)
        } else if r < 87 {
            'n'
        } else if r < 92 {
            *pick(rng, if startup { &['l', 'l', 'l'] } else { &['c', 'i', 's'] })
        } else if r < 94 {
            'l'
        } else {
            *pick(rng, &['z', 'A', '1', 'E'])
        };
        s.push(c);
    }
    s
}

/// One or two arguments that form an option.
fn option_words(rng: &mut StdRng, startup: bool, portable_hint: bool) -> Vec<String> {
    let sign = if rng.gen_bool(0.6) { '-' } else { '+' };
    if portable_hint && rng.gen_bool(0.6) {
        return if rng.gen_bool(0.5) { vec![format!("{sign}o"), posix_name(rng)] } else { vec![format!("{sign}{}", letters(rng, startup))] };
    }
    match rng.gen_range(0..10) {
        0..=2 => vec![format!("{sign}{}", letters(rng, startup))],
        3..=4 => vec![format!("{sign}o"), long_name(rng)],
        5..=6 => vec![format!("{sign}{sign}{}", long_name(rng))],
        7 => {
            let n = long_name(rng);
            if n.is_empty() { vec![format!("{sign}o"), n] } else { vec![format!("{sign}o{n}")] }
        }
        8 => vec![format!("{sign}{}o", letters(rng, startup)), long_name(rng)],
        _ => vec![format!("{sign}o"), posix_name(rng)],
    }
}

const PARAMS: [&str; 12] = ["a", "b c", "", "-e", "--", "-", "+", "x", "1", "*", "-o", "+x"];

fn operands(rng: &mut StdRng, max: usize, words: bool) -> Vec<String> {
    let n = rng.gen_range(0..=max);
    (0..n)
        .map(|_| {
            if words && rng.gen_bool(0.15) {
                if rng.gen_bool(0.7) { "\"$@\"".to_string() } else { "\"$#\"".to_string() }
            } else {
                pick(rng, &PARAMS).to_string()
            }
        })
        .collect()
}

fn set_op(rng: &mut StdRng, portable_hint: bool) -> Op {
    let mut args = vec![];
    for _ in 0..rng.gen_range(0..=2) {
        args.extend(option_words(rng, false, portable_hint));
    }
    if rng.gen_bool(0.35) {
        args.push(if rng.gen_bool(0.75) { "--".into() } else { "-".into() });
        args.extend(operands(rng, 3, true));
    } else if rng.gen_bool(0.3) {
        args.extend(operands(rng, 3, true));
    }
    if args.is_empty() {
        args.push("--".into());
    }
    Op { k: "set".into(), cmd: rng.gen_bool(0.4), args, body: vec![] }
}

fn shift_op(rng: &mut StdRng) -> Op {
    let mut args: Vec<String> = vec![];
    if rng.gen_bool(0.15) {
        args.push("--".into());
    }
    if rng.gen_bool(0.75) {
        let r = rng.gen_range(0..100);
        args.push(if r < 70 {
            rng.gen_range(0..5).to_string()
        } else if r < 76 {
            "\"$#\"".to_string()
        } else {
            pick(rng, &["x", "-1", "", "01", "1x", "+1", "007", "12345678", " 2", "9"]).to_string()
        });
        if rng.gen_bool(0.05) {
            args.push("1".into());
        }
    }
    Op { k: "shift".into(), cmd: rng.gen_bool(0.5), args, body: vec![] }
}

fn basic_op(rng: &mut StdRng, portable_hint: bool) -> Op {
    match rng.gen_range(0..10) {
        0..=5 => set_op(rng, portable_hint),
        6..=8 => shift_op(rng),
        _ => Op { k: if rng.gen_bool(0.5) { "lo".into() } else { "lp".into() }, cmd: rng.gen_bool(0.2), args: vec![], body: vec![] },
    }
}

pub fn random_ops(rng: &mut StdRng, len: usize, portable_hint: bool) -> Vec<Op> {
    let n = rng.gen_range(1..=len.max(1));
    (0..n)
        .map(|_| {
            if rng.gen_bool(0.18) {
                let body = (0..rng.gen_range(1..=2)).map(|_| basic_op(rng, portable_hint)).collect();
                Op { k: "call".into(), cmd: false, args: operands(rng, 3, true), body }
            } else {
                basic_op(rng, portable_hint)
            }
        })
        .collect()
}

/// A command line; `@C` marks the command string, /tmp/script the file.
pub fn random_argv(rng: &mut StdRng) -> (Vec<String>, bool) {
    let mut argv = vec![pick(rng, &["yash", "yash", "yash", "sh", "/bin/sh", "-yash", "/usr/bin/yash", "bin/sh"]).to_string()];
    let mut portable = false;
    if rng.gen_bool(0.2) {
        argv.push("-o".into());
        argv.push("portable".into());
        portable = true;
    }
    for _ in 0..weighted(rng, &[40, 30, 20, 10]) {
        if rng.gen_bool(0.06) {
            argv.extend(match rng.gen_range(0..6) {
                0 => vec!["--noprofile".to_string()],
                1 => vec!["--norcfile".to_string()],
                2 => vec!["--profile".to_string(), "p".to_string()],
                3 => vec!["--rcfile=r".to_string()],
                4 => vec!["--nor".to_string()],
                _ => vec!["--help".to_string()],
            });
        } else {
            argv.extend(option_words(rng, true, portable));
        }
    }
    let sep = |rng: &mut StdRng, argv: &mut Vec<String>| {
        if rng.gen_bool(0.15) {
            argv.push(if rng.gen_bool(0.5) { "--".into() } else { "-".into() });
        }
    };
    match rng.gen_range(0..10) {
        0..=4 => {
            argv.push(if rng.gen_bool(0.8) { "-c".into() } else { "-ec".into() });
            sep(rng, &mut argv);
            argv.push("@C".into());
            if rng.gen_bool(0.7) {
                argv.push(pick(rng, &["nm", "", "-x", "sh"]).to_string());
                argv.extend(operands(rng, 4, false));
            }
        }
        5..=6 => {
            argv.push(if rng.gen_bool(0.8) { "-s".into() } else { "-us".into() });
            sep(rng, &mut argv);
            argv.extend(operands(rng, 4, false));
        }
        7..=8 => {
            sep(rng, &mut argv);
            argv.push("/tmp/script".into());
            argv.extend(operands(rng, 4, false));
        }
        _ => sep(rng, &mut argv),
    }
    (argv, portable)
}
