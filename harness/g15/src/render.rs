//! The text of a word (mirror of WText / BodyText of spec/WordSubst.tla; the
//! replay direction takes the text from TLC and only cross-checks this
//! renderer, the random direction has its rendering checked by Trace_WordSubst).
use serde_json::Value;

fn s(v: &Value) -> &str {
    v.as_str().unwrap()
}

fn bq_special(dq: bool, c: char) -> bool {
    matches!(c, '$' | '`' | '\\') || (dq && c == '"')
}

pub fn bq_esc(t: &str, esc: &str, dq: bool) -> String {
    let cs: Vec<char> = t.chars().collect();
    let mut out = String::new();
    for (i, &c) in cs.iter().enumerate() {
        if esc == "max" {
            if bq_special(dq, c) {
                out.push('\\');
            }
            out.push(c);
        } else if c == '`' {
            out.push_str("\\`");
        } else if c == '\\' && (i + 1 == cs.len() || bq_special(dq, cs[i + 1])) {
            out.push_str("\\\\");
        } else {
            out.push(c);
        }
    }
    out
}

fn par_text(u: &Value, dq: bool) -> String {
    let p = s(&u["p"]);
    match s(&u["m"]) {
        "none" => format!("${{{p}}}"),
        "len" => format!("${{#{p}}}"),
        "sw" => format!(
            "${{{p}{}{}{}}}",
            if u["colon"].as_bool().unwrap() { ":" } else { "" },
            s(&u["act"]),
            word_text(u["w"].as_array().unwrap(), dq)
        ),
        "trim" => {
            let side = s(&u["side"]);
            format!("${{{p}{side}{}{}}}", if u["long"].as_bool().unwrap() { side } else { "" }, word_text(u["w"].as_array().unwrap(), false))
        }
        m => panic!("bad modifier {m}"),
    }
}

pub fn word_text(units: &[Value], dq: bool) -> String {
    let mut out = String::new();
    for u in units {
        match s(&u["t"]) {
            "lit" => out.push_str(s(&u["c"])),
            "sp" => out.push(' '),
            "bs" => {
                out.push('\\');
                out.push_str(s(&u["c"]));
            }
            "sq" => {
                out.push('\'');
                out.push_str(s(&u["s"]));
                out.push('\'');
            }
            "dq" => {
                out.push('"');
                out.push_str(&word_text(u["u"].as_array().unwrap(), true));
                out.push('"');
            }
            "par" => out.push_str(&par_text(u, dq)),
            "cs" => {
                let b = u["b"].as_array().unwrap();
                let body = body_text(b);
                if s(&u["f"]) == "par" {
                    out.push_str("$(");
                    if !u["tight"].as_bool().unwrap() && !b.is_empty() && b[0]["c"] == "sub" {
                        out.push(' ');
                    }
                    out.push_str(&body);
                    out.push(')');
                } else {
                    out.push('`');
                    out.push_str(&bq_esc(&body, s(&u["esc"]), dq));
                    out.push('`');
                }
            }
            "bqraw" => {
                out.push_str("`put '");
                for t in u["r"].as_array().unwrap() {
                    out.push_str(s(t));
                }
                out.push_str("'`");
            }
            "ar" => {
                out.push_str("$((");
                out.push_str(&word_text(u["e"].as_array().unwrap(), true));
                out.push_str("))");
            }
            t => panic!("bad unit type {t}"),
        }
    }
    out
}

fn cmd_text(c: &Value) -> String {
    match s(&c["c"]) {
        k @ ("put" | "echo") => {
            let mut t = k.to_string();
            for w in c["ws"].as_array().unwrap() {
                t.push(' ');
                t.push_str(&word_text(w.as_array().unwrap(), false));
            }
            t
        }
        "asg" => format!("{}={}", s(&c["n"]), word_text(c["w"].as_array().unwrap(), false)),
        "st" => format!("status {}", s(&c["n"])),
        "exit" => format!("exit {}", s(&c["n"])),
        "sub" => format!("({})", body_text(c["b"].as_array().unwrap())),
        "nul" => "putnul".to_string(),
        k => panic!("bad command {k}"),
    }
}

pub fn body_text(b: &[Value]) -> String {
    b.iter().map(cmd_text).collect::<Vec<_>>().join("; ")
}

/// The text of word `w` in context `ctx` (inside a here-document everything is
/// scanned as inside double quotes).
pub fn text(ctx: &str, w: &[Value]) -> String {
    word_text(w, ctx == "here" || ctx == "hereq")
}
