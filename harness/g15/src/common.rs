//! Built-ins and helpers of the G15 harness: marks that delimit the cases of
//! a batched shell run, the output probe `put`, the observation `obs`.
use serde_json::{Value, json};
use std::cell::RefCell;
use std::pin::Pin;
use std::rc::Rc;
use yash_env::builtin::{Builtin, Result as BResult, Type};
use yash_env::io::Fd;
use yash_env::semantics::{ExitStatus, Field};
use yash_env::system::concurrency::ReadAll as _;
use yash_env::system::concurrency::WriteAll as _;
use yash_env::system::r#virtual::{FileBody, SystemState};
use yvcommon::shell::{self, VEnv, push_event};

thread_local! {
    static SYS: RefCell<Option<Rc<RefCell<SystemState>>>> = const { RefCell::new(None) };
    static ERR_POS: RefCell<usize> = const { RefCell::new(0) };
}

fn new_err_text() -> String {
    let data = SYS.with(|s| s.borrow().as_ref().and_then(|st| shell::file_content(st, "/dev/stderr"))).unwrap_or_default();
    let from = ERR_POS.with(|p| std::mem::replace(&mut *p.borrow_mut(), data.len()));
    String::from_utf8_lossy(&data[from.min(data.len())..]).into_owned()
}

/// Names in directory /r; the directory is emptied.
fn take_r_files() -> Vec<String> {
    let mut names = vec![];
    SYS.with(|s| {
        if let Some(st) = s.borrow().as_ref() {
            let st = st.borrow();
            if let Ok(inode) = st.file_system.get("/r") {
                let mut inode = inode.borrow_mut();
                if let FileBody::Directory { files } = &mut inode.body {
                    names = files.keys().map(|k| k.to_string_lossy().into_owned()).collect();
                    files.clear();
                }
            }
        }
    });
    names.sort();
    names
}

/// `mk ID`: end of case ID: records `$?` and what was written to standard error since the previous mark.
fn mk_main(env: &mut VEnv, args: Vec<Field>) -> Pin<Box<dyn Future<Output = BResult> + '_>> {
    Box::pin(async move {
        let id = args.first().map(|f| f.value.clone()).unwrap_or_default();
        let leftover = take_r_files();
        push_event(json!({"ev": "mk", "id": id, "st": env.exit_status.0, "err": new_err_text(), "leftover": leftover}));
        BResult::new(ExitStatus(0))
    })
}

/// `put [args...]`: writes the arguments, joined by one space, without a newline.
fn put_main(env: &mut VEnv, args: Vec<Field>) -> Pin<Box<dyn Future<Output = BResult> + '_>> {
    Box::pin(async move {
        let text = args.iter().map(|f| f.value.as_str()).collect::<Vec<_>>().join(" ");
        match env.system.write_all(Fd::STDOUT, text.as_bytes()).await {
            Ok(()) => BResult::new(ExitStatus(0)),
            Err(_) => BResult::new(ExitStatus(1)),
        }
    })
}

/// `putnul`: writes one NUL byte.
fn putnul_main(env: &mut VEnv, _args: Vec<Field>) -> Pin<Box<dyn Future<Output = BResult> + '_>> {
    Box::pin(async move {
        let _ = env.system.write_all(Fd::STDOUT, b"\0").await;
        BResult::new(ExitStatus(0))
    })
}

/// `slurp`: reads standard input to the end and records the text.
fn slurp_main(env: &mut VEnv, _args: Vec<Field>) -> Pin<Box<dyn Future<Output = BResult> + '_>> {
    Box::pin(async move {
        let data = env.system.read_all(Fd::STDIN).await.unwrap_or_default();
        push_event(json!({"ev": "slurp", "text": String::from_utf8_lossy(&data)}));
        BResult::new(ExitStatus(0))
    })
}

fn var(env: &VEnv, name: &str) -> Value {
    match env.variables.get_scalar(name) {
        Some(v) => json!({"set": true, "v": v}),
        None => json!({"set": false, "v": ""}),
    }
}

/// `obs`: records `$?`, the variables x, y, z, IFS and the names of the files in /r.
fn obs_main(env: &mut VEnv, _args: Vec<Field>) -> Pin<Box<dyn Future<Output = BResult> + '_>> {
    Box::pin(async move {
        push_event(json!({"ev": "obs", "q": env.exit_status.0.to_string(), "x": var(env, "x"), "y": var(env, "y"),
                          "z": var(env, "z"), "ifs": var(env, "IFS"), "files": take_r_files()}));
        BResult::new(ExitStatus(0))
    })
}

/// To be called from `ShellCfg.setup`.
pub fn register(env: &mut VEnv, st: &Rc<RefCell<SystemState>>) {
    SYS.with(|s| *s.borrow_mut() = Some(Rc::clone(st)));
    ERR_POS.with(|p| *p.borrow_mut() = 0);
    env.builtins.insert("mk", Builtin::new(Type::Mandatory, mk_main));
    env.builtins.insert("put", Builtin::new(Type::Mandatory, put_main));
    env.builtins.insert("putnul", Builtin::new(Type::Mandatory, putnul_main));
    env.builtins.insert("slurp", Builtin::new(Type::Mandatory, slurp_main));
    env.builtins.insert("obs", Builtin::new(Type::Mandatory, obs_main));
}

/// A value as a single-quoted shell string.
pub fn sq(v: &str) -> String {
    format!("'{}'", v.replace('\'', "'\\''"))
}

/// Parallel map with `threads` workers (order preserved).
pub fn par_map<T: Sync, R: Send>(items: &[T], threads: usize, f: impl Fn(&T) -> R + Sync) -> Vec<R> {
    use std::sync::Mutex;
    use std::sync::atomic::{AtomicUsize, Ordering};
    let next = AtomicUsize::new(0);
    let results: Mutex<Vec<Option<R>>> = Mutex::new((0..items.len()).map(|_| None).collect());
    std::thread::scope(|s| {
        for _ in 0..threads.max(1) {
            s.spawn(|| {
                loop {
                    let i = next.fetch_add(1, Ordering::SeqCst);
                    if i >= items.len() {
                        break;
                    }
                    let r = f(&items[i]);
                    results.lock().unwrap()[i] = Some(r);
                }
            });
        }
    });
    results.into_inner().unwrap().into_iter().map(|r| r.unwrap()).collect()
}
