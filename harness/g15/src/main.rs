fn main() {
    println!("stub");
}
