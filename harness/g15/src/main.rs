//! Conformance harness for specification-growth module G15 (see /verif/DESIGN.md 12.6):
//! command substitution and arithmetic expansion inside words (spec/WordSubst.tla).
//!
//! spec -> impl:  `replay` takes the lines TLC printed from Gen_WordSubst (text of the
//!                word, and per context x shell state the prescribed outcome), runs every
//!                case in the real shell on the simulated OS and reports each disagreement;
//! impl -> spec:  `random` records what the real shell does on seeded random words;
//!                Trace_WordSubst.tla judges the records;
//! `one`:         re-runs a single record and writes the trace record.
mod common;
mod render;
mod rnd;
mod run;

use std::io::Write as _;
use yvcommon::util;

fn one(args: &[String]) -> i32 {
    let mut line = String::new();
    std::io::BufRead::read_line(&mut util::open_in(args), &mut line).unwrap();
    let rec: serde_json::Value = serde_json::from_str(&line).expect("json");
    let mut out = util::open_out(args);
    let rc = run::one(&rec, &mut *out);
    out.flush().unwrap();
    rc
}

fn main() {
    yvcommon::real::maybe_child_main();
    if std::env::var_os("G15_LOUD").is_none() {
        util::quiet_panics();
    }
    let args: Vec<String> = std::env::args().collect();
    if args.len() < 2 {
        eprintln!("usage: yv-g15 <replay|random|one> [--in F] [--out F] [--n N] [--threads T]");
        std::process::exit(2);
    }
    let rest = &args[2..];
    let code = match args[1].as_str() {
        "replay" => run::replay(rest),
        "random" => rnd::random(rest),
        "one" => one(rest),
        other => {
            eprintln!("unknown subcommand {other}");
            2
        }
    };
    std::process::exit(code);
}
