//! Running cases (a word text in a context and a shell state) on the real
//! shell (simulated OS) and observing fields, variables and `$?`.
use crate::common::{self, par_map, sq};
use crate::render;
use serde_json::{Value, json};
use std::cell::RefCell;
use std::collections::BTreeMap;
use std::io::{BufRead, Write};
use std::rc::Rc;
use yash_env::system::r#virtual::SystemState;
use yvcommon::sched::Outcome;
use yvcommon::shell::{FileSpec, ShellCfg, VEnv, run_shell};
use yvcommon::util;

#[derive(Clone)]
pub struct Case {
    pub ctx: String,
    pub text: String,
    pub st: Value,
    /// the fields the specification prescribes (needed by the `case` contexts, which can only test equality)
    pub exp: Option<Vec<String>>,
}

fn strings(v: &Value) -> Vec<String> {
    v.as_array().map(|a| a.iter().map(|s| s.as_str().unwrap_or("").to_string()).collect()).unwrap_or_default()
}

fn setup(st: &Value) -> String {
    let mut s = String::new();
    for (name, key) in [("x", "x"), ("y", "y"), ("IFS", "ifs")] {
        if st[key]["set"].as_bool().unwrap() {
            s.push_str(&format!("{name}={}\n", sq(st[key]["v"].as_str().unwrap())));
        } else {
            s.push_str(&format!("unset {name}\n"));
        }
    }
    s.push_str("unset z\nset --");
    for p in strings(&st["pos"]) {
        s.push(' ');
        s.push_str(&sq(&p));
    }
    s.push('\n');
    if st["nounset"].as_bool().unwrap() {
        s.push_str("set -u\n");
    }
    s.push_str(&format!("status {}\n", st["st"].as_str().unwrap()));
    s
}

fn case_script(c: &Case, i: usize) -> String {
    let t = &c.text;
    let cmd = match c.ctx.as_str() {
        "arg" => format!("probe {t}"),
        "cmdname" => format!("{t} x1"),
        "for" => format!("for i in {t}; do probe \"$i\"; done"),
        "assign" => format!("z={t}"),
        "asgseq" => format!("z={t} y=a$x"),
        "asgcs" => format!("y=$(put b; status 5) z={t}"),
        "export" => format!("export z={t}"),
        "noname" => t.to_string(),
        "redir" => format!(">/r/{t}"),
        "case" => {
            let e = c.exp.as_ref().expect("case context needs the expected string");
            format!("case {t} in ({}) probe Y;; (*) probe N;; esac", sq(e.first().map(|s| s.as_str()).unwrap_or("")))
        }
        "pat" => {
            let e = c.exp.as_ref().expect("pat context needs the subjects");
            format!(
                "(case {} in ({t}) probe Y;; (*) probe N;; esac; status 0) || exit 9; status {}; (case {} in ({t}) probe Y;; (*) probe N;; esac; status 0) || exit 9",
                sq(e.first().map(|s| s.as_str()).unwrap_or("")),
                c.st["st"].as_str().unwrap(),
                sq(e.get(2).map(|s| s.as_str()).unwrap_or(""))
            )
        }
        "here" => format!("slurp <<E_O_F\n{t}\nE_O_F"),
        "hereq" => format!("<<E_O_F\n{t}\nE_O_F"),
        other => panic!("bad context {other}"),
    };
    format!("({}{cmd}\nobs)\nmk {i}\n", setup(&c.st))
}

fn args_of(p: &Value) -> Vec<String> {
    strings(&p["args"])
}

/// Observation of one case from the events before its mark.
fn observe(c: &Case, events: &[Value], mark: &Value) -> Value {
    let st = mark["st"].as_i64().unwrap_or(-1);
    let obs: Vec<&Value> = events.iter().filter(|e| e["ev"] == "obs").collect();
    let probes: Vec<&Value> = events.iter().filter(|e| e["ev"] == "probe").collect();
    let bad = |k: &str| json!({"k": k, "f": [], "x": {"set": false, "v": ""}, "y": {"set": false, "v": ""},
                                "ifs": {"set": false, "v": ""}, "q": st.to_string(), "stderr": mark["err"]});
    if obs.is_empty() {
        let diag = !mark["err"].as_str().unwrap_or("").is_empty();
        return bad(if st != 0 && diag { "err" } else if st != 0 { "errsilent" } else { "odd-noobs" });
    }
    if obs.len() != 1 {
        return bad("odd-obs");
    }
    let o = obs[0];
    let f: Vec<String> = match c.ctx.as_str() {
        "arg" | "cmdname" => {
            if probes.len() != 1 {
                return bad("odd-probes");
            }
            args_of(probes[0])
        }
        "for" => {
            let mut f = vec![];
            for p in &probes {
                let a = args_of(p);
                if a.len() != 1 {
                    return bad("odd-probes");
                }
                f.push(a[0].clone());
            }
            f
        }
        "assign" | "asgseq" | "asgcs" | "export" => {
            if !o["z"]["set"].as_bool().unwrap() {
                return bad("odd-z");
            }
            vec![o["z"]["v"].as_str().unwrap().to_string()]
        }
        "noname" | "hereq" => {
            if !probes.is_empty() {
                return bad("odd-probes");
            }
            vec![]
        }
        "redir" => strings(&o["files"]),
        "case" => {
            if probes.len() != 1 {
                return bad("odd-probes");
            }
            let e = c.exp.as_ref().unwrap();
            if args_of(probes[0]) == ["Y"] { vec![e.first().cloned().unwrap_or_default()] } else { vec!["<word of case is not this string>".to_string()] }
        }
        "pat" => {
            if probes.len() != 2 {
                return bad("odd-probes");
            }
            let e = c.exp.as_ref().unwrap();
            vec![e.first().cloned().unwrap_or_default(), args_of(probes[0])[0].clone(), e.get(2).cloned().unwrap_or_default(), args_of(probes[1])[0].clone()]
        }
        "here" => {
            let s: Vec<&Value> = events.iter().filter(|e| e["ev"] == "slurp").collect();
            if s.len() != 1 {
                return bad("odd-slurp");
            }
            match s[0]["text"].as_str().unwrap().strip_suffix('\n') {
                Some(t) => vec![t.to_string()],
                None => return bad("odd-slurp"),
            }
        }
        _ => unreachable!(),
    };
    json!({"k": "ok", "f": f, "x": o["x"], "y": o["y"], "ifs": o["ifs"], "q": o["q"]})
}

/// Runs `cases` in one shell (each in a subshell of its own).  The working
/// directory /w holds d1/ f1 "f2 x" (pathname expansion is on); /r is the
/// directory of the redirection context.
pub fn run_cases(cases: &[Case]) -> Result<Vec<Value>, String> {
    let mut script = String::new();
    for (i, c) in cases.iter().enumerate() {
        script.push_str(&case_script(c, i));
    }
    let mut cfg = ShellCfg::command(&script);
    cfg.step_limit = 20_000_000;
    cfg.cwd = Some("/w".to_string());
    cfg.files = vec![
        FileSpec::Dir { path: "/w".into() },
        FileSpec::Dir { path: "/r".into() },
        FileSpec::Dir { path: "/w/d1".into() },
        FileSpec::Regular { path: "/w/f1".into(), content: vec![], mode: 0o644 },
        FileSpec::Regular { path: "/w/f2 x".into(), content: vec![], mode: 0o644 },
    ];
    cfg.setup = Some(Box::new(move |env: &mut VEnv, state: &Rc<RefCell<SystemState>>| {
        common::register(env, state);
    }));
    let res = run_shell(cfg);
    let aborted = |why: &str| json!({"k": why, "f": [], "x": {"set": false, "v": ""}, "y": {"set": false, "v": ""},
                                     "ifs": {"set": false, "v": ""}, "q": "-1"});
    // marks 0..n-1 in order; a mark that is missing means that case n made the shell give up
    // (a syntax error ends a non-interactive shell) or swallowed the following lines
    let mut groups = vec![];
    let mut cur = vec![];
    for e in &res.events {
        if e["ev"] == "mk" {
            let id: usize = e["id"].as_str().unwrap_or("").parse().map_err(|_| format!("bad mark {e}"))?;
            if id != groups.len() {
                break;
            }
            groups.push((std::mem::take(&mut cur), e.clone()));
        } else {
            cur.push(e.clone());
        }
    }
    let mut out: Vec<Value> = groups.iter().enumerate().map(|(i, (ev, mk))| observe(&cases[i], ev, mk)).collect();
    if out.len() != cases.len() {
        let what = match &res.outcome {
            Outcome::Completed => "aborted".to_string(),
            Outcome::Panic(m) => format!("panic: {m}"),
            Outcome::Deadlock => "deadlock".to_string(),
            _ => "steplimit".to_string(),
        };
        out.push(aborted(&what));
    }
    Ok(out)
}

/// Runs all cases, re-running what follows a case that ended a batch abnormally.
pub fn run_all(cases: &[Case]) -> Result<Vec<Value>, String> {
    let mut out = vec![];
    while out.len() < cases.len() {
        let got = run_cases(&cases[out.len()..])?;
        if got.is_empty() {
            return Err("no progress".into());
        }
        out.extend(got);
    }
    Ok(out)
}

/// Agree of spec/WordSubst.tla.
pub fn agree(obs: &Value, exp: &Value) -> bool {
    if exp["k"] == "err" {
        return obs["k"] == "err";
    }
    if exp["k"] != "ok" || obs["k"] != "ok" || obs["f"] != exp["f"] {
        return false;
    }
    if exp["sv"].as_bool().unwrap() && (obs["x"] != exp["x"] || obs["y"] != exp["y"] || obs["ifs"] != exp["ifs"]) {
        return false;
    }
    match exp["q"].as_str().unwrap() {
        "" => true,
        "nz" => obs["q"] != "0",
        q => obs["q"] == q,
    }
}

const BATCH: usize = 120;

fn feature_tags(ctx: &str, w: &[Value], exp: &Value, tags: &mut BTreeMap<String, usize>) {
    fn walk(units: &[Value], dq: bool, tags: &mut BTreeMap<String, usize>) {
        for u in units {
            let q = if dq { "dq" } else { "uq" };
            match u["t"].as_str().unwrap() {
                "dq" => walk(u["u"].as_array().unwrap(), true, tags),
                "par" if u.get("w").is_some() => {
                    let w = u["w"].as_array().unwrap();
                    if w.iter().any(|v| matches!(v["t"].as_str().unwrap(), "cs" | "ar")) {
                        *tags.entry(format!("in-${{{}}}/{q}", u["m"].as_str().unwrap())).or_insert(0) += 1;
                    }
                    walk(w, dq, tags);
                }
                "cs" => {
                    let f = if u["f"] == "par" { if u["tight"].as_bool().unwrap() { "tight".to_string() } else { "par".to_string() } } else { format!("bq-{}", u["esc"].as_str().unwrap()) };
                    *tags.entry(format!("cs/{f}/{q}")).or_insert(0) += 1;
                    fn body(b: &[Value], tags: &mut BTreeMap<String, usize>) {
                        for c in b {
                            *tags.entry(format!("cmd/{}", c["c"].as_str().unwrap())).or_insert(0) += 1;
                            match c["c"].as_str().unwrap() {
                                "put" | "echo" => {
                                    for w in c["ws"].as_array().unwrap() {
                                        for v in w.as_array().unwrap() {
                                            if matches!(v["t"].as_str().unwrap(), "cs" | "ar") {
                                                *tags.entry("nested-in-body".to_string()).or_insert(0) += 1;
                                            }
                                        }
                                    }
                                }
                                "sub" => body(c["b"].as_array().unwrap(), tags),
                                _ => {}
                            }
                        }
                    }
                    body(u["b"].as_array().unwrap(), tags);
                }
                "ar" => {
                    *tags.entry(format!("ar/{q}")).or_insert(0) += 1;
                    for v in u["e"].as_array().unwrap() {
                        if matches!(v["t"].as_str().unwrap(), "cs" | "ar" | "par") {
                            *tags.entry(format!("ar-holds-{}", v["t"].as_str().unwrap())).or_insert(0) += 1;
                        }
                    }
                }
                "bqraw" => *tags.entry(format!("bqraw/{q}")).or_insert(0) += 1,
                _ => {}
            }
        }
    }
    walk(w, ctx == "here" || ctx == "hereq", tags);
    *tags.entry(format!("ctx/{ctx}/{}", exp["k"].as_str().unwrap())).or_insert(0) += 1;
    if exp["k"] == "ok" {
        let n = exp["f"].as_array().unwrap().len();
        *tags.entry(format!("fields={}", if n > 2 { ">2".to_string() } else { n.to_string() })).or_insert(0) += 1;
        let q = exp["q"].as_str().unwrap();
        if !q.is_empty() {
            *tags.entry(format!("status/{}", if q == "0" || q == "nz" { q } else { "n" })).or_insert(0) += 1;
        }
    }
}

pub fn replay(args: &[String]) -> i32 {
    let threads = util::opt_usize(args, "--threads", 8);
    let mut hdr: Option<Value> = None;
    let mut cases: Vec<(Case, Value, Value)> = vec![]; // case, expected outcome, word
    let (mut nwords, mut nskipped, mut render_bad) = (0usize, 0usize, 0usize);
    let mut tags: BTreeMap<String, usize> = BTreeMap::new();
    for line in util::open_in(args).lines() {
        let line = line.unwrap();
        if line.trim().is_empty() {
            continue;
        }
        let v: Value = serde_json::from_str(&line).expect("json");
        if v.get("hdr").is_some() {
            hdr = Some(v);
            continue;
        }
        nwords += 1;
        nskipped += v["ns"].as_u64().unwrap() as usize;
        let h = hdr.as_ref().expect("header line first");
        let w = v["w"].as_array().unwrap();
        if render::text("arg", w) != v["t"].as_str().unwrap() || render::text("here", w) != v["th"].as_str().unwrap() {
            render_bad += 1;
            if render_bad <= 3 {
                eprintln!("renderer disagrees with the specification: {} vs {}", render::text("arg", w), v["t"]);
            }
        }
        for o in v["o"].as_array().unwrap() {
            let ctx = h["ctx"][o[0].as_u64().unwrap() as usize - 1].as_str().unwrap().to_string();
            let st = h["states"][o[1].as_u64().unwrap() as usize - 1].clone();
            let exp = o[2].clone();
            let text = if ctx == "here" || ctx == "hereq" { v["th"].as_str().unwrap() } else { v["t"].as_str().unwrap() }.to_string();
            feature_tags(&ctx, w, &exp, &mut tags);
            cases.push((Case { ctx, text, st, exp: Some(strings(&exp["f"])) }, exp, v["w"].clone()));
        }
    }
    if hdr.is_none() {
        eprintln!("no header line");
        return 2;
    }
    if render_bad > 0 {
        eprintln!("tool error: {render_bad} words rendered differently by the harness");
        return 2;
    }
    let items: Vec<&[(Case, Value, Value)]> = cases.chunks(BATCH).collect();
    let results = par_map(&items, threads, |chunk| {
        let cs: Vec<Case> = chunk.iter().map(|c| c.0.clone()).collect();
        run_all(&cs)
    });
    let mut out = util::open_out(args);
    let (mut ncases, mut mism, mut nerr) = (0usize, 0usize, 0usize);
    let mut per_ctx: BTreeMap<String, usize> = BTreeMap::new();
    let mut samples = vec![];
    for (chunk, res) in items.iter().zip(results) {
        let obs = match res {
            Ok(o) => o,
            Err(e) => {
                eprintln!("tool error: {e}");
                return 2;
            }
        };
        for ((c, exp, w), o) in chunk.iter().zip(obs) {
            ncases += 1;
            *per_ctx.entry(c.ctx.clone()).or_insert(0) += 1;
            if exp["k"] == "err" {
                nerr += 1;
            }
            if samples.len() < 5 && ncases % 1777 == 3 {
                samples.push(json!({"ctx": c.ctx, "text": c.text, "st": c.st, "expected": exp}));
            }
            if !agree(&o, exp) {
                mism += 1;
                writeln!(out, "{}", json!({"ctx": c.ctx, "w": w, "text": c.text, "st": c.st, "exp": exp, "obs": o})).unwrap();
            }
        }
    }
    out.flush().unwrap();
    println!(
        "{}",
        json!({"words": nwords, "cases": ncases, "skipped": nskipped, "expected_errors": nerr, "mismatches": mism,
               "runs": items.len(), "per_ctx": per_ctx, "features": tags, "samples": samples})
    );
    0
}

/// Re-runs one record ({ctx, w, st[, exp]}) and writes the trace record.
pub fn one(rec: &Value, out: &mut dyn Write) -> i32 {
    let w = rec["w"].as_array().unwrap();
    let ctx = rec["ctx"].as_str().unwrap().to_string();
    let text = render::text(&ctx, w);
    let exp = rec.get("exp").and_then(|e| e.get("f")).map(strings);
    let c = Case { ctx: ctx.clone(), text: text.clone(), st: rec["st"].clone(), exp };
    match run_all(std::slice::from_ref(&c)) {
        Ok(o) => {
            writeln!(out, "{}", json!({"ctx": ctx, "w": rec["w"], "text": text, "st": rec["st"], "obs": trace_obs(&o[0])})).unwrap();
            0
        }
        Err(e) => {
            eprintln!("tool error: {e}");
            2
        }
    }
}

/// The observation as Trace_WordSubst.tla reads it (mono-typed fields only).
pub fn trace_obs(o: &Value) -> Value {
    json!({"k": o["k"], "f": o["f"], "x": o["x"], "y": o["y"], "ifs": o["ifs"], "q": o["q"]})
}
