//! impl -> spec: seeded random words (deeper nesting, longer bodies, random
//! arithmetic expressions, more shell states than the enumeration) are run
//! on the real shell; Trace_WordSubst.tla judges every record (and checks the
//! rendering of the word).
use crate::common::par_map;
use crate::render;
use crate::run::{Case, run_all, trace_obs};
use rand::rngs::StdRng;
use rand::{Rng, SeedableRng};
use serde_json::{Value, json};
use std::io::Write;
use yvcommon::util;

fn pick<'a>(rng: &mut StdRng, xs: &[&'a str]) -> &'a str {
    xs[rng.gen_range(0..xs.len())]
}

fn lit(s: &str) -> Vec<Value> {
    s.chars().map(|c| json!({"t": "lit", "c": c.to_string()})).collect()
}

const OUT_CHARS: &[&str] = &["a", "b", " ", " ", "\n", "\n", ":", "*", "$", "\\", "\"", "~", "1", "-", "\t", "x", "?"];
const VALS: &[&str] = &["", "a", "a b", "5", "-3", "12", "010", "*", "a:b", " ", "1+2", "0x1f", "foo", "7", "0", "+4", "a\nb", "f?"];
const IFSS: &[&str] = &[" \t\n", "", ":", " :", "1", "-", "a", "+", "\n"];
const NUMS: &[&str] = &["0", "1", "2", "3", "7", "10", "12", "010", "0x1f", "100", "9223372036854775807"];
const BINOPS: &[&str] = &["+", "-", "*", "/", "%", "<<", ">>", "<", ">", "<=", ">=", "==", "!=", "&", "|", "^", "&&", "||"];
const ASGOPS: &[&str] = &["=", "+=", "-=", "*=", "/=", "%=", "<<=", ">>=", "&=", "|=", "^="];

fn random_string(rng: &mut StdRng, chars: &[&str], max: usize) -> String {
    let n = rng.gen_range(0..=max);
    (0..n).map(|_| pick(rng, chars)).collect()
}

fn sq_unit(rng: &mut StdRng) -> Value {
    let s = random_string(rng, OUT_CHARS, 5);
    json!({"t": "sq", "s": s})
}

/// A word used inside a body, a parameter expansion or at the top: a sequence of units.
fn word(rng: &mut StdRng, depth: u32, dq: bool, top: bool) -> Vec<Value> {
    let n = if depth == 0 { 1 } else { rng.gen_range(1..=3) };
    let mut w = vec![];
    for _ in 0..n {
        w.push(unit(rng, depth, dq, top));
    }
    w
}

fn param(rng: &mut StdRng, depth: u32, dq: bool) -> Value {
    let p = pick(rng, &["x", "x", "x", "y", "y", "?", "1", "#", "IFS"]);
    let r = rng.gen_range(0..100);
    if r < 55 || depth == 0 {
        let p = if rng.gen_range(0..12) == 0 { pick(rng, &["@", "*"]) } else { p };
        json!({"t": "par", "p": p, "m": "none"})
    } else if r < 60 {
        json!({"t": "par", "p": pick(rng, &["x", "y"]), "m": "len"})
    } else if r < 85 {
        let p = pick(rng, &["x", "y", "y", "1"]);
        let w = if rng.gen_range(0..6) == 0 { vec![] } else { word(rng, depth - 1, dq, false) };
        json!({"t": "par", "p": p, "m": "sw", "colon": rng.gen_bool(0.4), "act": pick(rng, &["-", "-", "=", "+", "?"]), "w": w})
    } else {
        json!({"t": "par", "p": pick(rng, &["x", "y"]), "m": "trim", "side": pick(rng, &["#", "%"]), "long": rng.gen_bool(0.5),
               "w": word(rng, depth - 1, false, false)})
    }
}

fn body(rng: &mut StdRng, depth: u32) -> Vec<Value> {
    let n = match rng.gen_range(0..20) {
        0 => 0,
        1..=11 => 1,
        12..=17 => 2,
        _ => 3,
    };
    let mut b = vec![];
    for _ in 0..n {
        let r = rng.gen_range(0..100);
        let c = if r < 55 {
            let k = rng.gen_range(0..=2);
            let ws: Vec<Value> = (0..k).map(|_| json!(word(rng, depth.saturating_sub(1), false, false))).collect();
            json!({"c": pick(rng, &["put", "put", "echo"]), "ws": ws})
        } else if r < 68 {
            json!({"c": "asg", "n": pick(rng, &["x", "y", "IFS"]), "w": word(rng, depth.saturating_sub(1), false, false)})
        } else if r < 80 {
            json!({"c": "st", "n": pick(rng, &["0", "1", "3", "42"])})
        } else if r < 88 {
            json!({"c": "exit", "n": pick(rng, &["0", "2", "7"])})
        } else if r < 99 && depth > 0 {
            let mut inner = body(rng, depth - 1);
            if inner.is_empty() {
                inner.push(json!({"c": "put", "ws": [lit("a")]}));
            }
            json!({"c": "sub", "b": inner})
        } else if r == 99 {
            json!({"c": "nul"})
        } else {
            json!({"c": "put", "ws": [[sq_unit(rng)]]})
        };
        b.push(c);
    }
    b
}

fn cmdsub(rng: &mut StdRng, depth: u32) -> Value {
    let b = body(rng, depth);
    let f = if rng.gen_bool(0.6) { "par" } else { "bq" };
    json!({"t": "cs", "f": f, "tight": f == "par" && rng.gen_range(0..5) == 0, "esc": pick(rng, &["min", "max"]), "b": b})
}

/// Units of an arithmetic expression generated from the C grammar (mostly valid).
fn expr(rng: &mut StdRng, depth: u32, out: &mut Vec<Value>) {
    let sp = |rng: &mut StdRng, out: &mut Vec<Value>| {
        if rng.gen_range(0..4) == 0 {
            out.extend(lit(pick(rng, &[" ", " ", "\t", "\n"])));
        }
    };
    sp(rng, out);
    let r = rng.gen_range(0..100);
    if depth == 0 || r < 35 {
        // an operand
        match rng.gen_range(0..20) {
            0..=6 => out.extend(lit(pick(rng, NUMS))),
            7..=10 => out.extend(lit(pick(rng, &["x", "y"]))),
            11..=12 => out.push(json!({"t": "par", "p": pick(rng, &["x", "y"]), "m": "none"})),
            13 => out.push(param(rng, 1, true)),
            14..=15 => out.push(json!({"t": "cs", "f": pick(rng, &["par", "bq"]), "tight": false, "esc": pick(rng, &["min", "max"]),
                                       "b": [{"c": pick(rng, &["put", "echo"]), "ws": [lit(pick(rng, NUMS))]}]})),
            16 => out.push(cmdsub(rng, 1)),
            17 => {
                let mut e = vec![];
                expr(rng, depth.saturating_sub(1), &mut e);
                out.push(json!({"t": "ar", "e": e}));
            }
            18 => out.push(json!({"t": "bs", "c": pick(rng, &["$", "\\", "a"])})),
            _ => out.extend(lit(pick(rng, &["08", "1a", "z", "", "@", "1.5", ","]))),
        }
    } else if r < 65 {
        expr(rng, depth - 1, out);
        sp(rng, out);
        out.extend(lit(pick(rng, BINOPS)));
        expr(rng, depth - 1, out);
    } else if r < 75 {
        out.extend(lit("("));
        expr(rng, depth - 1, out);
        out.extend(lit(")"));
    } else if r < 83 {
        out.extend(lit(pick(rng, &["-", "+", "!", "~", "- ", "++", "--"])));
        expr(rng, depth - 1, out);
    } else if r < 91 {
        out.extend(lit(pick(rng, &["x", "y"])));
        sp(rng, out);
        out.extend(lit(pick(rng, ASGOPS)));
        expr(rng, depth - 1, out);
    } else if r < 97 {
        expr(rng, depth - 1, out);
        out.extend(lit("?"));
        expr(rng, depth - 1, out);
        out.extend(lit(":"));
        expr(rng, depth - 1, out);
    } else {
        // damaged syntax
        expr(rng, depth - 1, out);
        out.extend(lit(pick(rng, &["+", " 1", "=", "?", "/", "1 ("])));
    }
    sp(rng, out);
}

fn unit(rng: &mut StdRng, depth: u32, dq: bool, top: bool) -> Value {
    let r = rng.gen_range(0..100);
    if depth > 0 && r < 30 {
        cmdsub(rng, depth - 1)
    } else if depth > 0 && r < 48 {
        let mut e = vec![];
        expr(rng, 2, &mut e);
        json!({"t": "ar", "e": e})
    } else if r < 52 {
        let n = rng.gen_range(1..=3);
        let toks: Vec<&str> = (0..n).map(|_| pick(rng, &["\\\\", "\\$", "\\`", "\\\"", "\\a", "\\", "$", "\"", "a", " "])).collect();
        json!({"t": "bqraw", "r": toks})
    } else if r < 66 {
        param(rng, depth, dq)
    } else if r < 74 && !dq {
        if rng.gen_bool(0.5) || depth == 0 { sq_unit(rng) } else { json!({"t": "dq", "u": word(rng, depth - 1, true, false)}) }
    } else if r < 80 {
        let c = if dq { pick(rng, &["$", "\\", "\"", "a", "`"]) } else { pick(rng, &[" ", "$", "\\", "a", "*", "\"", "'"]) };
        json!({"t": "bs", "c": c})
    } else if r < 84 && top && !dq {
        json!({"t": "sp"})
    } else {
        let c = if dq { pick(rng, &["a", "b", " ", ":", "*", "'", "1"]) } else { pick(rng, &["a", "b", ":", "*", "?", "1", "=", "-", "+", "f"]) };
        json!({"t": "lit", "c": c})
    }
}

fn random_state(rng: &mut StdRng) -> Value {
    let val = |rng: &mut StdRng| {
        if rng.gen_range(0..5) == 0 { json!({"set": false, "v": ""}) } else { json!({"set": true, "v": pick(rng, VALS)}) }
    };
    let x = val(rng);
    let y = val(rng);
    let ifs = if rng.gen_range(0..6) == 0 { json!({"set": false, "v": ""}) } else { json!({"set": true, "v": pick(rng, IFSS)}) };
    let pos: Vec<&str> = match rng.gen_range(0..5) {
        0 | 1 => vec![],
        2 => vec!["p q"],
        3 => vec!["", "a"],
        _ => vec!["1", "2", "a:b"],
    };
    json!({"x": x, "y": y, "pos": pos, "ifs": ifs, "nounset": rng.gen_range(0..7) == 0, "st": pick(rng, &["0", "0", "1", "3"])})
}

const CTXS: &[&str] = &["arg", "arg", "arg", "for", "assign", "assign", "asgseq", "asgcs", "export", "noname", "redir", "here", "here", "hereq"];

pub fn random(args: &[String]) -> i32 {
    let n = util::opt_usize(args, "--n", 1000);
    let threads = util::opt_usize(args, "--threads", 8);
    let mut rng = StdRng::seed_from_u64(util::seed().wrapping_mul(0x9E37_79B9).wrapping_add(0x6f15));
    let mut recs: Vec<(Case, Value)> = vec![];
    for _ in 0..n {
        let ctx = pick(&mut rng, CTXS);
        let top = matches!(ctx, "arg" | "for" | "noname");
        let depth = rng.gen_range(1..=3);
        let here = ctx == "here" || ctx == "hereq";
        let mut w = word(&mut rng, depth, here, top);
        if here {
            // inside a here-document single and double quotes are literal text: keep the units simple
            w.retain(|u| u["t"] != "sq");
        }
        while w.first().is_some_and(|u| u["t"] == "sp") {
            w.remove(0);
        }
        while w.last().is_some_and(|u| u["t"] == "sp") {
            w.pop();
        }
        if w.is_empty() {
            w.push(cmdsub(&mut rng, 1));
        }
        let st = random_state(&mut rng);
        let text = render::text(ctx, &w);
        recs.push((Case { ctx: ctx.to_string(), text, st, exp: None }, json!(w)));
    }
    let items: Vec<&[(Case, Value)]> = recs.chunks(60).collect();
    let results = par_map(&items, threads, |chunk| {
        let cs: Vec<Case> = chunk.iter().map(|c| c.0.clone()).collect();
        run_all(&cs)
    });
    let mut out = util::open_out(args);
    let mut total = 0usize;
    for (chunk, res) in items.iter().zip(results) {
        let obs = match res {
            Ok(o) => o,
            Err(e) => {
                eprintln!("tool error: {e}");
                return 2;
            }
        };
        for ((c, w), o) in chunk.iter().zip(obs) {
            total += 1;
            writeln!(out, "{}", json!({"ctx": c.ctx, "w": w, "text": c.text, "st": c.st, "obs": trace_obs(&o)})).unwrap();
        }
    }
    out.flush().unwrap();
    println!("{}", json!({"records": total}));
    0
}
