//! Conformance harness for property C01 (word expansion), see /verif/DESIGN.md.
//!
//! spec -> impl:  `replay` / `read-replay` take the vectors TLC enumerated from
//!                spec/Expand.tla (word AST, state, allowed outcomes), run them in
//!                the real shell and report every disagreement;
//! impl -> spec:  `random` / `read-random` record what the real shell does on
//!                random larger inputs; spec/Trace_Expand.tla judges the records.
mod ast;
mod run;

use ast::{Ctx, Render};
use rand::rngs::StdRng;
use rand::{Rng, SeedableRng};
use serde_json::{Value, json};
use std::collections::BTreeMap;
use std::io::{BufRead, Write};
use std::sync::Mutex;
use std::sync::atomic::{AtomicUsize, Ordering};
use yvcommon::util;

fn agrees(obs: &Value, out: &Value) -> bool {
    match out["k"].as_str().unwrap() {
        "ok" => {
            obs["k"] == "ok" && obs["f"] == out["f"] && obs["x"] == out["x"] && obs["y"] == out["y"] && obs["ifs"] == out["ifs"]
        }
        kind => {
            obs["k"] == "err"
                && obs["status"].as_i64().unwrap_or(0) != 0
                && (kind != "vacant"
                    || out["msg"].as_str().unwrap().is_empty()
                    || obs["stderr"].as_str().unwrap().contains(out["msg"].as_str().unwrap()))
        }
    }
}

/// Feature tags of a vector (which rules of the specification it exercises),
/// counted for the evidence file.
fn lookup_class(p: &str, st: &Value) -> &'static str {
    let of = |v: Option<&str>| match v {
        None => "unset",
        Some("") => "empty",
        Some(_) => "nonempty",
    };
    match p {
        "x" | "y" => of(if st[p]["set"].as_bool().unwrap() { st[p]["v"].as_str() } else { None }),
        "IFS" => of(if st["ifs"]["set"].as_bool().unwrap() { st["ifs"]["v"].as_str() } else { None }),
        "1" | "2" => {
            let i: usize = p.parse().unwrap();
            of(st["pos"].as_array().unwrap().get(i - 1).and_then(|v| v.as_str()))
        }
        _ => "nonempty",
    }
}

fn add_tag(tags: &mut BTreeMap<String, usize>, t: String) {
    *tags.entry(t).or_insert(0) += 1;
}

fn feature_tags(units: &[Value], st: &Value, dq: bool, tags: &mut BTreeMap<String, usize>) {
    let q = if dq { "dq" } else { "uq" };
    for u in units {
        match u["t"].as_str().unwrap() {
            "lit" => add_tag(tags, format!("lit/{q}")),
            "bs" => add_tag(tags, format!("bs/{q}")),
            "sq" => add_tag(tags, "sq".to_string()),
            "dq" => {
                add_tag(tags, if u["u"].as_array().unwrap().is_empty() { "dq-empty".into() } else { "dq".into() });
                feature_tags(u["u"].as_array().unwrap(), st, true, tags);
            }
            _ => {
                let p = u["p"].as_str().unwrap();
                let cls = lookup_class(p, st);
                let npos = st["pos"].as_array().unwrap().len().min(2);
                match u["m"].as_str().unwrap() {
                    "none" => match p {
                        "@" | "*" => add_tag(tags, format!("${p}/{q}/npos={npos}")),
                        "#" | "?" => add_tag(tags, format!("${p}")),
                        _ => add_tag(tags, format!("$par/{q}/{cls}")),
                    },
                    "len" => add_tag(tags, format!("len/{cls}")),
                    "sw" => {
                        let c = if u["colon"].as_bool().unwrap() { ":" } else { "" };
                        add_tag(tags, format!("sw{c}{}/{q}/{cls}", u["act"].as_str().unwrap()));
                        feature_tags(u["w"].as_array().unwrap(), st, dq, tags);
                    }
                    _ => {
                        let l = if u["long"].as_bool().unwrap() { u["side"].as_str().unwrap() } else { "" };
                        add_tag(tags, format!("trim{}{l}/{q}/{cls}", u["side"].as_str().unwrap()));
                        feature_tags(u["w"].as_array().unwrap(), st, false, tags);
                    }
                }
            }
        }
    }
}

fn outcome_tags(st: &Value, outs: &[Value], tags: &mut BTreeMap<String, usize>) {
    let mut add = |t: String| *tags.entry(t).or_insert(0) += 1;
    let o = &outs[0];
    if outs.len() > 1 {
        add("out/two-allowed".into());
    }
    match o["k"].as_str().unwrap() {
        "ok" => {
            let n = o["f"].as_array().unwrap().len();
            add(format!("out/fields={}", if n > 2 { ">2".to_string() } else { n.to_string() }));
            if o["f"].as_array().unwrap().iter().any(|f| f == "") {
                add("out/has-empty-field".into());
            }
            if o["x"] != st["x"] || o["y"] != st["y"] {
                add("out/assigned".into());
            }
            if o["ifs"] != st["ifs"] {
                add("out/assigned-IFS".into());
            }
        }
        k => add(format!("out/err-{k}")),
    }
    if st["nounset"].as_bool().unwrap() {
        add("state/nounset".into());
    }
    let ifs = &st["ifs"];
    add(format!("state/ifs={}", if ifs["set"].as_bool().unwrap() { format!("{:?}", ifs["v"].as_str().unwrap()) } else { "unset".into() }));
}

struct Summary {
    cases: usize,
    ok: usize,
    errors: usize,
    skipped: usize,
    ambiguous: usize,
    fields: usize,
    mismatches: usize,
    samples: Vec<Value>,
    tags: BTreeMap<String, usize>,
}

fn write_lines(args: &[String], lines: Vec<String>) {
    let mut w = util::open_out(args);
    for l in lines {
        writeln!(w, "{l}").unwrap();
    }
    w.flush().unwrap();
}

fn threads(args: &[String]) -> usize {
    util::opt_usize(args, "--threads", 8)
}

/// spec -> impl for words.
fn replay(args: &[String]) -> i32 {
    let render = Render { multibyte_e: true, raw_params: true };
    let render_braced = Render { multibyte_e: true, raw_params: false };
    let input = util::open_in(args);
    let chunk = util::opt_usize(args, "--chunk", 200);
    // group the raw lines by state (parsed again by the worker that runs them)
    let mut groups: BTreeMap<String, Vec<String>> = BTreeMap::new();
    let mut skipped = 0usize;
    for line in input.lines() {
        let line = line.expect("read");
        if line.trim().is_empty() {
            continue;
        }
        let v: Value = serde_json::from_str(&line).expect("json");
        if v["out"][0]["k"] == "skip" {
            skipped += 1;
            continue;
        }
        groups.entry(v["st"].to_string()).or_default().push(line);
    }
    let mut jobs: Vec<&[String]> = vec![];
    for (_k, lines) in groups.iter() {
        for c in lines.chunks(chunk) {
            jobs.push(c);
        }
    }
    let next = AtomicUsize::new(0);
    let out: Mutex<Vec<String>> = Mutex::new(vec![]);
    let sum = Mutex::new(Summary { cases: 0, ok: 0, errors: 0, skipped, ambiguous: 0, fields: 0, mismatches: 0, samples: vec![], tags: BTreeMap::new() });
    let failed: Mutex<Option<String>> = Mutex::new(None);
    std::thread::scope(|s| {
        for _ in 0..threads(args) {
            s.spawn(|| {
                loop {
                    let j = next.fetch_add(1, Ordering::SeqCst);
                    if j >= jobs.len() || failed.lock().unwrap().is_some() {
                        break;
                    }
                    let parsed: Vec<Value> = jobs[j].iter().map(|l| serde_json::from_str(l).expect("json")).collect();
                    let st = &parsed[0]["st"];
                    let cases: Vec<(Vec<Value>, Value)> =
                        parsed.iter().map(|v| (v["w"].as_array().unwrap().clone(), v["out"].clone())).collect();
                    // alternate between `$x` and `${x}` renderings
                    let r = if j % 2 == 0 { &render } else { &render_braced };
                    let mut done = 0;
                    let mut obs_all = vec![];
                    while done < cases.len() {
                        let words: Vec<&[Value]> = cases[done..].iter().map(|c| c.0.as_slice()).collect();
                        match run::run_words(r, st, &words) {
                            Ok(o) => {
                                if o.is_empty() {
                                    *failed.lock().unwrap() = Some("no progress".into());
                                    return;
                                }
                                done += o.len();
                                obs_all.extend(o);
                            }
                            Err(e) => {
                                *failed.lock().unwrap() = Some(e);
                                return;
                            }
                        }
                    }
                    let mut local = vec![];
                    let (mut ok, mut errs, mut amb, mut fields) = (0, 0, 0, 0);
                    let mut sample = None;
                    let mut tags = BTreeMap::new();
                    for (c, o) in cases.iter().zip(obs_all.iter()) {
                        let outs = c.1.as_array().unwrap();
                        feature_tags(&c.0, st, false, &mut tags);
                        outcome_tags(st, outs, &mut tags);
                        if outs.len() > 1 {
                            amb += 1;
                        }
                        if outs[0]["k"] == "ok" {
                            ok += 1;
                            fields += outs[0]["f"].as_array().unwrap().len();
                        } else {
                            errs += 1;
                        }
                        if !outs.iter().any(|x| agrees(&o.obs, x)) {
                            local.push(json!({"w": c.0, "st": st, "text": o.text, "out": c.1, "obs": o.obs}));
                        } else if sample.is_none() && (j % 97 == 0) {
                            sample = Some(json!({"text": o.text, "st": st, "out": c.1, "obs": {"k": o.obs["k"], "f": o.obs["f"]}}));
                        }
                    }
                    let mut s = sum.lock().unwrap();
                    s.cases += cases.len();
                    s.ok += ok;
                    s.errors += errs;
                    s.ambiguous += amb;
                    s.fields += fields;
                    s.mismatches += local.len();
                    for (k, v) in tags {
                        *s.tags.entry(k).or_insert(0) += v;
                    }
                    if let Some(x) = sample {
                        if s.samples.len() < 6 {
                            s.samples.push(x);
                        }
                    }
                    drop(s);
                    if !local.is_empty() {
                        let mut w = out.lock().unwrap();
                        for m in local {
                            w.push(m.to_string());
                        }
                    }
                }
            });
        }
    });
    if let Some(e) = failed.into_inner().unwrap() {
        eprintln!("yv-c01 replay: tool error: {e}");
        return 2;
    }
    write_lines(args, out.into_inner().unwrap());
    let s = sum.into_inner().unwrap();
    println!(
        "{}",
        json!({"cases": s.cases, "ok": s.ok, "errors": s.errors, "skipped": s.skipped, "ambiguous": s.ambiguous,
               "fields": s.fields, "mismatches": s.mismatches, "samples": s.samples, "runs": jobs.len(), "features": s.tags})
    );
    0
}

fn random_state(rng: &mut StdRng) -> Value {
    let val = |rng: &mut StdRng| -> Value {
        match rng.gen_range(0..10) {
            0 | 1 => json!({"set": false, "v": ""}),
            2 => json!({"set": true, "v": ""}),
            _ => json!({"set": true, "v": ast::random_value(rng, 8)}),
        }
    };
    let npos = [0, 0, 1, 1, 2, 2, 3][rng.gen_range(0..7)];
    let pos: Vec<Value> = (0..npos)
        .map(|_| if rng.gen_range(0..5) == 0 { json!("") } else { json!(ast::random_value(rng, 6)) })
        .collect();
    let ifs = match rng.gen_range(0..10) {
        0 => json!({"set": false, "v": ""}),
        1 => json!({"set": true, "v": ""}),
        2 => json!({"set": true, "v": " \t\n"}),
        3 => json!({"set": true, "v": " "}),
        4 => json!({"set": true, "v": ":"}),
        5 => json!({"set": true, "v": " :"}),
        _ => {
            let n = rng.gen_range(1..=3);
            let pool = ["a", " ", ":", "\t", "\n", "-", "*", "b", "\u{e9}", "\\", "?"];
            let v: String = (0..n).map(|_| pool[rng.gen_range(0..pool.len())]).collect();
            json!({"set": true, "v": v})
        }
    };
    json!({"x": val(rng), "y": val(rng), "pos": pos, "ifs": ifs,
           "nounset": rng.gen_range(0..4) == 0, "st": if rng.gen_range(0..4) == 0 { "3" } else { "0" }})
}

/// impl -> spec for words: records {w, st, obs}.
fn random(args: &[String]) -> i32 {
    let n = util::opt_usize(args, "--n", 1000);
    let per_state = util::opt_usize(args, "--per-state", 40);
    let max_units = util::opt_usize(args, "--units", 12);
    let seed = util::seed();
    let nstates = n.div_ceil(per_state);
    let next = AtomicUsize::new(0);
    let out: Mutex<Vec<String>> = Mutex::new(vec![]);
    let failed: Mutex<Option<String>> = Mutex::new(None);
    let total = AtomicUsize::new(0);
    std::thread::scope(|s| {
        for _ in 0..threads(args) {
            s.spawn(|| {
                loop {
                    let j = next.fetch_add(1, Ordering::SeqCst);
                    if j >= nstates || failed.lock().unwrap().is_some() {
                        break;
                    }
                    let mut rng = StdRng::seed_from_u64(seed.wrapping_mul(1_000_003).wrapping_add(j as u64));
                    let st = random_state(&mut rng);
                    let render = Render { multibyte_e: false, raw_params: j % 2 == 0 };
                    let words: Vec<Vec<Value>> = (0..per_state)
                        .map(|_| {
                            let mut budget = rng.gen_range(1..=max_units);
                            ast::random_units(&mut rng, Ctx::Top, &mut budget, 0, 1)
                        })
                        .collect();
                    let mut done = 0;
                    let mut recs = vec![];
                    while done < words.len() {
                        let ws: Vec<&[Value]> = words[done..].iter().map(|w| w.as_slice()).collect();
                        match run::run_words(&render, &st, &ws) {
                            Ok(o) if !o.is_empty() => {
                                for (k, ob) in o.iter().enumerate() {
                                    recs.push(json!({"kind": "word", "w": words[done + k], "st": st, "text": ob.text, "obs": ob.obs}));
                                }
                                done += o.len();
                            }
                            Ok(_) => {
                                *failed.lock().unwrap() = Some("no progress".into());
                                return;
                            }
                            Err(e) => {
                                *failed.lock().unwrap() = Some(e);
                                return;
                            }
                        }
                    }
                    total.fetch_add(recs.len(), Ordering::SeqCst);
                    let mut w = out.lock().unwrap();
                    for r in recs {
                        w.push(r.to_string());
                    }
                }
            });
        }
    });
    if let Some(e) = failed.into_inner().unwrap() {
        eprintln!("yv-c01 random: tool error: {e}");
        return 2;
    }
    write_lines(args, out.into_inner().unwrap());
    println!("{}", json!({"records": total.load(Ordering::SeqCst)}));
    0
}

/// spec -> impl for `read`: input lines {line, n, ifs, out: [[..], ..]}.
fn read_replay(args: &[String]) -> i32 {
    let render = Render { multibyte_e: true, raw_params: true };
    let input = util::open_in(args);
    let mut groups: BTreeMap<String, (Value, Vec<Value>)> = BTreeMap::new();
    for line in input.lines() {
        let line = line.expect("read");
        if line.trim().is_empty() {
            continue;
        }
        let v: Value = serde_json::from_str(&line).expect("json");
        let key = v["ifs"].to_string();
        groups.entry(key).or_insert_with(|| (v["ifs"].clone(), vec![])).1.push(v);
    }
    let mut out = util::open_out(args);
    let (mut cases, mut mism, mut amb) = (0usize, 0usize, 0usize);
    let mut samples = vec![];
    for (_k, (ifs, recs)) in groups.iter() {
        for chunk in recs.chunks(300) {
            let cs: Vec<(&[Value], usize)> =
                chunk.iter().map(|r| (r["line"].as_array().unwrap().as_slice(), r["n"].as_u64().unwrap() as usize)).collect();
            let obs = match run::run_reads(&render, ifs, &cs) {
                Ok(o) => o,
                Err(e) => {
                    eprintln!("yv-c01 read-replay: tool error: {e}");
                    return 2;
                }
            };
            for (r, o) in chunk.iter().zip(obs.iter()) {
                cases += 1;
                let allowed = r["out"].as_array().unwrap();
                if allowed.len() > 1 {
                    amb += 1;
                }
                let good = o["status"] == 0 && o["extra"] == false && allowed.iter().any(|a| a == &o["vals"]);
                if !good {
                    mism += 1;
                    writeln!(out, "{}", json!({"line": r["line"], "n": r["n"], "ifs": ifs, "out": r["out"], "obs": o})).unwrap();
                } else if samples.len() < 3 && cases % 1013 == 7 {
                    samples.push(json!({"line": r["line"], "n": r["n"], "ifs": ifs, "obs": o["vals"]}));
                }
            }
        }
    }
    out.flush().unwrap();
    println!("{}", json!({"cases": cases, "mismatches": mism, "ambiguous": amb, "samples": samples}));
    0
}

/// impl -> spec for `read`: records {kind: "read", line, n, ifs, obs}.
fn read_random(args: &[String]) -> i32 {
    let n = util::opt_usize(args, "--n", 500);
    let render = Render { multibyte_e: false, raw_params: true };
    let mut rng = StdRng::seed_from_u64(util::seed().wrapping_mul(7_919).wrapping_add(17));
    let mut out = util::open_out(args);
    let plain = ["a", "b", " ", " ", "\t", ":", ":", "-", "\u{e9}", "*", "'", "\""];
    let esc = [" ", ":", "\\", "a", "-", "\t"];
    let mut total = 0;
    let mut left = n;
    while left > 0 {
        let st = random_state(&mut rng);
        let ifs = st["ifs"].clone();
        let m = left.min(50);
        left -= m;
        let mut lines = vec![];
        for _ in 0..m {
            let len = rng.gen_range(0..=10);
            let line: Vec<Value> = (0..len)
                .map(|_| {
                    if rng.gen_range(0..6) == 0 {
                        json!({"c": esc[rng.gen_range(0..esc.len())], "esc": true})
                    } else {
                        json!({"c": plain[rng.gen_range(0..plain.len())], "esc": false})
                    }
                })
                .collect();
            lines.push((line, rng.gen_range(1..=4usize)));
        }
        let cs: Vec<(&[Value], usize)> = lines.iter().map(|(l, n)| (l.as_slice(), *n)).collect();
        let obs = match run::run_reads(&render, &ifs, &cs) {
            Ok(o) => o,
            Err(e) => {
                eprintln!("yv-c01 read-random: tool error: {e}");
                return 2;
            }
        };
        for ((line, n), o) in lines.iter().zip(obs.iter()) {
            writeln!(out, "{}", json!({"kind": "read", "line": line, "n": n, "ifs": ifs, "obs": o})).unwrap();
            total += 1;
        }
    }
    out.flush().unwrap();
    println!("{}", json!({"records": total}));
    0
}

/// Re-executes one record {w, st} (replay of a violation) and prints the observation.
fn one(args: &[String]) -> i32 {
    let input = util::open_in(args);
    let mut out = util::open_out(args);
    for line in input.lines() {
        let line = line.expect("read");
        if line.trim().is_empty() {
            continue;
        }
        let v: Value = serde_json::from_str(&line).expect("json");
        let mb = v["mb"].as_bool().unwrap_or(false);
        let render = Render { multibyte_e: mb, raw_params: true };
        if v["kind"] == "read" || v.get("line").is_some() {
            let cs = [(v["line"].as_array().unwrap().as_slice(), v["n"].as_u64().unwrap() as usize)];
            match run::run_reads(&render, &v["ifs"], &cs) {
                Ok(o) => writeln!(out, "{}", json!({"kind": "read", "line": v["line"], "n": v["n"], "ifs": v["ifs"], "obs": o[0]})).unwrap(),
                Err(e) => {
                    eprintln!("tool error: {e}");
                    return 2;
                }
            }
        } else {
            let w = v["w"].as_array().unwrap();
            match run::run_words(&render, &v["st"], &[w.as_slice()]) {
                Ok(o) => writeln!(out, "{}", json!({"kind": "word", "w": v["w"], "st": v["st"], "text": o[0].text, "obs": o[0].obs})).unwrap(),
                Err(e) => {
                    eprintln!("tool error: {e}");
                    return 2;
                }
            }
        }
    }
    out.flush().unwrap();
    0
}

fn main() {
    util::quiet_panics();
    let args: Vec<String> = std::env::args().collect();
    if args.len() < 2 {
        eprintln!("usage: yv-c01 <replay|random|read-replay|read-random|one> [--in F] [--out F] ...");
        std::process::exit(2);
    }
    let rest = &args[2..];
    let code = match args[1].as_str() {
        "replay" => replay(rest),
        "random" => random(rest),
        "read-replay" => read_replay(rest),
        "read-random" => read_random(rest),
        "one" => one(rest),
        other => {
            eprintln!("unknown subcommand {other}");
            2
        }
    };
    std::process::exit(code);
}
