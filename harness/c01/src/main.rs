//! Conformance harness for property C01, see /verif/DESIGN.md.
fn main() {
    eprintln!("yv-c01: not implemented yet");
    std::process::exit(2);
}
