//! Word ASTs of spec/Expand.tla (as JSON values), their rendering to shell
//! text, and a random generator of valid ASTs.
//!
//! JSON shapes (identical to the TLA+ records):
//!   {"t":"lit","c":"a"}  {"t":"bs","c":" "}  {"t":"sq","s":"a b"}  {"t":"dq","u":[..]}
//!   {"t":"par","p":"x","m":"none"}  {"t":"par","p":"x","m":"len"}
//!   {"t":"par","p":"x","m":"sw","colon":true,"act":"-","w":[..]}
//!   {"t":"par","p":"x","m":"trim","side":"#","long":false,"w":[..]}
use rand::Rng;
use rand::rngs::StdRng;
use serde_json::{Value, json};

/// The enumeration direction writes the abstract character `e` of the model
/// as a two-byte character (so that "number of characters" and "number of
/// bytes" differ); `map` is applied to every character on the way out.
pub struct Render {
    pub multibyte_e: bool,
    /// prefer `$x` over `${x}` where both mean the same
    pub raw_params: bool,
}

impl Render {
    pub fn ch(&self, c: &str) -> String {
        if self.multibyte_e && c == "e" { "\u{e9}".to_string() } else { c.to_string() }
    }
    pub fn text(&self, s: &str) -> String {
        if self.multibyte_e { s.replace('e', "\u{e9}") } else { s.to_string() }
    }
    pub fn untext(&self, s: &str) -> String {
        if self.multibyte_e { s.replace('\u{e9}', "e") } else { s.to_string() }
    }

    /// A value as a single-quoted shell string.
    pub fn quote_value(&self, v: &str) -> String {
        format!("'{}'", self.text(v).replace('\'', "'\\''"))
    }

    pub fn word(&self, units: &[Value]) -> String {
        let mut out = String::new();
        for (i, u) in units.iter().enumerate() {
            let next = units.get(i + 1);
            self.unit(u, next, &mut out);
        }
        out
    }

    fn starts_with_name_char(&self, next: Option<&Value>) -> bool {
        // would the text after `$x` extend the parameter name?
        match next {
            None => false,
            Some(n) => match n["t"].as_str().unwrap() {
                "lit" => {
                    let c = n["c"].as_str().unwrap().chars().next().unwrap();
                    c.is_alphanumeric() || c == '_'
                }
                _ => false,
            },
        }
    }

    fn unit(&self, u: &Value, next: Option<&Value>, out: &mut String) {
        match u["t"].as_str().unwrap() {
            "lit" => out.push_str(&self.ch(u["c"].as_str().unwrap())),
            "bs" => {
                out.push('\\');
                out.push_str(&self.ch(u["c"].as_str().unwrap()));
            }
            "sq" => {
                out.push('\'');
                out.push_str(&self.text(u["s"].as_str().unwrap()));
                out.push('\'');
            }
            "dq" => {
                out.push('"');
                out.push_str(&self.word(u["u"].as_array().unwrap()));
                out.push('"');
            }
            "par" => {
                let p = u["p"].as_str().unwrap();
                match u["m"].as_str().unwrap() {
                    "none" => {
                        let special = matches!(p, "@" | "*" | "#" | "?");
                        let raw_ok = if special { true } else { !self.starts_with_name_char(next) };
                        // `$#` directly before a `lit` could never extend, but keep `${#}` out
                        // of the raw form's way when the next character would change its meaning
                        if self.raw_params && raw_ok {
                            out.push('$');
                            out.push_str(p);
                        } else {
                            out.push_str(&format!("${{{p}}}"));
                        }
                    }
                    "len" => out.push_str(&format!("${{#{p}}}")),
                    "sw" => {
                        out.push_str("${");
                        out.push_str(p);
                        if u["colon"].as_bool().unwrap() {
                            out.push(':');
                        }
                        out.push_str(u["act"].as_str().unwrap());
                        out.push_str(&self.word(u["w"].as_array().unwrap()));
                        out.push('}');
                    }
                    "trim" => {
                        out.push_str("${");
                        out.push_str(p);
                        let side = u["side"].as_str().unwrap();
                        out.push_str(side);
                        if u["long"].as_bool().unwrap() {
                            out.push_str(side);
                        }
                        out.push_str(&self.word(u["w"].as_array().unwrap()));
                        out.push('}');
                    }
                    m => panic!("bad modifier {m}"),
                }
            }
            t => panic!("bad unit type {t}"),
        }
    }
}

// ---------------------------------------------------------------------------
// random words (validation direction)
// ---------------------------------------------------------------------------

#[derive(Clone, Copy, PartialEq)]
pub enum Ctx {
    /// a word of a simple command (blanks must be quoted)
    Top,
    /// `word` of `${p-word}` / pattern of `${p#word}` outside double quotes
    Brace,
    /// inside double quotes (also `word` of a switch inside double quotes)
    Dq,
}

pub const VALUE_CHARS: &[&str] = &[
    "a", "a", "b", "c", "\u{e9}", " ", " ", "\t", "\n", ":", ":", "*", "?", "-", "\\", "'", "\"", "$", "[",
];
const LIT_TOP: &[&str] = &["a", "b", "c", "\u{e9}", ":", "-", "*", "?", "+", ",", ".", "/"];
const LIT_BRACE: &[&str] = &["a", "b", "c", "\u{e9}", ":", "-", "*", "?", " ", " ", "\t", ","];
const LIT_DQ: &[&str] = &["a", "b", "\u{e9}", ":", "-", "*", "?", " ", " ", "\t", "'", ","];
const BS_WORD: &[&str] = &[" ", ":", "a", "*", "?", "\\", "$", "\"", "'", "\t"];
const BS_DQ: &[&str] = &["\\", "$", "\"", "a", " ", "*", ":"];
const SQ_CHARS: &[&str] = &["a", "b", " ", " ", ":", "*", "?", "$", "\\", "\"", "\t", "\u{e9}"];
const PARAMS: &[&str] = &["x", "x", "y", "y", "1", "2", "@", "@", "*", "*", "#", "?", "IFS"];

fn pick<'a>(rng: &mut StdRng, xs: &[&'a str]) -> &'a str {
    xs[rng.gen_range(0..xs.len())]
}

pub fn random_value(rng: &mut StdRng, max: usize) -> String {
    let n = rng.gen_range(0..=max);
    (0..n).map(|_| pick(rng, VALUE_CHARS)).collect()
}

/// Units for a word in context `ctx`; `budget` bounds the total number of
/// units (nested ones included).
pub fn random_units(rng: &mut StdRng, ctx: Ctx, budget: &mut usize, depth: usize, min: usize) -> Vec<Value> {
    let want = if *budget == 0 { 0 } else { rng.gen_range(min..=(*budget).min(if depth == 0 { 12 } else { 3 })) };
    let mut v = vec![];
    for _ in 0..want {
        if *budget == 0 {
            break;
        }
        *budget -= 1;
        v.push(random_unit(rng, ctx, budget, depth));
    }
    v
}

fn random_unit(rng: &mut StdRng, ctx: Ctx, budget: &mut usize, depth: usize) -> Value {
    let r = rng.gen_range(0..100);
    match ctx {
        Ctx::Top | Ctx::Brace => {
            if r < 20 {
                json!({"t": "lit", "c": pick(rng, if ctx == Ctx::Top { LIT_TOP } else { LIT_BRACE })})
            } else if r < 28 {
                json!({"t": "bs", "c": pick(rng, BS_WORD)})
            } else if r < 38 {
                let n = rng.gen_range(0..=3);
                let s: String = (0..n).map(|_| pick(rng, SQ_CHARS)).collect();
                json!({"t": "sq", "s": s})
            } else if r < 58 && depth < 3 {
                let inner = random_units(rng, Ctx::Dq, budget, depth + 1, 0);
                json!({"t": "dq", "u": inner})
            } else {
                random_param(rng, ctx, budget, depth)
            }
        }
        Ctx::Dq => {
            if r < 25 {
                json!({"t": "lit", "c": pick(rng, LIT_DQ)})
            } else if r < 35 {
                json!({"t": "bs", "c": pick(rng, BS_DQ)})
            } else {
                random_param(rng, ctx, budget, depth)
            }
        }
    }
}

fn random_param(rng: &mut StdRng, ctx: Ctx, budget: &mut usize, depth: usize) -> Value {
    let p = pick(rng, PARAMS);
    let r = rng.gen_range(0..100);
    let plain = json!({"t": "par", "p": p, "m": "none"});
    if r < 45 || depth >= 3 {
        return plain;
    }
    // modifiers on @ * (and most on #) are unspecified by POSIX: not generated
    if matches!(p, "@" | "*") {
        return plain;
    }
    if p == "IFS" && r < 90 {
        // the word assigns IFS itself (fires when IFS is unset, or empty for `:=`)
        let n = rng.gen_range(1..=2);
        let w: Vec<Value> = (0..n).map(|_| json!({"t": "lit", "c": pick(rng, &[":", ":", " ", "a", "-", "\u{e9}"])})).collect();
        return json!({"t": "par", "p": p, "m": "sw", "colon": rng.gen_bool(0.5), "act": "=", "w": w});
    }
    if r < 55 {
        return json!({"t": "par", "p": p, "m": "len"});
    }
    if p == "#" {
        return plain;
    }
    if r < 82 {
        let act = pick(rng, &["-", "-", "+", "+", "=", "?"]);
        // assignment to a non-variable is an error whatever the word: keep a few
        let inner_ctx = if ctx == Ctx::Dq { Ctx::Dq } else { Ctx::Brace };
        let w = random_units(rng, inner_ctx, budget, depth + 1, 0);
        return json!({"t": "par", "p": p, "m": "sw", "colon": rng.gen_bool(0.5), "act": act, "w": w});
    }
    if p == "?" {
        return plain;
    }
    // the pattern of a trim is a word of its own even inside double quotes;
    // keep it to literals, quoting and plain parameters
    let n = rng.gen_range(0..=3usize).min(*budget);
    *budget -= n;
    let mut w = vec![];
    for _ in 0..n {
        let q = rng.gen_range(0..100);
        w.push(if q < 45 {
            json!({"t": "lit", "c": pick(rng, &["a", "b", "*", "*", "?", ":", " ", "\u{e9}", "-"])})
        } else if q < 55 {
            json!({"t": "bs", "c": pick(rng, &["*", "?", "a", " "])})
        } else if q < 65 {
            json!({"t": "sq", "s": pick(rng, &["*", "a", "?", "a*", " "])})
        } else if q < 80 {
            json!({"t": "par", "p": pick(rng, &["y", "y", "x", "1", "*", "@"]), "m": "none"})
        } else {
            json!({"t": "dq", "u": [{"t": "par", "p": pick(rng, &["y", "x", "1"]), "m": "none"}]})
        });
    }
    json!({"t": "par", "p": p, "m": "trim", "side": pick(rng, &["#", "%"]), "long": rng.gen_bool(0.5), "w": w})
}
