//! Running batches of words / `read` lines in the real shell on the simulated
//! OS and collecting what the probe built-ins observed.
use crate::ast::Render;
use serde_json::{Value, json};
use std::cell::RefCell;
use std::pin::Pin;
use std::rc::Rc;
use yash_env::builtin::{Builtin, Result as BResult, Type};
use yash_env::semantics::{ExitStatus, Field};
use yash_env::system::r#virtual::SystemState;
use yvcommon::sched::Outcome;
use yvcommon::shell::{self, ShellCfg, VEnv, push_event, run_shell};

thread_local! {
    static SYS: RefCell<Option<Rc<RefCell<SystemState>>>> = const { RefCell::new(None) };
    static ERR_POS: RefCell<usize> = const { RefCell::new(0) };
}

fn var_json(env: &VEnv, name: &str) -> Value {
    match env.variables.get(name).and_then(|v| v.value.as_ref()) {
        None => json!({"set": false, "v": ""}),
        Some(yash_env::variable::Value::Scalar(s)) => json!({"set": true, "v": s}),
        Some(yash_env::variable::Value::Array(a)) => json!({"set": true, "v": format!("<array {a:?}>")}),
    }
}

/// `xv`: records the values of x, y and IFS (observation of `${x=word}`); status 0.
fn xv_main(env: &mut VEnv, _args: Vec<Field>) -> Pin<Box<dyn Future<Output = BResult> + '_>> {
    Box::pin(async move {
        push_event(json!({"ev": "xv", "x": var_json(env, "x"), "y": var_json(env, "y"), "ifs": var_json(env, "IFS")}));
        BResult::new(ExitStatus(0))
    })
}

/// `mk ID`: end of case ID: records `$?` and what was written to standard
/// error since the previous mark.
fn mk_main(env: &mut VEnv, args: Vec<Field>) -> Pin<Box<dyn Future<Output = BResult> + '_>> {
    Box::pin(async move {
        let id = args.first().map(|f| f.value.clone()).unwrap_or_default();
        let err = SYS.with(|s| s.borrow().as_ref().and_then(|st| shell::file_content(st, "/dev/stderr"))).unwrap_or_default();
        let from = ERR_POS.with(|p| std::mem::replace(&mut *p.borrow_mut(), err.len()));
        let new = String::from_utf8_lossy(&err[from.min(err.len())..]).into_owned();
        push_event(json!({"ev": "mk", "id": id, "st": env.exit_status.0, "err": new}));
        BResult::new(ExitStatus(0))
    })
}

/// `rv N`: records `$?` (of the preceding `read`) and the variables a b c d.
fn rv_main(env: &mut VEnv, args: Vec<Field>) -> Pin<Box<dyn Future<Output = BResult> + '_>> {
    Box::pin(async move {
        let id = args.first().map(|f| f.value.clone()).unwrap_or_default();
        let vars: Vec<Value> = ["a", "b", "c", "d"].iter().map(|n| var_json(env, n)).collect();
        push_event(json!({"ev": "rv", "id": id, "st": env.exit_status.0, "vars": vars}));
        BResult::new(ExitStatus(0))
    })
}

fn cfg_for(script: &str) -> ShellCfg {
    let mut cfg = ShellCfg::command(script);
    cfg.step_limit = 5_000_000;
    cfg.setup = Some(Box::new(|env: &mut VEnv, st: &Rc<RefCell<SystemState>>| {
        SYS.with(|s| *s.borrow_mut() = Some(Rc::clone(st)));
        ERR_POS.with(|p| *p.borrow_mut() = 0);
        env.builtins.insert("xv", Builtin::new(Type::Mandatory, xv_main));
        env.builtins.insert("mk", Builtin::new(Type::Mandatory, mk_main));
        env.builtins.insert("rv", Builtin::new(Type::Mandatory, rv_main));
    }));
    cfg
}

/// Shell text that establishes state `st` (a JSON record as in Expand.tla).
pub fn state_setup(r: &Render, st: &Value) -> String {
    let mut s = String::from("set -f\n");
    for name in ["x", "y"] {
        if st[name]["set"].as_bool().unwrap() {
            s.push_str(&format!("{name}={}\n", r.quote_value(st[name]["v"].as_str().unwrap())));
        } else {
            s.push_str(&format!("unset {name}\n"));
        }
    }
    s.push_str("set --");
    for p in st["pos"].as_array().unwrap() {
        s.push(' ');
        s.push_str(&r.quote_value(p.as_str().unwrap()));
    }
    s.push('\n');
    if st["ifs"]["set"].as_bool().unwrap() {
        s.push_str(&format!("IFS={}\n", r.quote_value(st["ifs"]["v"].as_str().unwrap())));
    } else {
        s.push_str("unset IFS\n");
    }
    if st["nounset"].as_bool().unwrap() {
        s.push_str("set -u\n");
    }
    s
}

/// What was observed for one word.
#[derive(Clone, Debug)]
pub struct Obs {
    pub text: String,
    /// {"k": "ok"|"err", "f": [...], "x": {...}, "y": {...}}  (+ "status", "stderr" for errors)
    pub obs: Value,
}

/// Expands every word of `words` in state `st`, each in a subshell of its own
/// (so that neither `${x=..}` nor an expansion error leaks into the next one).
/// Returns Err on anything that is not an observation (tool error).
pub fn run_words(r: &Render, st: &Value, words: &[&[Value]]) -> Result<Vec<Obs>, String> {
    let mut script = state_setup(r, st);
    let status = st["st"].as_str().unwrap();
    let mut texts = vec![];
    for (i, w) in words.iter().enumerate() {
        let text = r.word(w);
        script.push_str(&format!("(status {status}; probe {text}; xv)\nmk {i}\n"));
        texts.push(text);
    }
    let res = run_shell(cfg_for(&script));
    match &res.outcome {
        Outcome::Completed => {}
        // a panic of the shell is data: every case not yet marked gets it
        Outcome::Panic(_) | Outcome::Deadlock | Outcome::StepLimit => {}
    }
    let mut out = vec![];
    let mut cur_probe: Option<&Value> = None;
    let mut cur_xv: Option<&Value> = None;
    for e in &res.events {
        match e["ev"].as_str().unwrap_or("") {
            "probe" => cur_probe = Some(e),
            "xv" => cur_xv = Some(e),
            "mk" => {
                let id: usize = e["id"].as_str().unwrap().parse().map_err(|_| "bad mark".to_string())?;
                if id != out.len() {
                    return Err(format!("marks out of order: got {id}, expected {}\nscript:\n{script}", out.len()));
                }
                let obs = match (cur_probe, cur_xv) {
                    (Some(p), Some(v)) => {
                        let f: Vec<Value> =
                            p["args"].as_array().unwrap().iter().map(|a| json!(r.untext(a.as_str().unwrap()))).collect();
                        json!({"k": "ok", "f": f, "x": untext_val(r, &v["x"]), "y": untext_val(r, &v["y"]),
                               "ifs": untext_val(r, &v["ifs"]), "status": e["st"], "stderr": ""})
                    }
                    (None, None) => json!({"k": "err", "f": [], "x": {"set": false, "v": ""}, "y": {"set": false, "v": ""}, "ifs": {"set": false, "v": ""},
                                           "status": e["st"], "stderr": r.untext(e["err"].as_str().unwrap())}),
                    _ => json!({"k": "odd", "f": [], "x": {"set": false, "v": ""}, "y": {"set": false, "v": ""}, "ifs": {"set": false, "v": ""},
                                "status": e["st"], "stderr": r.untext(e["err"].as_str().unwrap())}),
                };
                out.push(Obs { text: texts[id].clone(), obs });
                cur_probe = None;
                cur_xv = None;
            }
            _ => {}
        }
    }
    if out.len() != words.len() {
        match &res.outcome {
            Outcome::Completed => {
                return Err(format!(
                    "only {} of {} cases marked (status {}); stderr: {}\nscript:\n{}",
                    out.len(),
                    words.len(),
                    res.status,
                    res.stderr_str().chars().take(1500).collect::<String>(),
                    script.chars().take(3000).collect::<String>()
                ));
            }
            other => {
                // the case in progress gets the abnormal outcome; the rest is re-run by the caller
                let what = match other {
                    Outcome::Panic(m) => format!("panic: {m}"),
                    Outcome::Deadlock => "deadlock".to_string(),
                    _ => "steplimit".to_string(),
                };
                let id = out.len();
                out.push(Obs {
                    text: texts[id].clone(),
                    obs: json!({"k": what, "f": [], "x": {"set": false, "v": ""}, "y": {"set": false, "v": ""}, "ifs": {"set": false, "v": ""},
                                "status": -1, "stderr": ""}),
                });
            }
        }
    }
    Ok(out)
}

fn untext_val(r: &Render, v: &Value) -> Value {
    json!({"set": v["set"], "v": r.untext(v["v"].as_str().unwrap())})
}

/// One `read` case: line = [{"c","esc"}], n variables.
pub fn run_reads(r: &Render, ifs: &Value, cases: &[(&[Value], usize)]) -> Result<Vec<Value>, String> {
    let mut script = String::new();
    if ifs["set"].as_bool().unwrap() {
        script.push_str(&format!("IFS={}\n", r.quote_value(ifs["v"].as_str().unwrap())));
    } else {
        script.push_str("unset IFS\n");
    }
    for (i, (line, n)) in cases.iter().enumerate() {
        let mut text = String::new();
        for ch in line.iter() {
            if ch["esc"].as_bool().unwrap() {
                text.push('\\');
            }
            text.push_str(&r.ch(ch["c"].as_str().unwrap()));
        }
        let names = ["a", "b", "c", "d"][..*n].join(" ");
        script.push_str(&format!("unset a b c d\nread {names} <<'E_O_F'\n{text}\nE_O_F\nrv {i}\n"));
    }
    let res = run_shell(cfg_for(&script));
    let mut out = vec![];
    for e in &res.events {
        if e["ev"] == "rv" {
            let id: usize = e["id"].as_str().unwrap().parse().unwrap();
            if id != out.len() {
                return Err("read marks out of order".into());
            }
            let n = cases[id].1;
            let vars = e["vars"].as_array().unwrap();
            let vals: Vec<Value> = vars[..n]
                .iter()
                .map(|v| if v["set"].as_bool().unwrap() { json!(r.untext(v["v"].as_str().unwrap())) } else { json!("<unset>") })
                .collect();
            let extra_set = vars[n..].iter().any(|v| v["set"].as_bool().unwrap());
            out.push(json!({"vals": vals, "status": e["st"], "extra": extra_set}));
        }
    }
    if out.len() != cases.len() {
        return Err(format!(
            "only {} of {} read cases marked ({}); stderr: {}\nscript:\n{}",
            out.len(),
            cases.len(),
            res.outcome_str(),
            res.stderr_str().chars().take(1500).collect::<String>(),
            script.chars().take(2000).collect::<String>()
        ));
    }
    Ok(out)
}
