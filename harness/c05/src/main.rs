//! Conformance harness for property C05, see /verif/DESIGN.md.
fn main() {
    eprintln!("yv-c05: not implemented yet");
    std::process::exit(2);
}
