//! Conformance harness for property C05 (pathname expansion), see
//! /verif/DESIGN.md section 6 "C05" and spec/Glob.tla.
//!
//! `replay`  spec -> impl: reads the lines TLC printed from spec/MC_Glob.tla
//!           (header with unit alphabet and trees; one line per word with the
//!           allowed results in every tree), materialises every tree in the
//!           simulated file system (and a selection of them on the real file
//!           system, inside a chroot so that absolute pathnames mean the same),
//!           runs `probe <n> <word>` for every word through the real shell and
//!           compares the probe's arguments with the allowed lists.
//! `random`  impl -> spec: seeded random trees and words well beyond the
//!           enumeration bounds; records {tree, cwd, word, noglob, observed}
//!           for validation by spec/Trace_Glob.tla.
//! `redo`    re-executes recorded cases (replay files, anti-vacuity tests).
use rand::rngs::StdRng;
use rand::{Rng, SeedableRng};
use serde_json::{Value, json};
use std::collections::HashMap;
use std::io::{BufRead, Write};
use yvcommon::real::{RealCfg, run_real};
use yvcommon::sched::Outcome;
use yvcommon::shell::{FileSpec, ShellCfg, run_shell};
use yvcommon::util::{catch, open_in, open_out, opt, opt_usize};

#[derive(Clone, Debug)]
struct Unit {
    k: String,
    s: String,
}

#[derive(Clone, Debug)]
struct Node {
    p: String,
    k: String,
    to: String,
}

#[derive(Clone, Debug)]
struct Tree {
    cwd: String,
    nodes: Vec<Node>,
}

impl Tree {
    fn has_links(&self) -> bool {
        self.nodes.iter().any(|n| n.k == "l")
    }
    fn files(&self) -> Vec<FileSpec> {
        let mut nodes = self.nodes.clone();
        nodes.sort_by_key(|n| n.p.matches('/').count());
        nodes
            .iter()
            .map(|n| match n.k.as_str() {
                "d" => FileSpec::Dir { path: n.p.clone() },
                "l" => FileSpec::Symlink { path: n.p.clone(), target: n.to.clone() },
                _ => FileSpec::Regular { path: n.p.clone(), content: vec![], mode: 0o644 },
            })
            .collect()
    }
    fn to_json(&self) -> Value {
        json!({
            "cwd": self.cwd,
            "nodes": self.nodes.iter().map(|n| json!({"p": n.p, "k": n.k, "to": n.to})).collect::<Vec<_>>(),
        })
    }
    fn from_json(v: &Value) -> Tree {
        Tree {
            cwd: v["cwd"].as_str().unwrap().to_string(),
            nodes: v["nodes"]
                .as_array()
                .unwrap()
                .iter()
                .map(|n| Node {
                    p: n["p"].as_str().unwrap().to_string(),
                    k: n["k"].as_str().unwrap().to_string(),
                    to: n["to"].as_str().unwrap().to_string(),
                })
                .collect(),
        }
    }
}

fn units_from_json(v: &Value) -> Vec<Unit> {
    v.as_array()
        .unwrap()
        .iter()
        .map(|u| Unit { k: u["k"].as_str().unwrap().to_string(), s: u["s"].as_str().unwrap().to_string() })
        .collect()
}

fn units_to_json(us: &[Unit]) -> Value {
    json!(us.iter().map(|u| json!({"k": u.k, "s": u.s})).collect::<Vec<_>>())
}

/// Shell text of one word: (assignments to run before, the word).
fn render(us: &[Unit]) -> (String, String) {
    let mut pre = String::new();
    let mut word = String::new();
    let mut nv = 0;
    for u in us {
        match u.k.as_str() {
            "lit" => word.push_str(&u.s),
            "bs" => {
                word.push('\\');
                word.push_str(&u.s);
            }
            "sq" => {
                word.push('\'');
                word.push_str(&u.s);
                word.push('\'');
            }
            "dq" => {
                word.push('"');
                for c in u.s.chars() {
                    if matches!(c, '\\' | '"' | '$' | '`') {
                        word.push('\\');
                    }
                    word.push(c);
                }
                word.push('"');
            }
            "var" | "dqvar" => {
                nv += 1;
                pre.push_str(&format!("v{nv}='{}'; ", u.s));
                if u.k == "var" {
                    word.push_str(&format!("${{v{nv}}}"));
                } else {
                    word.push_str(&format!("\"${{v{nv}}}\""));
                }
            }
            "tilde" => {
                pre.push_str(&format!("HOME='{}'; ", u.s));
                word.push('~');
            }
            other => panic!("unknown unit kind {other}"),
        }
    }
    (pre, word)
}

fn script_line(idx: usize, us: &[Unit]) -> String {
    let (pre, word) = render(us);
    format!("{pre}probe {idx} {word}\n")
}

#[derive(Clone, Copy, PartialEq, Eq, Debug)]
enum Mode {
    Sim,
    Real,
}

impl Mode {
    fn name(self) -> &'static str {
        match self {
            Mode::Sim => "sim",
            Mode::Real => "real",
        }
    }
}

struct RunOut {
    outcome: String,
    got: HashMap<usize, Vec<String>>,
    /// words that produced no result: outcome of the run that was to deliver it
    failed: HashMap<usize, String>,
    /// number of words not run because the batch was abandoned
    aborted: usize,
}

impl RunOut {
    fn outcome_of(&self, i: &usize) -> String {
        self.failed.get(i).cloned().unwrap_or_else(|| self.outcome.clone())
    }
}

fn collect_probes(events: &[Value], got: &mut HashMap<usize, Vec<String>>) {
    for e in events {
        if e["ev"] != "probe" {
            continue;
        }
        let args: Vec<String> =
            e["args"].as_array().map(|a| a.iter().map(|x| x.as_str().unwrap_or("").to_string()).collect()).unwrap_or_default();
        if let Some(idx) = args.first().and_then(|s| s.parse::<usize>().ok()) {
            got.insert(idx, args[1..].to_vec());
        }
    }
}

/// Runs `probe <idx> <word>` for every (idx, word) in one shell over `tree`.
/// If the shell does not get through the whole script (panic, crash, step
/// limit), the first word without a result is blamed (its outcome is kept in
/// `failed`) and the words after it are run in a fresh shell, so that one
/// failing word costs one verdict, not the rest of the batch.  Failures of the
/// environment (timeout, chroot) are tool errors: exit 2.
fn run_batch(tree: &Tree, words: &[(usize, &[Unit])], noglob: bool, mode: Mode) -> RunOut {
    let mut rest: Vec<(usize, &[Unit])> = words.to_vec();
    let mut all = RunOut { outcome: "completed".to_string(), got: HashMap::new(), failed: HashMap::new(), aborted: 0 };
    let mut restarts = 0;
    while !rest.is_empty() {
        let r = run_batch_once(tree, &rest, noglob, mode);
        if r.outcome == "timeout" || r.outcome.starts_with("status 97") {
            eprintln!("yv-c05: {} run failed for environmental reasons: {}", mode.name(), r.outcome);
            std::process::exit(2);
        }
        all.got.extend(r.got);
        match rest.iter().position(|(i, _)| !all.got.contains_key(i)) {
            None => break,
            Some(k) => {
                all.failed.insert(rest[k].0, if r.outcome == "completed" { "no probe event".to_string() } else { r.outcome.clone() });
                rest = rest[k + 1..].to_vec();
                restarts += 1;
                if restarts > 25 {
                    // the shell does not get through its scripts at all: the
                    // failures seen so far are the verdict, the rest is not run
                    all.aborted = rest.len();
                    break;
                }
            }
        }
    }
    all
}

fn run_batch_once(tree: &Tree, words: &[(usize, &[Unit])], noglob: bool, mode: Mode) -> RunOut {
    let mut script = String::new();
    if noglob {
        script.push_str("set -f\n");
    }
    for (idx, us) in words {
        script.push_str(&script_line(*idx, us));
    }
    let mut got = HashMap::new();
    match mode {
        Mode::Sim => {
            let mut cfg = ShellCfg::command(&script);
            cfg.files = tree.files();
            cfg.cwd = Some(tree.cwd.clone());
            cfg.step_limit = 200_000_000;
            match catch(move || run_shell(cfg)) {
                Ok(r) => {
                    collect_probes(&r.events, &mut got);
                    let outcome = match &r.outcome {
                        Outcome::Completed => "completed".to_string(),
                        _ => r.outcome_str(),
                    };
                    RunOut { outcome, got, failed: HashMap::new(), aborted: 0 }
                }
                Err(msg) => RunOut { outcome: format!("panic: {msg}"), got, failed: HashMap::new(), aborted: 0 },
            }
        }
        Mode::Real => {
            // the script goes through standard input (a file): no limit on its length
            let mut cfg = RealCfg::command("", true);
            cfg.args = vec![];
            cfg.stdin = script.clone().into_bytes();
            cfg.files = tree.files();
            cfg.timeout = std::time::Duration::from_secs(120);
            cfg.env = vec![
                ("YV_C05_CHROOT".to_string(), tree.cwd.clone()),
                ("YV_EVENTS".to_string(), "/.yv-events".to_string()),
            ];
            let r = run_real(&cfg);
            let mut events: Vec<Value> = r.events.clone();
            for (name, content) in &r.files {
                if name == ".yv-events" {
                    for l in String::from_utf8_lossy(content).lines() {
                        if let Ok(v) = serde_json::from_str(l) {
                            events.push(v);
                        }
                    }
                }
            }
            collect_probes(&events, &mut got);
            let outcome = if r.timed_out {
                "timeout".to_string()
            } else if r.status != 0 {
                format!("status {}: {}", r.status, String::from_utf8_lossy(&r.stderr).chars().take(300).collect::<String>())
            } else {
                "completed".to_string()
            };
            RunOut { outcome, got, failed: HashMap::new(), aborted: 0 }
        }
    }
}

// ---------------------------------------------------------------------------
// replay (spec -> impl)
// ---------------------------------------------------------------------------
/// Glob!WeakOK for a word with a component of unspecified meaning: the word
/// itself, or a non-empty strictly sorted (byte order) list of pathnames out of
/// `universe` (the existing pathnames that match when the open component is
/// read as "any entry").
fn weak_ok(got: &[String], field: &str, universe: &[String]) -> bool {
    if got.len() == 1 && got[0] == field {
        return true;
    }
    !got.is_empty() && got.windows(2).all(|w| w[0].as_bytes() < w[1].as_bytes()) && got.iter().all(|g| universe.contains(g))
}

struct Case {
    f: Vec<usize>,
    un: bool,
    ng: String,
    /// per tree: None = outside the modelled part of the file system
    r: Vec<Option<Vec<Vec<String>>>>,
}

fn replay(args: &[String]) {
    let mut alphabet: Vec<Unit> = vec![];
    let mut trees: Vec<Tree> = vec![];
    let mut cases: Vec<Case> = vec![];
    for line in open_in(args).lines() {
        let line = line.expect("read");
        if line.trim().is_empty() {
            continue;
        }
        let v: Value = serde_json::from_str(&line).expect("json line from TLC");
        if v.get("hdr").is_some() {
            alphabet = units_from_json(&v["alphabet"]);
            trees = v["trees"].as_array().unwrap().iter().map(Tree::from_json).collect();
            continue;
        }
        let strs = |x: &Value| -> Vec<String> { x.as_array().unwrap().iter().map(|s| s.as_str().unwrap().to_string()).collect() };
        cases.push(Case {
            f: v["f"].as_array().unwrap().iter().map(|x| x.as_u64().unwrap() as usize).collect(),
            un: v["un"].as_bool().unwrap(),
            ng: v["ng"].as_str().unwrap().to_string(),
            r: v["r"]
                .as_array()
                .unwrap()
                .iter()
                .map(|t| if t["o"].as_bool().unwrap() { None } else { Some(t["a"].as_array().unwrap().iter().map(strs).collect()) })
                .collect(),
        });
    }
    if trees.is_empty() || alphabet.is_empty() {
        eprintln!("yv-c05 replay: no header line");
        std::process::exit(2);
    }
    let real_first = opt_usize(args, "--real-first", 0);
    let real_stride = opt_usize(args, "--real-stride", 0);
    let noglob_trees = opt_usize(args, "--noglob-trees", 2);
    let words: Vec<Vec<Unit>> = cases.iter().map(|c| c.f.iter().map(|i| alphabet[*i - 1].clone()).collect()).collect();
    let mut out = open_out(args);

    let mut n_sim = 0usize;
    let mut n_real = 0usize;
    let mut n_noglob = 0usize;
    let mut n_outside = 0usize;
    let mut n_nontrivial = 0usize;
    let mut n_choice = 0usize;
    let mut n_mismatch = 0usize;
    let mut n_sim_only = 0usize;
    let mut real_trees = 0usize;
    let mut n_not_run = 0usize;
    let mut n_weak = 0usize;
    let mut samples: Vec<Value> = vec![];
    let n_un = cases.iter().filter(|c| c.un).count();

    for (ti, tree) in trees.iter().enumerate() {
        // the words judged in this tree
        let sel: Vec<(usize, &[Unit])> =
            cases.iter().enumerate().filter(|(_, c)| c.r[ti].is_some()).map(|(i, _)| (i, words[i].as_slice())).collect();
        n_outside += cases.iter().filter(|c| c.r[ti].is_none()).count();
        let on_real = tree.has_links() || ti < real_first || (real_stride > 0 && ti % real_stride == 0);
        let sim = run_batch(tree, &sel, false, Mode::Sim);
        n_not_run += sim.aborted;
        // a word counts as deviating if its result is not allowed or it failed;
        // words of an abandoned batch (neither result nor failure) are not judged
        let conforms = |r: &RunOut, i: &usize| {
            let allowed = cases[*i].r[ti].as_ref().unwrap();
            match r.got.get(i) {
                Some(g) if cases[*i].un => weak_ok(g, &cases[*i].ng, &allowed[0]),
                Some(g) => allowed.iter().any(|a| a == g),
                None => !r.failed.contains_key(i),
            }
        };
        let real = if on_real {
            real_trees += 1;
            let r = run_batch(tree, &sel, false, Mode::Real);
            if r.got.is_empty() && !sim.got.is_empty() && !sel.is_empty() {
                // the same shell delivers results on the simulated system: the
                // real run did not work for reasons outside the code under test
                eprintln!("yv-c05: no probe event from the real run of tree {} ({})", ti + 1, r.outcome);
                std::process::exit(2);
            }
            n_not_run += r.aborted;
            Some(r)
        } else {
            // words on which the simulated run deviates are also run on the
            // real file system, so that every deviation can be classified
            let bad: Vec<(usize, &[Unit])> = sel.iter().filter(|(i, _)| !conforms(&sim, i)).cloned().collect();
            if bad.is_empty() { None } else { Some(run_batch(tree, &bad, false, Mode::Real)) }
        };
        for (i, us) in &sel {
            let allowed = cases[*i].r[ti].as_ref().unwrap();
            let trivial = cases[*i].un || allowed.len() == 1 && allowed[0].len() == 1 && allowed[0][0] == cases[*i].ng;
            if cases[*i].un {
                n_weak += 1;
            }
            if !trivial {
                n_nontrivial += 1;
            }
            if allowed.len() > 1 {
                n_choice += 1;
            }
            let ok = |r: &RunOut| conforms(r, i);
            // a real run on demand only holds the deviating words
            let real_ok = real.as_ref().filter(|r| on_real || r.got.contains_key(i) || !ok(&sim)).map(&ok);
            n_sim += 1;
            if real_ok.is_some() {
                n_real += 1;
            }
            let mut report = |mode: Mode, r: &RunOut, real_state: &str| {
                let (pre, word) = render(us);
                let rec = json!({
                    "mode": mode.name(), "tree": tree.to_json(), "links": tree.has_links(), "real": real_state,
                    "units": units_to_json(us), "text": format!("{pre}probe {word}"), "field": cases[*i].ng, "noglob": false, "weak": cases[*i].un,
                    "allowed": allowed, "observed": r.got.get(i), "missing": !r.got.contains_key(i), "outcome": r.outcome_of(i),
                });
                writeln!(out, "{rec}").unwrap();
            };
            let real_state = match real_ok {
                None => "notrun",
                Some(true) => "conforms",
                Some(false) => "differs",
            };
            if !ok(&sim) {
                n_mismatch += 1;
                if real_ok == Some(true) {
                    n_sim_only += 1;
                }
                report(Mode::Sim, &sim, real_state);
            }
            if let (Some(r), Some(false)) = (&real, real_ok) {
                n_mismatch += 1;
                report(Mode::Real, r, real_state);
            }
            let want_sample = match samples.len() {
                0 | 1 => allowed.len() == 1 && allowed[0].len() >= 3 && us.len() >= 2,
                2 => allowed.len() > 1,
                3 => tree.has_links() && !trivial && allowed[0].len() >= 2,
                4 | 5 => !trivial && *i % 97 == 3,
                _ => false,
            };
            if want_sample {
                let (pre, word) = render(us);
                samples.push(json!({"tree": ti + 1, "cwd": tree.cwd, "word": format!("{pre}probe {word}"), "allowed": allowed,
                    "observed_sim": sim.got.get(i), "observed_real": real.as_ref().and_then(|r| r.got.get(i))}));
            }
        }
        // noglob: the word itself, whatever the tree
        if ti < noglob_trees {
            let all: Vec<(usize, &[Unit])> = cases.iter().enumerate().map(|(i, _)| (i, words[i].as_slice())).collect();
            let mut runs = vec![(Mode::Sim, run_batch(tree, &all, true, Mode::Sim))];
            if on_real {
                runs.push((Mode::Real, run_batch(tree, &all, true, Mode::Real)));
            }
            for (mode, r) in &runs {
                for (i, us) in &all {
                    n_noglob += 1;
                    let want = vec![cases[*i].ng.clone()];
                    if !r.got.contains_key(i) && !r.failed.contains_key(i) {
                        continue; // batch abandoned after repeated failures
                    }
                    if r.got.get(i) != Some(&want) {
                        n_mismatch += 1;
                        let (pre, word) = render(us);
                        let rec = json!({
                            "mode": mode.name(), "tree": tree.to_json(), "links": tree.has_links(), "real": "notrun",
                            "units": units_to_json(us), "text": format!("set -f; {pre}probe {word}"), "field": cases[*i].ng, "noglob": true,
                            "allowed": [want], "observed": r.got.get(i), "missing": !r.got.contains_key(i), "outcome": r.outcome_of(i),
                        });
                        writeln!(out, "{rec}").unwrap();
                    }
                }
            }
        }
    }
    out.flush().unwrap();
    let summary = json!({
        "trees": trees.len(), "words": cases.len(), "unspecified_words": n_un, "outside_cases": n_outside,
        "sim_cases": n_sim, "real_cases": n_real, "real_trees": real_trees, "noglob_cases": n_noglob,
        "nontrivial_cases": n_nontrivial, "cases_with_choice": n_choice,
        "mismatches": n_mismatch, "sim_only_mismatches": n_sim_only, "not_run_after_failures": n_not_run, "weakly_judged_cases": n_weak, "samples": samples,
    });
    println!("{summary}");
}

// ---------------------------------------------------------------------------
// random (impl -> spec)
// ---------------------------------------------------------------------------
const NAMES: &[&str] = &[
    "a", "b", "ab", "ba", "abc", ".a", ".b", ".ab", "-", "[", "]", "*", "?", "a]", "[a]", "!", "^", "a-b", "sub", "x.y", "..a", "a.",
    "b*", "-a", "a\\", "\\a", "a\\b", "\\",
];

fn pick<'a, T>(rng: &mut StdRng, xs: &'a [T]) -> &'a T {
    &xs[rng.gen_range(0..xs.len())]
}

fn random_tree(rng: &mut StdRng) -> Tree {
    let mut nodes: Vec<Node> = vec![Node { p: "/w".into(), k: "d".into(), to: "".into() }];
    let n = rng.gen_range(0..16);
    let pool: Vec<&str> = (0..7).map(|_| *pick(rng, NAMES)).collect();
    for _ in 0..n {
        // parent: an existing directory of depth <= 3
        let dirs: Vec<String> = nodes.iter().filter(|x| x.k == "d" && x.p.matches('/').count() <= 3).map(|x| x.p.clone()).collect();
        let parent = pick(rng, &dirs).clone();
        let name = *pick(rng, &pool);
        let p = format!("{parent}/{name}");
        if nodes.iter().any(|x| x.p == p) {
            continue;
        }
        let r = rng.gen_range(0..10);
        let (k, to) = if r < 5 {
            ("f", String::new())
        } else if r < 8 {
            ("d", String::new())
        } else {
            let targets = ["..", "../a", "sub", "a", "nope", ".", "../..", "/w", "/w/sub", "b/..", "../sub/a"];
            let t = if rng.gen_bool(0.5) { pick(rng, &targets).to_string() } else { pick(rng, &pool).to_string() };
            ("l", t)
        };
        nodes.push(Node { p, k: k.into(), to });
    }
    // sibling directories one of whose names is a proper prefix of the other's,
    // the next character sorting below '/': whole-pathname order differs from
    // component-wise order there
    if rng.gen_range(0..3) == 0 {
        let dirs: Vec<String> = nodes.iter().filter(|x| x.k == "d" && x.p.matches('/').count() <= 2).map(|x| x.p.clone()).collect();
        let parent = pick(rng, &dirs).clone();
        let base = *pick(rng, &["a", "b", "ab", "sub"]);
        let child = *pick(rng, &pool);
        for suffix in ["", "-", ".d", "*", "+", "b"] {
            if !suffix.is_empty() && rng.gen_bool(0.4) {
                continue;
            }
            let d = format!("{parent}/{base}{suffix}");
            if nodes.iter().any(|x| x.p == d) {
                continue;
            }
            nodes.push(Node { p: d.clone(), k: "d".into(), to: String::new() });
            nodes.push(Node { p: format!("{d}/{child}"), k: "f".into(), to: String::new() });
        }
    }
    let dirs: Vec<String> = nodes.iter().filter(|x| x.k == "d").map(|x| x.p.clone()).collect();
    let cwd = if rng.gen_bool(0.7) { "/w".to_string() } else { pick(rng, &dirs).clone() };
    Tree { cwd, nodes }
}

fn lit(s: &str) -> Unit {
    Unit { k: "lit".into(), s: s.to_string() }
}

/// A bracket expression (or other one-character pattern) that matches `c`.
fn pattern_for(rng: &mut StdRng, c: char) -> String {
    match rng.gen_range(0..8) {
        0 | 1 => "?".to_string(),
        2 => match c {
            ']' => "[]]".to_string(),
            '!' | '^' => format!("[x{c}]"),
            _ => format!("[{c}]"),
        },
        3 => "[!z]".to_string(),
        4 => if c.is_ascii_lowercase() { "[a-z]".to_string() } else { "[!a-z]".to_string() },
        5 => if c.is_ascii_alphabetic() { "[[:alpha:]]".to_string() } else { "[![:alpha:]]".to_string() },
        6 => match c {
            ']' => "[]x]".to_string(),
            '!' | '^' | '-' => format!("[x{c}]"),
            _ => format!("[{c}x]"),
        },
        _ => if c == '-' { "[!a]".to_string() } else { format!("[^{}]", if c == 'q' { 'r' } else { 'q' }) },
    }
}

fn quoted(rng: &mut StdRng, s: &str) -> Vec<Unit> {
    match rng.gen_range(0..3) {
        0 => vec![Unit { k: "sq".into(), s: s.to_string() }],
        1 => vec![Unit { k: "dq".into(), s: s.to_string() }],
        _ => s.chars().map(|c| Unit { k: "bs".into(), s: c.to_string() }).collect(),
    }
}

/// One pathname component aimed at the name `name`.
fn random_component(rng: &mut StdRng, name: &str) -> Vec<Unit> {
    const GENERIC: &[&str] = &[
        "*", "?", "??", "*?", "[ab]", "[!a]", "[^b]*", "[a-b]", "[!.]*", "[.]*", ".*", "*.", "[]]", "[[]", "[*]", "[]-]", "[!]a]", "[a", "a]",
        "**", "[[:alpha:]]*", "[![:punct:]]", "..", ".", "", "[a-]", "[--a]", "*[!a]", "?*[]b]", "[!-]*", "[[:punct:]]", ".[!.]*", ".?", "[.]?",
    ];
    const VALUES: &[&str] = &["*", "?", "[ab]", "a*", "\\*", "\\?", "[!a]*", ".*", "\\[a]", "a\\b", "\\.a", "[a\\]b]", "*\\", "a", "?\\*", "*\\a"];
    let roll = rng.gen_range(0..20);
    // a backslash can only be written quoted
    let roll = if name.contains('\\') && roll <= 3 { 4 } else { roll };
    match roll {
        0..=3 => vec![lit(name)],
        4..=6 => quoted(rng, name),
        7..=13 => {
            // the name with some characters replaced by patterns that match them
            let mut us = vec![];
            let chars: Vec<char> = name.chars().collect();
            let mut i = 0;
            while i < chars.len() {
                let c = chars[i];
                let r = rng.gen_range(0..10);
                let r = if c == '\\' && r != 3 { if r < 3 { 10 } else { 4 } } else { r };
                match r {
                    10 => us.push(lit("?")),
                    0..=2 => us.push(lit(&pattern_for(rng, c))),
                    3 => {
                        us.push(lit("*"));
                        i += rng.gen_range(0..=chars.len() - i - 1);
                    }
                    4 => us.extend(quoted(rng, &c.to_string())),
                    5 => us.push(Unit { k: if rng.gen_bool(0.7) { "var" } else { "dqvar" }.into(), s: pattern_for(rng, c) }),
                    _ => {
                        if "*?[]!^-.".contains(c) && rng.gen_bool(0.5) {
                            us.extend(quoted(rng, &c.to_string()));
                        } else {
                            us.push(lit(&c.to_string()));
                        }
                    }
                }
                i += 1;
            }
            us
        }
        14..=17 => {
            let g = *pick(rng, GENERIC);
            if g.is_empty() { vec![] } else { vec![lit(g)] }
        }
        _ => vec![Unit { k: if rng.gen_bool(0.8) { "var" } else { "dqvar" }.into(), s: pick(rng, VALUES).to_string() }],
    }
}

fn random_word(rng: &mut StdRng, tree: &Tree) -> Vec<Unit> {
    let mut us: Vec<Unit> = vec![];
    match rng.gen_range(0..20) {
        0 | 1 => us.push(lit("/w/")),
        2 | 3 => us.push(lit("./")),
        4 => us.push(lit("../")),
        5 => us.push(lit("//w//")),
        6 => {
            let homes = ["/w", "/w/*", "/w/sub", "/w/[ab]", "/w/?"];
            us.push(Unit { k: "tilde".into(), s: pick(rng, &homes).to_string() });
            us.push(lit("/"));
        }
        _ => {}
    }
    // follow a random path of the tree (so that components tend to hit)
    let target = pick(rng, &tree.nodes).p.clone();
    let names: Vec<&str> = target.split('/').filter(|s| !s.is_empty()).skip(1).collect();
    let ncomp = rng.gen_range(1..=3);
    for j in 0..ncomp {
        let name = if j < names.len() && rng.gen_bool(0.8) { names[j] } else { *pick(rng, NAMES) };
        us.extend(random_component(rng, name));
        if j + 1 < ncomp || rng.gen_range(0..6) == 0 {
            if rng.gen_range(0..8) == 0 {
                us.push(Unit { k: "dq".into(), s: "/".into() });
            } else {
                us.push(lit("/"));
            }
        }
    }
    if us.is_empty() {
        us.push(lit("*"));
    }
    us
}

fn random(args: &[String]) {
    let runs = opt_usize(args, "--runs", 100);
    let per = opt_usize(args, "--words", 40);
    let real_every = opt_usize(args, "--real-every", 4);
    let seed = yvcommon::util::seed();
    let mut rng = StdRng::seed_from_u64(seed.wrapping_mul(0x9E37_79B9_7F4A_7C15) ^ 0xC05);
    let mut out = open_out(args);
    let mut n = 0usize;
    for run in 0..runs {
        let tree = random_tree(&mut rng);
        let words: Vec<Vec<Unit>> = (0..per).map(|_| random_word(&mut rng, &tree)).collect();
        let sel: Vec<(usize, &[Unit])> = words.iter().enumerate().map(|(i, w)| (i, w.as_slice())).collect();
        let noglob = run % 10 == 9;
        // every batch runs on the simulated and on the real file system; one
        // record if they deliver the same fields, else one record each
        let _ = real_every;
        let rs = run_batch(&tree, &sel, noglob, Mode::Sim);
        let rr = run_batch(&tree, &sel, noglob, Mode::Real);
        for (i, w) in &sel {
            let gs = rs.got.get(i);
            let gr = rr.got.get(i);
            let mut emit = |mode: &str, got: Option<&Vec<String>>, outcome: &str| {
                let (pre, word) = render(w);
                let text = format!("{pre}probe {word}");
                let rec = json!({
                    "mode": mode,
                    "id": format!("{run}.{i}"),
                    "links": tree.has_links(),
                    "cwd": tree.cwd.split('/').filter(|s| !s.is_empty()).collect::<Vec<_>>(),
                    "nodes": tree.nodes.iter().map(|nd| json!({
                        "p": nd.p.split('/').filter(|s| !s.is_empty()).collect::<Vec<_>>(),
                        "k": nd.k,
                        "to": if nd.to.is_empty() { vec![] } else { nd.to.split('/').collect::<Vec<_>>() },
                    })).collect::<Vec<_>>(),
                    "us": units_to_json(w),
                    "ng": noglob,
                    "pn": got.is_none(),
                    "out": got.cloned().unwrap_or_default(),
                    "outcome": outcome,
                    "text": text,
                });
                writeln!(out, "{rec}").unwrap();
                n += 1;
            };
            if gs == gr {
                emit("both", gs, &rs.outcome_of(i));
            } else {
                emit("sim", gs, &rs.outcome_of(i));
                emit("real", gr, &rr.outcome_of(i));
            }
        }
    }
    out.flush().unwrap();
    println!("{}", json!({"records": n, "runs": runs}));
}

// ---------------------------------------------------------------------------
// redo: re-run mismatch records (as written by `replay`) on the current tree
// ---------------------------------------------------------------------------
fn redo(args: &[String]) {
    let mut out = open_out(args);
    let mut bad = 0;
    for line in open_in(args).lines() {
        let line = line.unwrap();
        if line.trim().is_empty() {
            continue;
        }
        let v: Value = serde_json::from_str(&line).expect("json");
        if v.get("us").is_some() {
            // a record of `random`: run it again, emit records in the same format
            let join = |x: &Value| x.as_array().unwrap().iter().map(|s| s.as_str().unwrap()).collect::<Vec<_>>().join("/");
            let tree = Tree {
                cwd: format!("/{}", join(&v["cwd"])),
                nodes: v["nodes"].as_array().unwrap().iter().map(|n| Node {
                    p: format!("/{}", join(&n["p"])), k: n["k"].as_str().unwrap().to_string(), to: join(&n["to"]),
                }).collect(),
            };
            let us = units_from_json(&v["us"]);
            let noglob = v["ng"].as_bool().unwrap_or(false);
            let modes: &[Mode] = match v["mode"].as_str() {
                Some("sim") => &[Mode::Sim],
                Some("real") => &[Mode::Real],
                _ => &[Mode::Sim, Mode::Real],
            };
            for m in modes {
                let r = run_batch(&tree, &[(0, us.as_slice())], noglob, *m);
                let mut rec = v.clone();
                rec["mode"] = json!(m.name());
                rec["pn"] = json!(!r.got.contains_key(&0));
                rec["out"] = json!(r.got.get(&0).cloned().unwrap_or_default());
                rec["outcome"] = json!(r.outcome);
                writeln!(out, "{rec}").unwrap();
            }
            continue;
        }
        let tree = Tree::from_json(&v["tree"]);
        let us = units_from_json(&v["units"]);
        let mode = if v["mode"] == "real" { Mode::Real } else { Mode::Sim };
        let noglob = v["noglob"].as_bool().unwrap_or(false);
        let r = run_batch(&tree, &[(0, us.as_slice())], noglob, mode);
        let allowed: Vec<Vec<String>> = v["allowed"]
            .as_array()
            .unwrap()
            .iter()
            .map(|a| a.as_array().unwrap().iter().map(|s| s.as_str().unwrap().to_string()).collect())
            .collect();
        let weak = v["weak"].as_bool().unwrap_or(false);
        let ok = r
            .got
            .get(&0)
            .map(|g| if weak { weak_ok(g, v["field"].as_str().unwrap_or(""), &allowed[0]) } else { allowed.iter().any(|a| a == g) })
            .unwrap_or(false);
        if !ok {
            bad += 1;
        }
        writeln!(out, "{}", json!({"ok": ok, "text": v["text"], "allowed": allowed, "observed": r.got.get(&0), "outcome": r.outcome})).unwrap();
    }
    out.flush().unwrap();
    println!("{}", json!({"bad": bad}));
}

fn main() {
    // Child of a real-OS run: confine the shell to the scratch directory so
    // that "/" is the root of the modelled tree, then start in the tree's cwd.
    if let Ok(cwd) = std::env::var("YV_C05_CHROOT") {
        unsafe { std::env::remove_var("YV_C05_CHROOT") };
        let dot = std::ffi::CString::new(".").unwrap();
        let c = std::ffi::CString::new(cwd).unwrap();
        let rc = unsafe { libc::chroot(dot.as_ptr()) };
        let rc2 = unsafe { libc::chdir(c.as_ptr()) };
        if rc != 0 || rc2 != 0 {
            eprintln!("yv-c05: chroot/chdir failed");
            std::process::exit(97);
        }
    }
    yvcommon::real::maybe_child_main();
    if std::env::var("YV_LOUD").is_err() {
        yvcommon::util::quiet_panics();
    }
    let args: Vec<String> = std::env::args().skip(1).collect();
    match args.first().map(|s| s.as_str()) {
        Some("replay") => replay(&args),
        Some("random") => random(&args),
        Some("redo") => redo(&args),
        _ => {
            eprintln!("usage: yv-c05 replay|random|redo [--in F] [--out F] ...");
            std::process::exit(2);
        }
    }
    let _ = opt(&args, "--unused");
}
