//! Conformance harness for property C11, see /verif/DESIGN.md.
fn main() {
    eprintln!("yv-c11: not implemented yet");
    std::process::exit(2);
}
