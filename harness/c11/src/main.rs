//! Conformance harness for property C11 (signal dispositions and traps),
//! see /verif/DESIGN.md section 6 "C11".
mod shellrun;
mod trapset;

fn main() {
    // shell children of the real-kernel stage re-execute this binary
    yvcommon::real::maybe_child_main();
    let args: Vec<String> = std::env::args().collect();
    if args.len() < 2 {
        eprintln!("usage: yv-c11 <replay|random|redo|shell> ...");
        std::process::exit(2);
    }
    let rest = &args[2..];
    let code = match args[1].as_str() {
        "replay" => trapset::replay(rest),
        "random" => trapset::random(rest),
        "redo" => trapset::redo(rest),
        "midop" => trapset::midop(rest),
        "shell" => shellrun::shell(rest),
        "shell1" => shellrun::shell1(rest),
        "shellreal" => shellrun::shellreal(rest),
        other => {
            eprintln!("unknown subcommand {other}");
            2
        }
    };
    std::process::exit(code);
}
