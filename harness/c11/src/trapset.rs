//! C11 phase 1: `TrapSet` over a real simulated process.
//!
//! Replays the histories enumerated by TLC from spec/Trap.tla on a real
//! `yash_env::trap::TrapSet` whose `SignalSystem` is
//! `Rc<Concurrent<VirtualSystem>>` (so dispositions, signal mask and pending
//! signals are those of the simulated process), applies every operation of the
//! alphabet in every state and records what is observed through the public
//! API.  The records are judged by spec/Trace_Trap.tla (contract TrapAbs.tla);
//! nothing is judged here.
use futures_util::FutureExt as _;
use rand::{Rng, SeedableRng};
use serde_json::{Value, json};
use std::io::{BufRead, Write};
use std::rc::Rc;
use yash_env::Env;
use yash_env::job::{ProcessResult, ProcessState};
use yash_env::signal::Number;
use yash_env::source::Location;
use yash_env::system::r#virtual::{
    SIGCHLD, SIGINT, SIGKILL, SIGQUIT, SIGSTOP, SIGTERM, SIGTSTP, SIGTTIN, SIGTTOU, SIGUSR1,
    VirtualSystem,
};
use yash_env::system::{Concurrent, Disposition, Errno, Signals, Sigset as _};
use std::cell::Cell;
use yash_env::trap::{Action, Condition, Origin, SetActionError, SignalSystem, TrapState};
use yvcommon::util;

pub const ALL_CONDS: [&str; 11] = [
    "EXIT", "INT", "QUIT", "KILL", "TERM", "CHLD", "STOP", "TSTP", "TTIN", "TTOU", "USR1",
];

fn signal_of(name: &str) -> Option<Number> {
    Some(match name {
        "INT" => SIGINT,
        "QUIT" => SIGQUIT,
        "KILL" => SIGKILL,
        "TERM" => SIGTERM,
        "CHLD" => SIGCHLD,
        "STOP" => SIGSTOP,
        "TSTP" => SIGTSTP,
        "TTIN" => SIGTTIN,
        "TTOU" => SIGTTOU,
        "USR1" => SIGUSR1,
        _ => return None,
    })
}

fn name_of(n: Number) -> String {
    for c in ALL_CONDS {
        if signal_of(c) == Some(n) {
            return c.to_string();
        }
    }
    format!("?{}", n.as_raw())
}

fn cond_of(name: &str) -> Condition {
    match signal_of(name) {
        Some(n) => Condition::Signal(n),
        None => Condition::Exit,
    }
}

fn cond_name(c: &Condition) -> String {
    match c {
        Condition::Exit => "EXIT".to_string(),
        Condition::Signal(n) => name_of(*n),
        _ => "?".to_string(),
    }
}

fn disp_name(d: Disposition) -> &'static str {
    match d {
        Disposition::Default => "D",
        Disposition::Ignore => "I",
        Disposition::Catch => "C",
    }
}

type Sys = Rc<Concurrent<VirtualSystem>>;

pub struct World {
    pub vs: VirtualSystem,
    pub env: Env<Sys>,
}

fn state_fields(s: &TrapState) -> (String, String, String, String) {
    let (act, cmd) = match &s.action {
        Action::Default => ("D".to_string(), String::new()),
        Action::Ignore => ("I".to_string(), String::new()),
        Action::Command(c) => ("C".to_string(), c.to_string()),
    };
    let (orig, loc) = match &s.origin {
        Origin::Inherited => ("I".to_string(), String::new()),
        Origin::Subshell => ("S".to_string(), String::new()),
        Origin::User(l) => ("U".to_string(), l.code.value.borrow().to_string()),
    };
    (act, cmd, orig, loc)
}

fn res(r: &str) -> Value {
    json!({"r": r, "sig": "", "act": "", "cmd": "", "orig": "", "loc": "", "list": []})
}

fn res_state(r: &str, sig: &str, s: &TrapState) -> Value {
    let (act, cmd, orig, loc) = state_fields(s);
    json!({"r": r, "sig": sig, "act": act, "cmd": cmd, "orig": orig, "loc": loc, "list": []})
}

impl World {
    /// A fresh shell process whose inherited dispositions are `init`
    /// (signal name -> "D" | "I" | "C"; "C" = a handler installed before the
    /// shell started, like the Rust runtime's for SEGV and BUS on a real kernel).
    pub fn new(init: &Value) -> World {
        let vs = VirtualSystem::new();
        if let Some(m) = init.as_object() {
            for (k, v) in m {
                let d = match v.as_str() {
                    Some("I") => Disposition::Ignore,
                    Some("C") => Disposition::Catch,
                    _ => continue,
                };
                let n = signal_of(k).expect("signal name in init");
                vs.current_process_mut().set_disposition(n, d);
            }
        }
        let env = Env::with_system(Rc::new(Concurrent::new(vs.clone())));
        World { vs, env }
    }

    fn proc_state(&self) -> &'static str {
        match self.vs.current_process().state() {
            ProcessState::Running => "R",
            ProcessState::Halted(ProcessResult::Stopped(_)) => "S",
            ProcessState::Halted(ProcessResult::Signaled { .. }) => "K",
            ProcessState::Halted(ProcessResult::Exited(_)) => "E",
        }
    }

    /// What the public API shows for the conditions `conds`.
    pub fn project(&self, conds: &[String]) -> Value {
        let mut c = serde_json::Map::new();
        let proc = self.vs.current_process();
        for name in conds {
            let cond = cond_of(name);
            let (cur, par) = self.env.traps.get_state(cond);
            let (act, cmd, orig, loc, pend) = match cur {
                None => ("V".to_string(), String::new(), "-".to_string(), String::new(), false),
                Some(s) => {
                    let f = state_fields(s);
                    (f.0, f.1, f.2, f.3, s.pending)
                }
            };
            let (pact, pcmd, porig, ploc) = match par {
                None => ("N".to_string(), String::new(), "-".to_string(), String::new()),
                Some(s) => state_fields(s),
            };
            let (sys, blk, kp) = match signal_of(name) {
                None => ("D", false, false),
                Some(n) => (
                    disp_name(proc.disposition(n)),
                    proc.blocked_signals().contains(n) == Ok(true),
                    proc.pending_signals().contains(n) == Ok(true),
                ),
            };
            c.insert(
                name.clone(),
                json!({"act": act, "cmd": cmd, "orig": orig, "loc": loc, "pend": pend,
                       "pact": pact, "pcmd": pcmd, "porig": porig, "ploc": ploc,
                       "sys": sys, "blk": blk, "kp": kp}),
            );
        }
        // iter(): the conditions listed (restricted to the projected ones) and
        // whether every item agrees with get_state of its condition
        let mut itc = vec![];
        let mut ite = true;
        for (cond, cur, par) in self.env.traps.iter() {
            let (c2, p2) = self.env.traps.get_state(*cond);
            if c2 != Some(cur) || p2 != par {
                ite = false;
            }
            let n = cond_name(cond);
            if conds.iter().any(|x| *x == n) {
                itc.push(n);
            }
        }
        drop(proc);
        json!({"proc": self.proc_state(), "c": c, "itc": itc, "ite": ite})
    }

    /// Applies one operation of the alphabet; returns the result record.
    pub fn apply(&mut self, op: &Value) -> Value {
        let system = Rc::clone(&self.env.system);
        self.apply_with(&system, op)
    }

    /// Same, with the trap set talking to `system` (the process's own system or
    /// a wrapper of it that injects a signal between two system calls).
    pub fn apply_with<S: SignalSystem>(&mut self, system: &S, op: &Value) -> Value {
        let name = op["op"].as_str().unwrap();
        let c = op["c"].as_str().unwrap_or("");
        macro_rules! done {
            ($fut:expr) => {
                match $fut.now_or_never() {
                    None => return res("hang"),
                    Some(v) => v,
                }
            };
        }
        match name {
            "set_action" => {
                let action = match op["a"].as_str().unwrap() {
                    "D" => Action::Default,
                    "I" => Action::Ignore,
                    "C" => Action::Command(op["cmd"].as_str().unwrap_or("x").into()),
                    a => panic!("bad action {a}"),
                };
                let loc = Location::dummy(op["loc"].as_str().unwrap_or("L"));
                let ov = op["ov"].as_bool().unwrap_or(false);
                let r = done!(self.env.traps.set_action(system, cond_of(c), action, loc, ov));
                match r {
                    Ok(()) => res("ok"),
                    Err(SetActionError::InitiallyIgnored) => res("ignored"),
                    Err(SetActionError::SIGKILL) => res("SIGKILL"),
                    Err(SetActionError::SIGSTOP) => res("SIGSTOP"),
                    Err(SetActionError::SystemError(_)) => res("errno"),
                }
            }
            "peek" => match self.env.traps.peek_state(system, cond_of(c)) {
                Ok(s) => res_state("ok", "", s),
                Err(_) => res("errno"),
            },
            "enable_chld" => errno(done!(
                self.env.traps.enable_internal_disposition_for_sigchld(system)
            )),
            "enable_term" => errno(done!(
                self.env.traps.enable_internal_dispositions_for_terminators(system)
            )),
            "enable_stop" => errno(done!(
                self.env.traps.enable_internal_dispositions_for_stoppers(system)
            )),
            "disable_term" => errno(done!(
                self.env.traps.disable_internal_dispositions_for_terminators(system)
            )),
            "disable_stop" => errno(done!(
                self.env.traps.disable_internal_dispositions_for_stoppers(system)
            )),
            "disable_all" => errno(done!(self.env.traps.disable_internal_dispositions(system))),
            "enter_subshell" => {
                let ii = op["ii"].as_bool().unwrap_or(false);
                let ks = op["ks"].as_bool().unwrap_or(false);
                done!(self.env.traps.enter_subshell(system, ii, ks));
                res("ok")
            }
            "deliver" => {
                // kill(2) from outside: the signal is raised at the shell process
                let n = signal_of(c).expect("signal");
                let _ = self.vs.current_process_mut().raise_signal(n);
                res("ok")
            }
            "poll" => match self.env.poll_signals() {
                None => res("none"),
                Some(list) => {
                    let mut names: Vec<String> = list.iter().map(|n| name_of(*n)).collect();
                    names.sort();
                    let mut r = res("some");
                    r["list"] = json!(names);
                    r
                }
            },
            "catch" => {
                self.env.traps.catch_signal(signal_of(c).expect("signal"));
                res("ok")
            }
            "take" => match self.env.traps.take_caught_signal() {
                None => res("none"),
                Some((n, s)) => res_state("some", &name_of(n), s),
            },
            "take_if" => match self.env.traps.take_signal_if_caught(signal_of(c).expect("signal")) {
                None => res("none"),
                Some(s) => res_state("some", c, s),
            },
            _ => panic!("unknown op {name}"),
        }
    }
}

/// Is a handler that the shell did not install (inherited "C", never blocked
/// by the shell) still in place for the signal of a `deliver` operation?  What
/// such a handler does with a signal is not the shell's business: those
/// deliveries are not exercised.
fn foreign_handler(w: &World, op: &Value) -> bool {
    if op["op"] != "deliver" {
        return false;
    }
    match signal_of(op["c"].as_str().unwrap_or("")) {
        None => false,
        Some(n) => {
            let p = w.vs.current_process();
            p.disposition(n) == Disposition::Catch && p.blocked_signals().contains(n) != Ok(true)
        }
    }
}

fn errno(r: Result<(), yash_env::system::Errno>) -> Value {
    match r {
        Ok(()) => res("ok"),
        Err(_) => res("errno"),
    }
}

fn mkop(name: &str, c: &str, a: &str, ov: bool, ii: bool, ks: bool) -> Value {
    json!({"op": name, "c": c, "a": a, "cmd": if a == "C" { "x" } else { "" },
           "loc": if name == "set_action" { "L" } else { "" }, "ov": ov, "ii": ii, "ks": ks})
}

/// The operation alphabet of spec/Trap.tla (`Next`) for the conditions `conds`.
pub fn alphabet(conds: &[String]) -> Vec<Value> {
    let has = |s: &str| conds.iter().any(|c| c == s);
    let mut v = vec![];
    for c in conds {
        for a in ["D", "I", "C"] {
            for ov in [false, true] {
                v.push(mkop("set_action", c, a, ov, false, false));
            }
        }
        v.push(mkop("peek", c, "", false, false, false));
        if c != "EXIT" {
            v.push(mkop("deliver", c, "", false, false, false));
            v.push(mkop("catch", c, "", false, false, false));
            v.push(mkop("take_if", c, "", false, false, false));
        }
    }
    let term = has("INT") || has("TERM") || has("QUIT");
    let stop = has("TSTP") || has("TTIN") || has("TTOU");
    if has("CHLD") {
        v.push(mkop("enable_chld", "", "", false, false, false));
    }
    if term {
        v.push(mkop("enable_term", "", "", false, false, false));
        v.push(mkop("disable_term", "", "", false, false, false));
    }
    if stop {
        v.push(mkop("enable_stop", "", "", false, false, false));
        v.push(mkop("disable_stop", "", "", false, false, false));
    }
    if has("CHLD") || term || stop {
        v.push(mkop("disable_all", "", "", false, false, false));
    }
    let iis: &[bool] = if has("INT") || has("QUIT") { &[false, true] } else { &[false] };
    let kss: &[bool] = if stop { &[false, true] } else { &[false] };
    for &ii in iis {
        for &ks in kss {
            v.push(mkop("enter_subshell", "", "", false, ii, ks));
        }
    }
    v.push(mkop("poll", "", "", false, false, false));
    v.push(mkop("take", "", "", false, false, false));
    v
}

/// Completes an operation coming from TLC's history (fields op, c, a, ov, ii, ks).
fn complete(op: &Value) -> Value {
    let mut o = op.clone();
    let a = o["a"].as_str().unwrap_or("").to_string();
    if o.get("cmd").is_none() {
        o["cmd"] = json!(if a == "C" { "x" } else { "" });
    }
    if o.get("loc").is_none() {
        o["loc"] = json!(if o["op"] == "set_action" { "L" } else { "" });
    }
    if let Some(m) = o.as_object_mut() {
        m.remove("r");
    }
    o
}

/// One observed step: (record, world survives?)
fn step(w: &mut World, op: &Value, conds: &[String], ev: &str) -> (Value, bool) {
    match util::catch(|| w.apply(op)) {
        Ok(r) => {
            let post = w.project(conds);
            let alive = post["proc"] == "R" && r["r"] != "hang";
            (json!({"ev": ev, "op": op, "res": r, "post": post}), alive)
        }
        Err(msg) => {
            let mut r = res("panic");
            r["cmd"] = json!(msg);
            // the state after a panic is whatever is left; it is not continued
            let post = util::catch(|| w.project(conds)).unwrap_or(json!({"proc": "P"}));
            (json!({"ev": ev, "op": op, "res": r, "post": post}), false)
        }
    }
}

fn conds_arg(args: &[String]) -> Vec<String> {
    match util::opt(args, "--conds") {
        Some(s) => {
            // canonical (map) order
            let want: Vec<&str> = s.split(',').collect();
            ALL_CONDS.iter().filter(|c| want.contains(c)).map(|c| c.to_string()).collect()
        }
        None => ALL_CONDS.iter().map(|c| c.to_string()).collect(),
    }
}

fn init_of(v: &Value, conds: &[String]) -> Value {
    // inherited disposition of every projected signal ("D" unless stated)
    let mut m = serde_json::Map::new();
    for c in conds {
        if c != "EXIT" {
            m.insert(c.clone(), json!(v.get(c).and_then(|x| x.as_str()).unwrap_or("D")));
        }
    }
    Value::Object(m)
}

/// Rebuilds the world of a history; None if it does not survive the history.
fn rebuild(init: &Value, hist: &[Value], conds: &[String]) -> Option<World> {
    let mut w = World::new(init);
    for op in hist {
        let (_, alive) = step(&mut w, op, conds, "step");
        if !alive {
            return None;
        }
    }
    Some(w)
}

/// Drift between the driver model's prediction and the observed state
/// (reported, never a verdict).
fn drifts(exp: &Value, st: &Value) -> bool {
    let Some(m) = exp.as_object() else { return false };
    for (c, e) in m {
        let o = &st["c"][c];
        let par = if o["pact"] == "N" { "N" } else { "C" };
        if e["act"] != o["act"]
            || e["orig"] != o["orig"]
            || e["pend"] != o["pend"]
            || e["par"] != par
            || e["sys"] != o["sys"]
            || e["blk"] != o["blk"]
            || e["kp"] != o["kp"]
        {
            return true;
        }
    }
    false
}

/// `replay --conds A,B --in states.ndjson --out trace.ndjson`
pub fn replay(args: &[String]) -> i32 {
    util::quiet_panics();
    let conds = conds_arg(args);
    let ops = alphabet(&conds);
    let mut out = util::open_out(args);
    let (mut states, mut tries, mut written, mut drift, mut dead_hist) = (0u64, 0u64, 0u64, 0u64, 0u64);
    let mut foreign = 0u64;
    for line in util::open_in(args).lines() {
        let line = line.unwrap();
        if line.trim().is_empty() {
            continue;
        }
        let v: Value = serde_json::from_str(&line).expect("json");
        let init = init_of(&v["init"], &conds);
        let hist: Vec<Value> = v["h"].as_array().unwrap().iter().map(complete).collect();
        // the history itself, as a chain of steps
        let mut w = World::new(&init);
        writeln!(out, "{}", json!({"ev": "reset", "init": init, "st": w.project(&conds)})).unwrap();
        written += 1;
        let mut alive = true;
        for op in &hist {
            let (rec, a) = step(&mut w, op, &conds, "step");
            writeln!(out, "{rec}").unwrap();
            written += 1;
            if !a {
                alive = false;
                break;
            }
        }
        if !alive {
            dead_hist += 1;
            continue;
        }
        states += 1;
        if drifts(&v["exp"], &w.project(&conds)) {
            drift += 1;
        }
        // every operation of the alphabet, each from a fresh copy of this state
        drop(w);
        for op in ops.iter() {
            let mut w2 = rebuild(&init, &hist, &conds).expect("history replays");
            if foreign_handler(&w2, op) {
                foreign += 1;
                continue;
            }
            let (rec, _) = step(&mut w2, op, &conds, "try");
            writeln!(out, "{rec}").unwrap();
            written += 1;
            tries += 1;
        }
    }
    out.flush().unwrap();
    eprintln!(
        "{}",
        json!({"states": states, "tries": tries, "records": written, "drift": drift,
               "histories_not_survived": dead_hist, "alphabet": ops.len(),
               "deliveries_to_foreign_handler_skipped": foreign})
    );
    0
}

fn random_op(rng: &mut rand::rngs::StdRng, conds: &[String]) -> Value {
    let sigs: Vec<&String> = conds.iter().filter(|c| *c != "EXIT").collect();
    let c = &conds[rng.gen_range(0..conds.len())];
    let s = sigs[rng.gen_range(0..sigs.len())];
    let k = rng.gen_range(0..100);
    let mut op = match k {
        0..=34 => {
            let a = ["D", "I", "C"][rng.gen_range(0..3)];
            mkop("set_action", c, a, rng.gen_bool(0.3), false, false)
        }
        35..=42 => mkop("peek", c, "", false, false, false),
        43..=46 => mkop("enable_chld", "", "", false, false, false),
        47..=50 => mkop("enable_term", "", "", false, false, false),
        51..=54 => mkop("enable_stop", "", "", false, false, false),
        55..=56 => mkop("disable_term", "", "", false, false, false),
        57..=58 => mkop("disable_stop", "", "", false, false, false),
        59..=60 => mkop("disable_all", "", "", false, false, false),
        61..=67 => mkop("enter_subshell", "", "", false, rng.gen_bool(0.5), rng.gen_bool(0.5)),
        68..=81 => mkop("deliver", s, "", false, false, false),
        82..=88 => mkop("poll", "", "", false, false, false),
        89..=93 => mkop("take", "", "", false, false, false),
        94..=96 => mkop("take_if", s, "", false, false, false),
        _ => mkop("catch", s, "", false, false, false),
    };
    if op["a"] == "C" {
        op["cmd"] = json!(["x", "y"][rng.gen_range(0..2)]);
    }
    if op["op"] == "set_action" {
        op["loc"] = json!(["L", "M", "N"][rng.gen_range(0..3)]);
    }
    op
}

/// `random --runs R --steps S --out trace.ndjson`: long random histories over
/// all conditions, beyond the exhaustive bounds.
pub fn random(args: &[String]) -> i32 {
    util::quiet_panics();
    let conds = conds_arg(args);
    let runs = util::opt_usize(args, "--runs", 100);
    let steps = util::opt_usize(args, "--steps", 40);
    let mut rng = rand::rngs::StdRng::seed_from_u64(util::seed().wrapping_mul(0x9E37_79B9) ^ 0xC11);
    let mut out = util::open_out(args);
    let (mut written, mut deaths) = (0u64, 0u64);
    for _ in 0..runs {
        let mut init = serde_json::Map::new();
        for c in &conds {
            if c != "EXIT" {
                let free = c != "KILL" && c != "STOP";
                let v = if free && rng.gen_bool(0.3) {
                    "I"
                } else if free && rng.gen_bool(0.15) {
                    "C"
                } else {
                    "D"
                };
                init.insert(c.clone(), json!(v));
            }
        }
        let init = Value::Object(init);
        let mut w = World::new(&init);
        writeln!(out, "{}", json!({"ev": "reset", "init": init, "st": w.project(&conds)})).unwrap();
        written += 1;
        for _ in 0..steps {
            let op = random_op(&mut rng, &conds);
            // deliveries that kill or stop the shell end the history: make them rare
            if foreign_handler(&w, &op) {
                continue;
            }
            if op["op"] == "deliver" {
                let c = op["c"].as_str().unwrap();
                let fatal = w.project(&conds)["c"][c]["sys"] == "D" && c != "CHLD";
                if (fatal || c == "KILL" || c == "STOP") && !rng.gen_bool(0.05) {
                    continue;
                }
            }
            let (rec, alive) = step(&mut w, &op, &conds, "step");
            writeln!(out, "{rec}").unwrap();
            written += 1;
            if !alive {
                deaths += 1;
                break;
            }
        }
    }
    out.flush().unwrap();
    eprintln!("{}", json!({"records": written, "histories_ended_by_signal": deaths}));
    0
}

/// `redo --in replay.ndjson --out trace.ndjson`: re-executes recorded
/// histories ({"init", "conds", "h": [ops], "op": op}) on the current tree.
pub fn redo(args: &[String]) -> i32 {
    util::quiet_panics();
    let mut out = util::open_out(args);
    for line in util::open_in(args).lines() {
        let line = line.unwrap();
        if line.trim().is_empty() {
            continue;
        }
        let v: Value = serde_json::from_str(&line).expect("json");
        let conds: Vec<String> = match v["conds"].as_array() {
            Some(a) => a.iter().map(|x| x.as_str().unwrap().to_string()).collect(),
            None => ALL_CONDS.iter().map(|c| c.to_string()).collect(),
        };
        let init = init_of(&v["init"], &conds);
        if v.get("mid").is_some_and(|m| !m.is_null()) {
            let hist: Vec<Value> = v["h"].as_array().cloned().unwrap_or_default().iter().map(complete).collect();
            let k = v["mid"]["k"].as_u64().unwrap() as usize;
            let rec = mid_record(&init, &hist, &conds, &complete(&v["op"]), v["mid"]["sig"].as_str().unwrap(), k, k);
            writeln!(out, "{rec}").unwrap();
            continue;
        }
        let mut w = World::new(&init);
        writeln!(out, "{}", json!({"ev": "reset", "init": init, "st": w.project(&conds)})).unwrap();
        let mut ops: Vec<Value> = v["h"].as_array().cloned().unwrap_or_default();
        if !v["op"].is_null() {
            ops.push(v["op"].clone());
        }
        for op in &ops {
            let (rec, alive) = step(&mut w, &complete(op), &conds, "step");
            writeln!(out, "{rec}").unwrap();
            if !alive {
                break;
            }
        }
    }
    out.flush().unwrap();
    0
}

// ---------------------------------------------------------------------------
// a signal arriving in the middle of an operation

/// The process's system, counting the `set_disposition` calls of the trap set
/// and raising a signal at the process just before the `at.0`-th of them.
pub struct Inject {
    inner: Sys,
    vs: VirtualSystem,
    count: Cell<usize>,
    at: Option<(usize, Number)>,
}

macro_rules! delegate_consts {
    ($($name:ident : $t:ty),* $(,)?) => {
        $(const $name: $t = <VirtualSystem as Signals>::$name;)*
    };
}

impl Signals for Inject {
    delegate_consts!(
        SIGABRT: Number, SIGALRM: Number, SIGBUS: Number, SIGCHLD: Number, SIGCLD: Option<Number>,
        SIGCONT: Number, SIGEMT: Option<Number>, SIGFPE: Number, SIGHUP: Number, SIGILL: Number,
        SIGINFO: Option<Number>, SIGINT: Number, SIGIO: Option<Number>, SIGIOT: Number, SIGKILL: Number,
        SIGLOST: Option<Number>, SIGPIPE: Number, SIGPOLL: Option<Number>, SIGPROF: Number,
        SIGPWR: Option<Number>, SIGQUIT: Number, SIGSEGV: Number, SIGSTKFLT: Option<Number>,
        SIGSTOP: Number, SIGSYS: Number, SIGTERM: Number, SIGTHR: Option<Number>, SIGTRAP: Number,
        SIGTSTP: Number, SIGTTIN: Number, SIGTTOU: Number, SIGURG: Number, SIGUSR1: Number,
        SIGUSR2: Number, SIGVTALRM: Number, SIGWINCH: Number, SIGXCPU: Number, SIGXFSZ: Number,
    );
    fn sigrt_range(&self) -> Option<std::ops::RangeInclusive<Number>> {
        self.vs.sigrt_range()
    }
}

impl SignalSystem for Inject {
    fn get_disposition(&self, signal: Number) -> Result<Disposition, Errno> {
        self.inner.get_disposition(signal)
    }
    fn set_disposition(
        &self,
        signal: Number,
        disposition: Disposition,
    ) -> impl Future<Output = Result<Disposition, Errno>> + use<> {
        let n = self.count.get() + 1;
        self.count.set(n);
        if let Some((k, s)) = self.at {
            if k == n {
                let _ = self.vs.current_process_mut().raise_signal(s);
            }
        }
        self.inner.set_disposition(signal, disposition)
    }
}

fn inject(w: &World, at: Option<(usize, Number)>) -> Inject {
    Inject { inner: Rc::clone(&w.env.system), vs: w.vs.clone(), count: Cell::new(0), at }
}

/// One operation with a signal raised just before its `k`-th system call;
/// returns (result, post state, number of system calls made).
fn mid_step(w: &mut World, op: &Value, conds: &[String], at: Option<(usize, Number)>) -> (Value, Value, usize) {
    let sys = inject(w, at);
    match util::catch(|| w.apply_with(&sys, op)) {
        Ok(r) => (r, w.project(conds), sys.count.get()),
        Err(msg) => {
            let mut r = res("panic");
            r["cmd"] = json!(msg);
            (r, json!({"proc": "P"}), sys.count.get())
        }
    }
}

/// The three runs of one mid-operation case, from the state reached by `hist`.
fn mid_record(init: &Value, hist: &[Value], conds: &[String], op: &Value, s: &str, k: usize, n: usize) -> Value {
    let num = signal_of(s).unwrap();
    let deliver = mkop("deliver", s, "", false, false, false);
    // a: the signal arrives before the operation
    let mut wa = rebuild(init, hist, conds).unwrap();
    let (_, alive) = step(&mut wa, &deliver, conds, "try");
    let a = if alive { step(&mut wa, op, conds, "try").0["post"].clone() } else { wa.project(conds) };
    // b: after it
    let mut wb = rebuild(init, hist, conds).unwrap();
    let (_, alive) = step(&mut wb, op, conds, "try");
    let b = if alive { step(&mut wb, &deliver, conds, "try").0["post"].clone() } else { wb.project(conds) };
    // m: just before the k-th system call of the operation
    let mut wm = rebuild(init, hist, conds).unwrap();
    let (r, m, _) = mid_step(&mut wm, op, conds, Some((k, num)));
    json!({"ev": "mid", "op": op, "sig": s, "k": k, "n": n, "res": r, "a": a, "b": b, "m": m,
           "init": init, "h": hist})
}

/// `midop --conds A,B --in states.ndjson --out trace.ndjson`: for every state,
/// every operation that makes at least two system calls, every signal s and
/// every k >= 2: the operation with s arriving just before its k-th system
/// call (m), next to s arriving before the operation (a) and after it (b).
pub fn midop(args: &[String]) -> i32 {
    util::quiet_panics();
    let conds = conds_arg(args);
    let ops = alphabet(&conds);
    let sigs: Vec<String> = conds.iter().filter(|c| *c != "EXIT").cloned().collect();
    let mut out = util::open_out(args);
    let (mut states, mut written, mut cases) = (0u64, 0u64, 0u64);
    let mut seen: std::collections::HashSet<String> = std::collections::HashSet::new();
    for line in util::open_in(args).lines() {
        let line = line.unwrap();
        if line.trim().is_empty() {
            continue;
        }
        let v: Value = serde_json::from_str(&line).expect("json");
        let init = init_of(&v["init"], &conds);
        let hist: Vec<Value> = v["h"].as_array().unwrap().iter().map(complete).collect();
        if rebuild(&init, &hist, &conds).is_none() {
            continue;
        }
        states += 1;
        for op in ops.iter() {
            if matches!(op["op"].as_str().unwrap(), "deliver" | "poll" | "take" | "take_if" | "catch" | "peek") {
                continue;
            }
            let mut w = rebuild(&init, &hist, &conds).unwrap();
            let (_, _, n) = mid_step(&mut w, op, &conds, None);
            if n < 2 {
                continue;
            }
            for s in &sigs {
                let w0 = rebuild(&init, &hist, &conds).unwrap();
                if foreign_handler(&w0, &mkop("deliver", s, "", false, false, false)) {
                    continue;
                }
                for k in 2..=n {
                    let rec = mid_record(&init, &hist, &conds, op, s, k, n);
                    // the verdict on a mid record depends on (op, sig, k, a, b, m) only:
                    // identical observations from different histories are written once
                    let key = format!("{}|{}|{}|{}|{}|{}", rec["op"], s, k, rec["a"], rec["b"], rec["m"]);
                    cases += 1;
                    if seen.insert(key) {
                        writeln!(out, "{rec}").unwrap();
                        written += 1;
                    }
                }
            }
        }
    }
    out.flush().unwrap();
    eprintln!("{}", json!({"states": states, "records": written, "cases": cases}));
    0
}
