//! Running one scenario of G10 in the REAL shell on the simulated OS and
//! comparing what was observed with the outcomes the specification allows.
use serde_json::{Value, json};
use std::collections::BTreeSet;
use yvcommon::sched::Outcome;
use yvcommon::shell::{FileSpec, ShellCfg, run_shell};
use yvcommon::util::catch;

pub const FILE_ORDER: [&str; 3] = ["f 2", "f1", "f3"];
pub const VAR_ORDER: [&str; 7] = ["PS4", "e", "i", "k", "x", "y", "z"];

/// What one run of the shell showed.
#[derive(Clone, Debug)]
pub struct Obs {
    pub outcome: String,
    pub status: i32,
    pub out: String,
    pub err: String,
    pub files: Vec<(String, String)>,
    pub reached: bool,
    pub vars: Vec<(String, String)>,
    pub xt: bool,
    pub vb: bool,
}

impl Obs {
    pub fn to_json(&self) -> Value {
        json!({
            "outcome": self.outcome, "status": self.status, "out": self.out, "err": self.err,
            "files": self.files.iter().map(|(a, b)| json!([a, b])).collect::<Vec<_>>(),
            "reached": self.reached,
            "vars": self.vars.iter().map(|(a, b)| json!([a, b])).collect::<Vec<_>>(),
            "xt": self.xt, "vb": self.vb,
        })
    }
}

pub fn strs(v: &Value) -> Vec<String> {
    v.as_array().map(|a| a.iter().map(|x| x.as_str().unwrap_or("").to_string()).collect()).unwrap_or_default()
}

/// Runs the script (lines) as the standard input of `yash [options]`.
/// `o`: start-up options {x, v, n, i}; `dots`: [{f, lines}] dot scripts;
/// `env`: "" or "PS4=value" (PS4 inherited from the environment).
pub fn run_scenario(lines: &[String], o: &Value, dots: &Value, env: &str) -> Obs {
    run_scenario_mode(lines, o, dots, env, false)
}

/// The verbose option may come on in this scenario (the echo of a `-c` string
/// is not documented: such scenarios run as standard input only).
pub fn may_be_verbose(lines: &[String], o: &Value) -> bool {
    // "-" followed by option letters that include v (-v, -xv, -nv)
    fn sets_v(l: &str) -> bool {
        let b = l.as_bytes();
        (0..b.len()).any(|i| {
            b[i] == b'-' && {
                let letters: Vec<u8> = b[i + 1..].iter().copied().take_while(|c| c.is_ascii_lowercase()).collect();
                !letters.is_empty() && letters.iter().all(|c| b"xvn".contains(c)) && letters.contains(&b'v')
            }
        })
    }
    o["v"].as_bool() == Some(true) || lines.iter().any(|l| l.contains("verbose") || sets_v(l))
}

/// `cmdstring`: the script is the operand of `-c` instead of the standard input.
pub fn run_scenario_mode(lines: &[String], o: &Value, dots: &Value, env: &str, cmdstring: bool) -> Obs {
    let mut text = lines.join("\n");
    text.push('\n');
    let mut argv = vec!["yash".to_string()];
    if o["x"].as_bool() == Some(true) {
        argv.push("-x".into());
    }
    if o["v"].as_bool() == Some(true) {
        argv.push("-v".into());
    }
    if o["n"].as_bool() == Some(true) {
        argv.push("-n".into());
    }
    if o["i"].as_bool() == Some(true) {
        argv.push("-i".into());
        argv.push("+m".into());
    }
    if cmdstring {
        argv.push("-c".into());
        argv.push(text.clone());
    }
    let mut cfg = ShellCfg::with_argv(argv);
    if !cmdstring {
        cfg.stdin = text.into_bytes();
    }
    cfg.cwd = Some("/w".into());
    cfg.files.push(FileSpec::Dir { path: "/w".into() });
    for d in dots.as_array().into_iter().flatten() {
        let mut t = strs(&d["lines"]).join("\n");
        t.push('\n');
        cfg.files.push(FileSpec::Regular {
            path: format!("/w/{}", d["f"].as_str().unwrap_or("d")),
            content: t.into_bytes(),
            mode: 0o644,
        });
    }
    // `env`: "" or "NAME=value", a variable in the environment of the shell
    if let Some((n, v)) = env.split_once('=') {
        cfg.env.push((n.to_string(), v.to_string()));
    }
    cfg.step_limit = 400_000;
    let res = match catch(|| run_shell(cfg)) {
        Ok(r) => r,
        Err(msg) => {
            return Obs {
                outcome: format!("panic: {msg}"),
                status: -1,
                out: String::new(),
                err: String::new(),
                files: vec![],
                reached: false,
                vars: vec![],
                xt: false,
                vb: false,
            };
        }
    };
    let outcome = match &res.outcome {
        Outcome::Completed => "completed".to_string(),
        Outcome::Deadlock => "deadlock".to_string(),
        Outcome::StepLimit => "steplimit".to_string(),
        Outcome::Panic(m) => format!("panic: {m}"),
    };
    let mut files = Vec::new();
    for f in FILE_ORDER {
        if let Some(c) = res.file_content(&format!("/w/{f}")) {
            files.push((f.to_string(), String::from_utf8_lossy(&c).into_owned()));
        }
    }
    let mut reached = false;
    let mut vars = Vec::new();
    let mut xt = false;
    let mut vb = false;
    for e in &res.events {
        if e["ev"] == "snap" && e["tag"] == "fin" && !reached {
            reached = true;
            let snap = &e["snap"];
            for n in VAR_ORDER {
                let v = &snap["vars"][n]["val"];
                if v["k"] == "scalar" {
                    vars.push((n.to_string(), v["v"].as_str().unwrap_or("").to_string()));
                }
            }
            for op in snap["opts"].as_array().into_iter().flatten() {
                if op == "xtrace" {
                    xt = true;
                }
                if op == "verbose" {
                    vb = true;
                }
            }
        }
    }
    let obs = Obs {
        outcome,
        status: res.status,
        out: String::from_utf8_lossy(&res.stdout).into_owned(),
        err: String::from_utf8_lossy(&res.stderr).into_owned(),
        files,
        reached,
        vars,
        xt,
        vb,
    };
    // the scheduler keeps the unfinished tasks, which keep the state alive (cycle)
    let ex = res.state.borrow_mut().executor.take();
    drop(ex);
    obs
}

// ---------------------------------------------------------------------------
// matching standard error against chunks (mirrors XTrace!Ends)
// ---------------------------------------------------------------------------

fn line_start_ok(s: &[u8], p: usize, q: usize, no: &[u8]) -> bool {
    if no.is_empty() {
        return true;
    }
    let mut j = p;
    while j < q {
        if (j == p || s[j - 1] == b'\n') && s[j..].starts_with(no) {
            return false;
        }
        j += 1;
    }
    true
}

/// positions (index of the next byte) reachable after `cs` from a position of `starts`
pub fn ends(cs: &[Value], s: &[u8], starts: &BTreeSet<usize>) -> BTreeSet<usize> {
    let mut cur = starts.clone();
    for c in cs {
        if cur.is_empty() {
            break;
        }
        let k = c["k"].as_str().unwrap_or("");
        let mut next = BTreeSet::new();
        match k {
            "d" => {
                let no = c["no"].as_str().unwrap_or("").as_bytes();
                for &p in &cur {
                    for q in (p + 1)..=s.len() {
                        if s[q - 1] == b'\n' && line_start_ok(s, p, q, no) {
                            next.insert(q);
                        }
                    }
                }
            }
            "p" => {
                let a = c["a"].as_array().cloned().unwrap_or_default();
                let b = c["b"].as_array().cloned().unwrap_or_default();
                next = par_ends(&a, &b, s, &cur);
            }
            _ => {
                let t = c["s"].as_str().unwrap_or("").as_bytes();
                for &p in &cur {
                    if s[p..].starts_with(t) {
                        next.insert(p + t.len());
                    }
                }
            }
        }
        cur = next;
    }
    cur
}

fn par_ends(a: &[Value], b: &[Value], s: &[u8], starts: &BTreeSet<usize>) -> BTreeSet<usize> {
    if starts.is_empty() {
        return BTreeSet::new();
    }
    if a.is_empty() {
        return ends(b, s, starts);
    }
    if b.is_empty() {
        return ends(a, s, starts);
    }
    let mut r = par_ends(&a[1..], b, s, &ends(&a[..1], s, starts));
    r.extend(par_ends(a, &b[1..], s, &ends(&b[..1], s, starts)));
    r
}

pub fn match_err(cs: &Value, s: &str) -> bool {
    let cs = cs.as_array().cloned().unwrap_or_default();
    let mut st = BTreeSet::new();
    st.insert(0usize);
    ends(&cs, s.as_bytes(), &st).contains(&s.len())
}

fn pairs(v: &Value) -> Vec<(String, String)> {
    v.as_array()
        .into_iter()
        .flatten()
        .map(|p| (p[0].as_str().unwrap_or("").to_string(), p[1].as_str().unwrap_or("").to_string()))
        .collect()
}

/// Why the observation is not the outcome `e` (None: it is).  Mirrors XTrace!Agrees.
pub fn disagreement(e: &Value, obs: &Obs) -> Option<&'static str> {
    if obs.outcome != "completed" {
        return Some("outcome");
    }
    if e["cls"] != "ok" {
        return None;
    }
    let st = e["st"].as_i64().unwrap_or(0);
    if (st == -1 && obs.status == 0) || (st != -1 && obs.status as i64 != st) {
        return Some("status");
    }
    if obs.out != e["out"].as_str().unwrap_or("") {
        return Some("stdout");
    }
    if e["errany"].as_bool() != Some(true) && !match_err(&e["err"], &obs.err) {
        return Some("stderr");
    }
    if obs.files != pairs(&e["files"]) {
        return Some("files");
    }
    let reached = e["reached"].as_bool() == Some(true);
    if obs.reached != reached {
        return Some("reached");
    }
    if reached {
        if obs.vars != pairs(&e["vars"]) {
            return Some("vars");
        }
        if Some(obs.xt) != e["xt"].as_bool() || Some(obs.vb) != e["vb"].as_bool() {
            return Some("options");
        }
    }
    None
}

/// The best explanation why none of the alternatives fits: the symptom of the
/// alternative that gets furthest.
pub fn judge(alts: &Value, obs: &Obs) -> Option<&'static str> {
    const ORDER: [&str; 8] = ["outcome", "status", "stdout", "stderr", "files", "reached", "vars", "options"];
    let mut best: Option<&'static str> = None;
    for a in alts.as_array().into_iter().flatten() {
        match disagreement(a, obs) {
            None => return None,
            Some(w) => {
                let rank = |x: &str| ORDER.iter().position(|y| *y == x).unwrap_or(0);
                if best.map(|b| rank(w) > rank(b)).unwrap_or(true) {
                    best = Some(w);
                }
            }
        }
    }
    best.or(Some("no-alternative"))
}
