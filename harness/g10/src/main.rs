//! Conformance harness for specification-growth module G10 (debugging options
//! xtrace / verbose / noexec; spec/XTrace.tla).
//!
//!   replay --in gen.ndjson --out mismatch.ndjson [--threads N]
//!       spec -> impl: every line is a scenario printed by Gen_XTrace (script,
//!       start-up options, dot scripts, the allowed outcomes); the script is
//!       run on the real shell (simulated OS) and what is observed must be one
//!       of the outcomes.
//!   random --n N --out trace.ndjson [--threads N]
//!       impl -> spec: seeded random scenarios (abstract syntax of XTrace.tla)
//!       are rendered, run and recorded; Trace_XTrace judges the records.
//!   one --in scenario.json --out record.ndjson [--show]
//!   exp FILE [options]        run a script text (development aid)
mod render;
mod run;

use rand::SeedableRng;
use serde_json::{Value, json};
use std::collections::BTreeMap;
use std::io::{BufRead, Write};
use std::sync::Mutex;
use std::sync::atomic::{AtomicUsize, Ordering};
use yvcommon::util::{self, opt, opt_usize};

#[derive(Default)]
struct Stats {
    n: usize,
    runs: usize,
    mismatches: usize,
    nontrivial: usize,
    by_fam: BTreeMap<String, usize>,
    by_class: BTreeMap<String, usize>,
    features: BTreeMap<String, usize>,
    alts_hist: BTreeMap<String, usize>,
}

impl Stats {
    fn merge(&mut self, o: Stats) {
        self.n += o.n;
        self.runs += o.runs;
        self.mismatches += o.mismatches;
        self.nontrivial += o.nontrivial;
        for (a, b) in [
            (&mut self.by_fam, o.by_fam),
            (&mut self.by_class, o.by_class),
            (&mut self.features, o.features),
            (&mut self.alts_hist, o.alts_hist),
        ] {
            for (k, v) in b {
                *a.entry(k).or_default() += v;
            }
        }
    }
    fn json(&self) -> Value {
        json!({"scenarios": self.n, "shell_runs": self.runs, "mismatches": self.mismatches, "nontrivial": self.nontrivial,
               "by_fam": self.by_fam, "by_class": self.by_class, "features": self.features, "alternatives": self.alts_hist})
    }
}

fn count_chunks(cs: &Value, f: &mut BTreeMap<String, usize>) {
    for c in cs.as_array().into_iter().flatten() {
        let k = c["k"].as_str().unwrap_or("?");
        *f.entry(format!("chunk/{k}")).or_default() += 1;
        if k == "p" {
            count_chunks(&c["a"], f);
            count_chunks(&c["b"], f);
        }
    }
}

/// features of the script text (what the enumeration exercised), counted per scenario
fn features(script: &[String], alts: &Value, f: &mut BTreeMap<String, usize>) {
    let text = script.join("\n");
    for (name, pat) in [
        ("heredoc", "<<"), ("dup", ">&"), ("fd2-redirect", "2>"), ("append", ">>"), ("cmdsub", "$("), ("arith", "$(("),
        ("for", "for "), ("case", "case "), ("function", "() {"), ("pipeline", " | "), ("not", "! "), ("and", " && "),
        ("or", " || "), ("eval", "eval "), ("dot", ". ./"), ("subshell", "(\n"), ("PS4", "PS4="), ("set+x", "+x"),
        ("set-v", "-v"), ("set-n", "-n"), ("expansion-error", "${u?}"), ("not-found", "nosuch"), ("syntax-error", ";;\n"),
        ("if", "if "), ("comment", "#"),
    ] {
        if text.contains(pat) {
            *f.entry(format!("script/{name}")).or_default() += 1;
        }
    }
    if let Some(a) = alts.as_array().and_then(|a| a.first()) {
        count_chunks(&a["err"], f);
    }
}

fn replay_one(e: &Value, st: &mut Stats) -> Vec<Value> {
    let script = run::strs(&e["script"]);
    let alts = &e["alts"];
    st.n += 1;
    *st.by_fam.entry(e["fam"].as_str().unwrap_or("?").to_string()).or_default() += 1;
    let n_alts = alts.as_array().map(|a| a.len()).unwrap_or(0);
    *st.alts_hist.entry(n_alts.to_string()).or_default() += 1;
    let mut classes: Vec<&str> = alts.as_array().into_iter().flatten().map(|a| a["cls"].as_str().unwrap_or("?")).collect();
    classes.sort();
    classes.dedup();
    let class = classes.join("+");
    *st.by_class.entry(class.clone()).or_default() += 1;
    features(&script, alts, &mut st.features);
    let obs = run::run_scenario(&script, &e["o"], &e["dots"], e["env"].as_str().unwrap_or(""));
    st.runs += 1;
    if class == "ok" {
        let a0 = &alts[0];
        if a0["err"].as_array().map(|a| !a.is_empty()).unwrap_or(false) {
            st.nontrivial += 1;
        }
    }
    let mut out = Vec::new();
    let mut report = |mode: &str, symptom: &str, obs: &run::Obs| {
        out.push(json!({
            "key": {"dir": "spec->impl", "fam": e["fam"], "symptom": symptom, "script": script.join("\n"),
                    "opts": opts_text(&e["o"]), "env": e["env"], "mode": mode},
            "detail": format!("{symptom} ({mode}): what the shell shows is none of the {n_alts} outcome(s) XTrace.tla allows"),
            "script": script, "o": e["o"], "dots": e["dots"], "sc": e["sc"], "alts": alts, "obs": obs.to_json(),
        }));
    };
    if let Some(symptom) = run::judge(alts, &obs) {
        st.mismatches += 1;
        report("stdin", symptom, &obs);
        return out;
    }
    // the same script as the operand of -c (verbose is documented for input read through a
    // descriptor only; prompts of interactive shells depend on the source)
    if !run::may_be_verbose(&script, &e["o"]) && e["o"]["i"] != true {
        let obs = run::run_scenario_mode(&script, &e["o"], &e["dots"], e["env"].as_str().unwrap_or(""), true);
        st.runs += 1;
        *st.features.entry("mode/-c".into()).or_default() += 1;
        if let Some(symptom) = run::judge(alts, &obs) {
            st.mismatches += 1;
            report("-c", symptom, &obs);
        }
    }
    out
}

fn opts_text(o: &Value) -> String {
    let mut s = String::new();
    for k in ["x", "v", "n", "i"] {
        if o[k] == true {
            s.push_str(k);
        }
    }
    s
}

fn record_of(sc: &Value, st: &mut Stats) -> Value {
    let script = render::script(sc);
    let dots = render::dots(sc);
    let env = render::env_text(sc);
    let obs = run::run_scenario(&script, &sc["o"], &dots, &env);
    st.n += 1;
    st.runs += 1;
    let mut f = BTreeMap::new();
    features(&script, &Value::Null, &mut f);
    for (k, v) in f {
        *st.features.entry(k).or_default() += v;
    }
    json!({"sc": sc, "script": script, "obs": obs.to_json()})
}

fn par_map<T: Send + Sync, F>(items: &[T], threads: usize, out: &Mutex<Box<dyn Write + Send>>, f: F) -> Stats
where
    F: Fn(&T, &mut Stats) -> Vec<Value> + Sync,
{
    let next = AtomicUsize::new(0);
    let total = Mutex::new(Stats::default());
    // results are written in input order per block; the order across blocks does not matter
    std::thread::scope(|s| {
        for _ in 0..threads.max(1) {
            s.spawn(|| {
                util::quiet_panics();
                let mut st = Stats::default();
                let mut buf: Vec<u8> = Vec::new();
                loop {
                    let i = next.fetch_add(32, Ordering::Relaxed);
                    if i >= items.len() {
                        break;
                    }
                    for it in &items[i..(i + 32).min(items.len())] {
                        for v in f(it, &mut st) {
                            buf.extend_from_slice(v.to_string().as_bytes());
                            buf.push(b'\n');
                        }
                    }
                    if buf.len() > 1 << 16 {
                        out.lock().unwrap().write_all(&buf).unwrap();
                        buf.clear();
                    }
                }
                out.lock().unwrap().write_all(&buf).unwrap();
                total.lock().unwrap().merge(st);
            });
        }
    });
    out.lock().unwrap().flush().unwrap();
    total.into_inner().unwrap()
}

fn open_out_send(args: &[String]) -> Mutex<Box<dyn Write + Send>> {
    let p = opt(args, "--out").expect("--out");
    Mutex::new(Box::new(std::io::BufWriter::with_capacity(1 << 20, std::fs::File::create(p).expect("create --out"))))
}

fn main() {
    let args: Vec<String> = std::env::args().skip(1).collect();
    let threads = opt_usize(&args, "--threads", 8);
    util::quiet_panics();
    match args.first().map(|s| s.as_str()) {
        Some("replay") => {
            let input = util::open_in(&args);
            let items: Vec<Value> = input
                .lines()
                .map(|l| l.expect("read"))
                .filter(|l| !l.trim().is_empty())
                .map(|l| serde_json::from_str(&l).expect("scenario json"))
                .collect();
            let out = open_out_send(&args);
            let st = par_map(&items, threads, &out, replay_one);
            println!("{}", st.json());
        }
        Some("random") => {
            let n = opt_usize(&args, "--n", 1000);
            let seed = util::seed();
            let mut rng = rand::rngs::StdRng::seed_from_u64(seed.wrapping_mul(0x9e37_79b9).wrapping_add(1010));
            let items: Vec<Value> = (0..n).map(|_| render::random_scenario(&mut rng)).collect();
            let out = open_out_send(&args);
            let st = par_map(&items, threads, &out, |sc, st| vec![record_of(sc, st)]);
            println!("{}", st.json());
        }
        Some("one") => {
            let p = opt(&args, "--in").expect("--in");
            let v: Value = serde_json::from_str(&std::fs::read_to_string(p).expect("read --in")).expect("json");
            let sc = if v.get("sc").is_some() { v["sc"].clone() } else { v };
            let mut st = Stats::default();
            let rec = record_of(&sc, &mut st);
            let mut out = util::open_out(&args);
            writeln!(out, "{rec}").unwrap();
            if args.iter().any(|a| a == "--show") {
                eprintln!("{}", run::strs(&rec["script"]).join("\n"));
                eprintln!("{}", serde_json::to_string_pretty(&rec["obs"]).unwrap());
            }
        }
        Some("exp") => {
            let text = std::fs::read_to_string(&args[1]).unwrap();
            let lines: Vec<String> = text.lines().map(|s| s.to_string()).collect();
            let o = json!({"x": args.iter().any(|a| a == "-x"), "v": args.iter().any(|a| a == "-v"),
                           "n": args.iter().any(|a| a == "-n"), "i": args.iter().any(|a| a == "-i")});
            let obs = run::run_scenario(&lines, &o, &json!([]), opt(&args, "--env").unwrap_or(""));
            println!("outcome={} status={} reached={} xt={} vb={}", obs.outcome, obs.status, obs.reached, obs.xt, obs.vb);
            println!("--- stdout\n{}", obs.out);
            println!("--- stderr\n{}", obs.err);
            println!("--- files {:?}\n--- vars {:?}", obs.files, obs.vars);
        }
        _ => {
            eprintln!("usage: yv-g10 replay|random|one|exp ...");
            std::process::exit(2);
        }
    }
}
