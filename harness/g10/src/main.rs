//! Conformance harness for specification-growth module g10 (see /verif/DESIGN.md 12.6).
fn main() {
    eprintln!("yv-g10: not implemented yet");
    std::process::exit(2);
}
