//! The written form of the abstract syntax of spec/XTrace.tla (a mirror of
//! XTrace!Script; Trace_XTrace.tla checks every rendered script against the
//! specification's own rendering) and the random scenario generator of the
//! impl -> spec direction.
use rand::Rng;
use rand::rngs::StdRng;
use serde_json::{Value, json};

const RESERVED: [&str; 20] = [
    "!", "{", "}", "case", "do", "done", "elif", "else", "esac", "fi", "for", "if", "in", "then", "until", "while",
    "function", "select", "time", "[[",
];

fn is_bare_char(c: char) -> bool {
    c.is_ascii_alphanumeric() || "_-+/.,:%@".contains(c)
}

pub fn wr(s: &str) -> String {
    if !s.is_empty() && s.chars().all(is_bare_char) && !RESERVED.contains(&s) {
        s.to_string()
    } else if !s.chars().any(|c| "$`\\\"\n".contains(c)) {
        format!("\"{s}\"")
    } else {
        format!("'{s}'")
    }
}

fn s<'a>(v: &'a Value, k: &str) -> &'a str {
    v[k].as_str().unwrap_or("")
}
fn arr<'a>(v: &'a Value, k: &str) -> &'a [Value] {
    v[k].as_array().map(|a| a.as_slice()).unwrap_or(&[])
}

fn ps4_text(ps: &[Value]) -> String {
    ps.iter()
        .map(|p| match s(p, "k") {
            "lit" => s(p, "s").to_string(),
            "var" => format!("${{{}}}", s(p, "n")),
            "inc" => format!("$(({}={}+1))", s(p, "n"), s(p, "n")),
            "sub" => format!("$(echo {})", s(p, "s")),
            _ => "${u?}".to_string(),
        })
        .collect()
}

pub fn word_text(w: &Value) -> String {
    match s(w, "k") {
        "lit" => wr(s(w, "s")),
        "var" => format!("${}", s(w, "n")),
        "dq" | "pos" => format!("\"${}\"", s(w, "n")),
        "inc" => format!("$(({}={}+1))", s(w, "n"), s(w, "n")),
        "sub" => format!("$({})", list_inline(arr(w, "c"))),
        "dqs" => format!("\"$({})\"", list_inline(arr(w, "c"))),
        "ps4" => format!("'{}'", ps4_text(arr(w, "p"))),
        "cat" => arr(w, "ps").iter().map(word_text).collect(),
        _ => "${u?}".to_string(),
    }
}

fn here_op_text(r: &Value) -> String {
    let d = s(r, "d");
    format!(
        "{}{}{}",
        r["fd"],
        if r["strip"] == true { "<<-" } else { "<<" },
        if r["q"] == true { format!("'{d}'") } else { d.to_string() }
    )
}

fn redir_text(r: &Value) -> String {
    match s(r, "k") {
        "out" => format!("{}>{}", r["fd"], word_text(&r["w"])),
        "app" => format!("{}>>{}", r["fd"], word_text(&r["w"])),
        "in" => format!("{}<{}", r["fd"], word_text(&r["w"])),
        "dup" => format!("{}>&{}", r["fd"], r["to"]),
        _ => here_op_text(r),
    }
}

fn simple_text(c: &Value) -> String {
    let mut parts: Vec<String> = Vec::new();
    for a in arr(c, "as") {
        parts.push(format!("{}={}", s(a, "n"), word_text(&a["w"])));
    }
    for w in arr(c, "ws") {
        parts.push(word_text(w));
    }
    for r in arr(c, "rs") {
        parts.push(redir_text(r));
    }
    parts.join(" ")
}

fn pat_text(p: &Value) -> String {
    let p = p.as_str().unwrap_or("");
    if p == "*" { "*".to_string() } else { wr(p) }
}

fn for_head(c: &Value) -> String {
    let ws = arr(c, "ws");
    let mut h = format!("for {} in", s(c, "v"));
    if !ws.is_empty() {
        h.push(' ');
        h.push_str(&ws.iter().map(word_text).collect::<Vec<_>>().join(" "));
    }
    h
}

pub fn cmd_inline(c: &Value) -> String {
    match s(c, "k") {
        "simple" => simple_text(c),
        "pipe" => arr(c, "cs").iter().map(cmd_inline).collect::<Vec<_>>().join(" | "),
        "not" => format!("! {}", cmd_inline(&c["c"])),
        "and" => format!("{} && {}", cmd_inline(&c["a"]), cmd_inline(&c["b"])),
        "or" => format!("{} || {}", cmd_inline(&c["a"]), cmd_inline(&c["b"])),
        "for" => format!("{}; do {}; done", for_head(c), list_inline(arr(c, "body"))),
        "case" => {
            let mut parts: Vec<String> = arr(c, "items")
                .iter()
                .map(|it| {
                    format!(
                        "({}) {};;",
                        arr(it, "ps").iter().map(pat_text).collect::<Vec<_>>().join("|"),
                        list_inline(arr(it, "body"))
                    )
                })
                .collect();
            parts.push("esac".into());
            format!("case {} in {}", word_text(&c["w"]), parts.join(" "))
        }
        "fdef" => format!("{}() {{ {}; }}", s(c, "n"), list_inline(arr(c, "body"))),
        "brace" => format!("{{ {}; }}", list_inline(arr(c, "body"))),
        "subsh" => format!("( {} )", list_inline(arr(c, "body"))),
        "if" => format!("if {}; then {}; fi", list_inline(arr(c, "c")), list_inline(arr(c, "t"))),
        "eval" => format!("eval '{}'", list_inline(arr(c, "c"))),
        "dot" => format!(". ./{}", s(c, "f")),
        "semi" => list_inline(arr(c, "cs")),
        _ => "?".to_string(),
    }
}

pub fn list_inline(cs: &[Value]) -> String {
    cs.iter().map(cmd_inline).collect::<Vec<_>>().join("; ")
}

fn here_ops_of(c: &Value, out: &mut Vec<Value>) {
    match s(c, "k") {
        "simple" => out.extend(arr(c, "rs").iter().filter(|r| s(r, "k") == "here").cloned()),
        "pipe" | "semi" => arr(c, "cs").iter().for_each(|x| here_ops_of(x, out)),
        "not" => here_ops_of(&c["c"], out),
        "and" | "or" => {
            here_ops_of(&c["a"], out);
            here_ops_of(&c["b"], out);
        }
        _ => {}
    }
}

pub fn stmt_lines(c: &Value, out: &mut Vec<String>) {
    match s(c, "k") {
        "for" => {
            out.push(format!("{}; do", for_head(c)));
            body_lines(arr(c, "body"), out);
            out.push("done".into());
        }
        "case" => {
            out.push(format!("case {} in", word_text(&c["w"])));
            for it in arr(c, "items") {
                out.push(format!("({})", arr(it, "ps").iter().map(pat_text).collect::<Vec<_>>().join("|")));
                body_lines(arr(it, "body"), out);
                out.push(";;".into());
            }
            out.push("esac".into());
        }
        "fdef" => {
            out.push(format!("{}() {{", s(c, "n")));
            body_lines(arr(c, "body"), out);
            out.push("}".into());
        }
        "brace" => {
            out.push("{".into());
            body_lines(arr(c, "body"), out);
            out.push("}".into());
        }
        "subsh" => {
            out.push("(".into());
            body_lines(arr(c, "body"), out);
            out.push(")".into());
        }
        "if" => {
            out.push(format!("if {}; then", list_inline(arr(c, "c"))));
            body_lines(arr(c, "t"), out);
            out.push("fi".into());
        }
        "comment" => out.push(format!("#{}", s(c, "s"))),
        "synerr" => out.push("echo oops;;".into()),
        _ => {
            out.push(cmd_inline(c));
            let mut ops = Vec::new();
            here_ops_of(c, &mut ops);
            for r in ops {
                for l in arr(&r, "body") {
                    out.push(l.as_str().unwrap_or("").to_string());
                }
                out.push(s(&r, "d").to_string());
            }
        }
    }
}

pub fn body_lines(cs: &[Value], out: &mut Vec<String>) {
    for c in cs {
        stmt_lines(c, out);
    }
}

pub fn script(sc: &Value) -> Vec<String> {
    let mut out = Vec::new();
    body_lines(arr(sc, "prog"), &mut out);
    out
}

/// "" or "PS4=value": the PS4 the shell finds in its environment
pub fn env_text(sc: &Value) -> String {
    let ps = arr(sc, "env4");
    if ps.is_empty() { String::new() } else { format!("PS4={}", ps4_text(ps)) }
}

pub fn dots(sc: &Value) -> Value {
    Value::Array(
        arr(sc, "dots")
            .iter()
            .map(|d| {
                let mut ls = Vec::new();
                body_lines(arr(d, "c"), &mut ls);
                json!({"f": d["f"], "lines": ls})
            })
            .collect(),
    )
}

// ---------------------------------------------------------------------------
// random scenarios
// ---------------------------------------------------------------------------

fn lit(x: &str) -> Value {
    json!({"k": "lit", "s": x})
}
fn simple(as_: Vec<Value>, ws: Vec<Value>, rs: Vec<Value>, id: i64) -> Value {
    json!({"k": "simple", "as": as_, "ws": ws, "rs": rs, "id": id})
}
fn cmdl(ws: &[&str]) -> Value {
    simple(vec![], ws.iter().map(|w| lit(w)).collect(), vec![], 0)
}
fn pick<'a, T>(rng: &mut StdRng, xs: &'a [T]) -> &'a T {
    &xs[rng.gen_range(0..xs.len())]
}

const LITS: [&str; 30] = [
    "a", "b c", "", "it's", "$x", "a=b", "~", "#c", "*", "a\\b", "\"q\"", "{a}", "x;y", "-n", "[a]", "a|b", "a:~", "a\tb",
    "a#b", "=", "{", "a~", "`", "&", "x y  z", "%", "a'b", "!", "<>", "(",
];
const VARS: [&str; 4] = ["x", "y", "z", "e"];
const NUMS: [&str; 2] = ["i", "k"];
const VALS: [&str; 8] = ["vx", "a b", "", "it's", "q  r", "B", "$", "7"];
const FILES: [&str; 3] = ["f1", "f 2", "f3"];

struct Gen<'a> {
    rng: &'a mut StdRng,
    next_id: i64,
    has_f: bool,
    has_g: bool,
    wrote: Vec<&'static str>,
    /// generating a statement of the script itself (not of a body)
    top: bool,
    /// the verbose option may be on (eval and dot are then left out: not documented)
    verbose: bool,
}

impl Gen<'_> {
    fn chance(&mut self, p: u32) -> bool {
        self.rng.gen_range(0..100) < p
    }

    fn word(&mut self, depth: u32, inline_sq_free: bool) -> Value {
        let r = self.rng.gen_range(0..100);
        match r {
            0..=44 => {
                let mut l = *pick(self.rng, &LITS);
                // inside an eval operand nothing may be written with a single quote
                while inline_sq_free && wr(l).contains('\'') {
                    l = *pick(self.rng, &LITS);
                }
                lit(l)
            }
            45..=54 => json!({"k": "var", "n": *pick(self.rng, &VARS)}),
            55..=66 => json!({"k": "dq", "n": *pick(self.rng, &VARS)}),
            67..=73 => json!({"k": "inc", "n": *pick(self.rng, &NUMS)}),
            74..=76 => json!({"k": "pos", "n": *pick(self.rng, &["1", "2"])}),
            77..=86 if depth > 0 => {
                let k = if self.chance(50) { "sub" } else { "dqs" };
                let n = self.rng.gen_range(1..3);
                let c: Vec<Value> = (0..n).map(|_| self.inline_cmd(depth - 1, inline_sq_free)).collect();
                json!({"k": k, "c": c})
            }
            87..=92 => {
                let a = {
                    let mut l = *pick(self.rng, &["a ", "p", "$", "x=", "1"]);
                    while inline_sq_free && wr(l).contains('\'') {
                        l = *pick(self.rng, &["a ", "p", "x=", "1"]);
                    }
                    lit(l)
                };
                let b = json!({"k": "dq", "n": *pick(self.rng, &VARS)});
                if self.chance(50) { json!({"k": "cat", "ps": [a, b]}) } else { json!({"k": "cat", "ps": [b, a]}) }
            }
            93..=94 => json!({"k": "err"}),
            _ => lit(*pick(self.rng, &["a", "b", "c"])),
        }
    }

    fn name_word(&mut self) -> Value {
        let mut names = vec!["echo", "echo", "echo", "echo", ":", "true", "false", "nosuch"];
        if self.has_f {
            names.extend(["f", "f"]);
        }
        if self.has_g {
            names.push("g");
        }
        lit(*pick(self.rng, &names))
    }

    fn set_cmd(&mut self) -> Value {
        let forms: [&[&str]; 12] = [
            &["-x"], &["+x"], &["-o", "xtrace"], &["+o", "xtrace"], &["-v"], &["+v"], &["-xv"], &["+xv"], &["-x"], &["+x"],
            &["-o", "verbose"], &["-n"],
        ];
        let f = *pick(self.rng, &forms);
        if f.iter().any(|a| a.contains('v')) {
            self.verbose = true;
        }
        let mut ws = vec!["set"];
        ws.extend(f.iter());
        cmdl(&ws)
    }

    fn assign(&mut self, depth: u32, sqf: bool) -> Value {
        if self.chance(25) {
            json!({"n": *pick(self.rng, &NUMS), "w": lit(*pick(self.rng, &["3", "7", "10"]))})
        } else if self.chance(30) {
            json!({"n": *pick(self.rng, &VARS), "w": lit(*pick(self.rng, &VALS))})
        } else {
            let mut w = self.word(depth, sqf);
            if w["k"] == "inc" || w["k"] == "pos" {
                w = lit("v");
            }
            json!({"n": *pick(self.rng, &VARS[..3]), "w": w})
        }
    }

    /// a simple command that can be written on one line inside $( ) / eval / compound commands
    fn inline_cmd(&mut self, depth: u32, sqf: bool) -> Value {
        let r = self.rng.gen_range(0..100);
        if r < 8 {
            return self.set_cmd();
        }
        if r < 16 {
            let n = self.rng.gen_range(1..3);
            return simple((0..n).map(|_| self.assign(depth, sqf)).collect(), vec![], vec![], 0);
        }
        let mut ws = vec![self.name_word()];
        for _ in 0..self.rng.gen_range(0..3) {
            ws.push(self.word(depth, sqf));
        }
        let as_ = if self.chance(15) { vec![self.assign(depth, sqf)] } else { vec![] };
        let mut rs = Vec::new();
        let mut id = 0;
        if self.chance(25) {
            let (r, touches2) = self.redir(false);
            if touches2 {
                id = self.take_id();
            }
            rs.push(r);
        }
        simple(as_, ws, rs, id)
    }

    fn take_id(&mut self) -> i64 {
        // at most two policy-relevant commands per scenario (the alternatives multiply)
        if self.next_id <= 2 {
            self.next_id += 1;
            self.next_id - 1
        } else {
            0
        }
    }

    /// (redirection, does it change descriptor 2)
    fn redir(&mut self, allow_here: bool) -> (Value, bool) {
        let r = self.rng.gen_range(0..100);
        let f = *pick(self.rng, &FILES);
        match r {
            0..=24 => {
                self.wrote.push(f);
                (json!({"k": "out", "fd": 1, "w": lit(f)}), false)
            }
            25..=39 => {
                self.wrote.push(f);
                (json!({"k": "app", "fd": 1, "w": lit(f)}), false)
            }
            40..=49 if self.next_id <= 2 => {
                self.wrote.push(f);
                let k = if self.chance(50) { "out" } else { "app" };
                (json!({"k": k, "fd": 2, "w": lit(f)}), true)
            }
            50..=57 if self.next_id <= 2 => (json!({"k": "dup", "fd": 2, "to": 1}), true),
            58..=67 => (json!({"k": "dup", "fd": 1, "to": 2}), false),
            68..=72 => (json!({"k": "dup", "fd": 3, "to": 1}), false),
            73..=76 => (json!({"k": "out", "fd": 1, "w": lit("/dev/null")}), false),
            77..=99 if allow_here => {
                let q = self.chance(35);
                let strip = self.chance(35);
                let d = *pick(self.rng, &["E", "F", "END"]);
                let n = self.rng.gen_range(0..3);
                let body: Vec<String> = (0..n)
                    .map(|_| {
                        let l = *pick(self.rng, &["h $x", "\tt $y", "plain", "", "$e$x!", " 'q' \"d\"", "\t\tz", "a $x b"]);
                        l.to_string()
                    })
                    .collect();
                (json!({"k": "here", "fd": *pick(self.rng, &[0, 0, 4]), "strip": strip, "q": q, "d": d, "body": body}), false)
            }
            _ => {
                self.wrote.push(f);
                (json!({"k": "out", "fd": 4, "w": lit(f)}), false)
            }
        }
    }

    /// a one-line statement at statement level (here-documents allowed)
    fn line_cmd(&mut self, depth: u32) -> Value {
        let r = self.rng.gen_range(0..100);
        match r {
            0..=9 => {
                // cat with an input
                let mut rs = Vec::new();
                if self.chance(60) || self.wrote.is_empty() {
                    let q = self.chance(30);
                    let strip = self.chance(30);
                    let n = self.rng.gen_range(1..3);
                    let body: Vec<String> =
                        (0..n).map(|_| pick(self.rng, &["h $x", "\tt $y", "plain", "$e$x!", "a ${x}b"]).to_string()).collect();
                    rs.push(json!({"k": "here", "fd": 0, "strip": strip, "q": q, "d": "E", "body": body}));
                } else {
                    let f = *pick(self.rng, &self.wrote.clone());
                    rs.push(json!({"k": "in", "fd": 0, "w": lit(f)}));
                }
                simple(vec![], vec![lit("cat")], rs, 0)
            }
            10..=17 => {
                // pipeline into cat
                let a = self.inline_cmd(depth, false);
                let n = self.rng.gen_range(1..3);
                let mut cs = vec![a];
                for _ in 0..n {
                    cs.push(cmdl(&["cat"]));
                }
                json!({"k": "pipe", "cs": cs})
            }
            18..=22 => json!({"k": "not", "c": self.inline_cmd(depth, false)}),
            23..=32 => {
                let k = if self.chance(50) { "and" } else { "or" };
                let mut a = self.inline_cmd(depth, false);
                if self.chance(30) {
                    let k2 = if self.chance(50) { "and" } else { "or" };
                    a = json!({"k": k2, "a": a, "b": self.inline_cmd(depth, false)});
                }
                json!({"k": k, "a": a, "b": self.inline_cmd(depth, false)})
            }
            33..=38 if !self.verbose => {
                // the operand is written between single quotes: retry until it holds none
                for _ in 0..10 {
                    let n = self.rng.gen_range(1..3);
                    let c: Vec<Value> = (0..n).map(|_| self.inline_cmd(depth.min(1), true)).collect();
                    if !list_inline(&c).contains('\'') {
                        return json!({"k": "eval", "c": c});
                    }
                }
                json!({"k": "eval", "c": [cmdl(&["echo", "ev"])]})
            }
            39..=43 => {
                // empty command with redirections only
                let (r, t2) = self.redir(true);
                let id = if t2 { self.take_id() } else { 0 };
                simple(vec![], vec![], vec![r], id)
            }
            44..=59 => {
                // a simple command with a here-document or several redirections
                let mut c = self.inline_cmd(depth, false);
                if c["ws"].as_array().map(|w| !w.is_empty()).unwrap_or(false) {
                    let (r, t2) = self.redir(true);
                    let mut id = c["id"].as_i64().unwrap_or(0);
                    if t2 && id == 0 {
                        id = self.take_id();
                    }
                    c["rs"].as_array_mut().unwrap().push(r);
                    c["id"] = json!(id);
                }
                c
            }
            _ => self.inline_cmd(depth, false),
        }
    }

    fn body(&mut self, depth: u32) -> Vec<Value> {
        let n = self.rng.gen_range(1..3);
        let top = self.top;
        self.top = false;
        let b = (0..n).map(|_| self.stmt(depth)).collect();
        self.top = top;
        b
    }

    fn stmt(&mut self, depth: u32) -> Value {
        let r = self.rng.gen_range(0..100);
        if depth == 0 || r < 52 {
            return self.line_cmd(depth.max(1) - 0);
        }
        match r {
            52..=61 => {
                let n = self.rng.gen_range(0..3);
                let ws: Vec<Value> = (0..n).map(|_| self.word(1, false)).collect();
                json!({"k": "for", "v": *pick(self.rng, &["z", "y"]), "ws": ws, "body": self.body(depth - 1)})
            }
            62..=69 => {
                let w = {
                    let mut w = self.word(1, false);
                    if w["k"] == "pos" {
                        w = json!({"k": "dq", "n": "x"});
                    }
                    w
                };
                let n = self.rng.gen_range(1..3);
                let items: Vec<Value> = (0..n)
                    .map(|i| {
                        let ps: Vec<&str> = if i + 1 == n && self.chance(50) {
                            vec!["*"]
                        } else {
                            vec![*pick(self.rng, &["vx", "a b", "a", "B", "7", "1"]), *pick(self.rng, &["q", "", "it's"])]
                        };
                        json!({"ps": ps, "body": self.body(depth - 1)})
                    })
                    .collect();
                json!({"k": "case", "w": w, "items": items})
            }
            70..=75 => json!({"k": "brace", "body": self.body(depth - 1)}),
            76..=81 => json!({"k": "subsh", "body": self.body(depth - 1)}),
            82..=86 => {
                let c = vec![self.inline_cmd(1, false)];
                json!({"k": "if", "c": c, "t": self.body(depth - 1)})
            }
            87..=92 => {
                let n = self.rng.gen_range(2..4);
                let cs: Vec<Value> = (0..n).map(|_| self.line_cmd(1)).collect();
                json!({"k": "semi", "cs": cs})
            }
            93..=95 if self.top => json!({"k": "comment", "s": *pick(self.rng, &[" note", "", " set -x  ", "!x"])}),
            _ => self.line_cmd(depth),
        }
    }
}

pub fn random_scenario(rng: &mut StdRng) -> Value {
    let mut g = Gen { rng, next_id: 1, has_f: false, has_g: false, wrote: vec![], top: false, verbose: false };
    let mode = g.rng.gen_range(0..100);
    // how the shell is started
    let o = match mode {
        0..=49 => json!({"x": true, "v": false, "n": false, "i": false}),
        50..=59 => json!({"x": true, "v": true, "n": false, "i": false}),
        60..=74 => json!({"x": false, "v": true, "n": false, "i": false}),
        75..=77 => json!({"x": false, "v": true, "n": true, "i": false}),
        78..=79 => json!({"x": false, "v": false, "n": true, "i": true}),
        _ => json!({"x": false, "v": false, "n": false, "i": false}),
    };
    g.verbose = o["v"] == true;
    let mut prog: Vec<Value> = Vec::new();
    let mut dots: Vec<Value> = Vec::new();
    // variables
    let nv = g.rng.gen_range(1..4);
    let as_: Vec<Value> = (0..nv).map(|_| json!({"n": *pick(g.rng, &VARS), "w": lit(*pick(g.rng, &VALS))})).collect();
    prog.push(simple(as_, vec![], vec![], 0));
    // PS4
    if g.chance(55) {
        let forms: Vec<Value> = vec![
            json!([{"k": "inc", "n": "i"}, {"k": "lit", "s": "+ "}]),
            json!([{"k": "var", "n": "x"}, {"k": "lit", "s": "+ "}]),
            json!([{"k": "sub", "s": "s"}, {"k": "lit", "s": "> "}]),
            json!([{"k": "lit", "s": "+"}, {"k": "inc", "n": "k"}, {"k": "var", "n": "y"}, {"k": "lit", "s": " "}]),
            json!([{"k": "lit", "s": ""}]),
            json!([{"k": "err"}, {"k": "lit", "s": "+ "}]),
            json!([{"k": "lit", "s": "++ "}]),
        ];
        let p = pick(g.rng, &forms).clone();
        prog.push(simple(vec![json!({"n": "PS4", "w": {"k": "ps4", "p": p}})], vec![], vec![], 0));
    }
    // functions
    if g.chance(50) {
        let body = g.body(1);
        prog.push(json!({"k": "fdef", "n": "f", "body": body}));
        g.has_f = true;
    }
    if g.chance(20) {
        let body = vec![simple(vec![], vec![lit("echo"), json!({"k": "pos", "n": "1"})], vec![json!({"k": "dup", "fd": 1, "to": 2})], 0)];
        prog.push(json!({"k": "fdef", "n": "g", "body": body}));
        g.has_g = true;
    }
    if g.chance(15) {
        let body = g.body(1);
        dots.push(json!({"f": "d1", "c": body}));
    }
    if o["x"] == false && g.chance(70) {
        prog.push(cmdl(&["set", "-x"]));
    }
    let n = g.rng.gen_range(2..7);
    for _ in 0..n {
        g.top = true;
        if !dots.is_empty() && !g.verbose && g.chance(12) {
            prog.push(json!({"k": "dot", "f": "d1"}));
        } else {
            let st = g.stmt(2);
            prog.push(st);
        }
    }
    if g.chance(4) {
        prog.push(json!({"k": "synerr"}));
    }
    prog.push(cmdl(&["snap", "fin"]));
    json!({"o": o, "prog": prog, "dots": dots, "env4": []})
}
