//! Projection of the yash-syntax AST to the JSON shape used by spec/Syntax.tla
//! (locations erased; runs of unquoted literal characters merged into one
//! `lit` unit).  The shape is documented at the top of spec/Syntax.tla.
use serde_json::{Value, json};
use yash_syntax::syntax::*;

#[derive(Clone, Copy)]
pub struct Opt {
    /// include here-document contents
    pub bodies: bool,
}

fn param(p: &Param) -> (String, &'static str, String) {
    match p.r#type {
        ParamType::Variable => (p.id.clone(), "var", String::new()),
        ParamType::Special(_) => (p.id.clone(), "sp", String::new()),
        ParamType::Positional(i) => (p.id.clone(), "pos", i.to_string()),
    }
}

fn modifier(m: &Modifier, o: Opt) -> Value {
    match m {
        Modifier::None => json!({"t": "none"}),
        Modifier::Length => json!({"t": "len"}),
        Modifier::Switch(s) => {
            let a = match s.action {
                SwitchAction::Alter => "+",
                SwitchAction::Default => "-",
                SwitchAction::Assign => "=",
                SwitchAction::Error => "?",
            };
            let colon = matches!(s.condition, SwitchCondition::UnsetOrEmpty);
            json!({"t": "sw", "a": a, "colon": colon, "w": word(&s.word, o)})
        }
        Modifier::Trim(t) => {
            let side = match t.side {
                TrimSide::Prefix => "#",
                TrimSide::Suffix => "%",
            };
            let long = matches!(t.length, TrimLength::Longest);
            json!({"t": "trim", "side": side, "long": long, "w": word(&t.pattern, o)})
        }
    }
}

/// Appends a literal character, merging with a preceding `lit` unit.
fn push_lit(out: &mut Vec<Value>, c: char) {
    if let Some(Value::Object(m)) = out.last_mut() {
        if m.get("t").and_then(Value::as_str) == Some("lit") {
            if let Some(Value::String(s)) = m.get_mut("s") {
                s.push(c);
                return;
            }
        }
    }
    out.push(json!({"t": "lit", "s": c.to_string()}));
}

fn text_unit(out: &mut Vec<Value>, u: &TextUnit, o: Opt) {
    match u {
        TextUnit::Literal(c) => push_lit(out, *c),
        TextUnit::Backslashed(c) => out.push(json!({"t": "bs", "c": c.to_string()})),
        TextUnit::RawParam { param: p, .. } => {
            let (id, ty, ix) = param(p);
            out.push(json!({"t": "raw", "id": id, "ty": ty, "ix": ix}))
        }
        TextUnit::BracedParam(b) => {
            let (id, ty, ix) = param(&b.param);
            out.push(json!({"t": "braced", "id": id, "ty": ty, "ix": ix, "m": modifier(&b.modifier, o)}))
        }
        TextUnit::CommandSubst { content, .. } => out.push(json!({"t": "cs", "s": &**content})),
        TextUnit::Backquote { content, .. } => {
            let mut us = Vec::new();
            for b in content {
                match b {
                    BackquoteUnit::Literal(c) => push_lit(&mut us, *c),
                    BackquoteUnit::Backslashed(c) => us.push(json!({"t": "bs", "c": c.to_string()})),
                }
            }
            out.push(json!({"t": "bq", "u": us}))
        }
        TextUnit::Arith { content, .. } => out.push(json!({"t": "arith", "x": text(content, o)})),
    }
}

pub fn text(t: &Text, o: Opt) -> Value {
    let mut out = Vec::new();
    for u in &t.0 {
        text_unit(&mut out, u, o);
    }
    Value::Array(out)
}

fn escaped(e: &EscapedString) -> Value {
    let mut out: Vec<Value> = Vec::new();
    for u in &e.0 {
        use EscapeUnit::*;
        let k = |k: &str| json!({"t": "esc", "k": k});
        match u {
            Literal(c) => push_lit(&mut out, *c),
            DoubleQuote => out.push(k("dq")),
            SingleQuote => out.push(k("sq")),
            Backslash => out.push(k("bsl")),
            Question => out.push(k("q")),
            Alert => out.push(k("a")),
            Backspace => out.push(k("b")),
            Escape => out.push(k("e")),
            FormFeed => out.push(k("f")),
            Newline => out.push(k("n")),
            CarriageReturn => out.push(k("r")),
            Tab => out.push(k("t")),
            VerticalTab => out.push(k("v")),
            Control(b) => out.push(json!({"t": "ctl", "b": *b as u32})),
            Octal(b) => out.push(json!({"t": "oct", "b": *b as u32})),
            Hex(b) => out.push(json!({"t": "hex", "b": *b as u32})),
            Unicode(c) => out.push(json!({"t": "uni", "cp": *c as u32})),
        }
    }
    Value::Array(out)
}

pub fn word(w: &Word, o: Opt) -> Value {
    let mut out = Vec::new();
    for u in &w.units {
        match u {
            WordUnit::Unquoted(t) => text_unit(&mut out, t, o),
            WordUnit::SingleQuote(s) => out.push(json!({"t": "sq", "s": s})),
            WordUnit::DoubleQuote(t) => out.push(json!({"t": "dq", "x": text(t, o)})),
            WordUnit::DollarSingleQuote(e) => out.push(json!({"t": "dsq", "e": escaped(e)})),
            WordUnit::Tilde { name, followed_by_slash } => {
                out.push(json!({"t": "tilde", "name": name, "slash": followed_by_slash}))
            }
        }
    }
    Value::Array(out)
}

fn words<'a>(ws: impl IntoIterator<Item = &'a Word>, o: Opt) -> Value {
    Value::Array(ws.into_iter().map(|w| word(w, o)).collect())
}

fn assign(a: &Assign, o: Opt) -> Value {
    match &a.value {
        Value_::Scalar(w) => json!({"name": a.name, "arr": false, "w": word(w, o), "ws": []}),
        Value_::Array(ws) => json!({"name": a.name, "arr": true, "w": [], "ws": words(ws, o)}),
    }
}
use yash_syntax::syntax::Value as Value_;

fn redir(r: &Redir, o: Opt) -> Value {
    let fd = r.fd.map(|f| f.0 as i64).unwrap_or(-1);
    match &r.body {
        RedirBody::Normal { operator, operand } => {
            json!({"fd": fd, "op": operator.to_string(), "w": word(operand, o), "hd": false, "body": []})
        }
        RedirBody::HereDoc(h) => {
            let body = if !o.bodies {
                json!([])
            } else {
                match h.content.get() {
                    Some(t) => text(t, o),
                    None => json!([{"t": "UNSET"}]),
                }
            };
            json!({"fd": fd, "op": if h.remove_tabs { "<<-" } else { "<<" }, "w": word(&h.delimiter, o),
                   "hd": true, "body": body})
        }
    }
}

fn redirs(rs: &[Redir], o: Opt) -> Value {
    Value::Array(rs.iter().map(|r| redir(r, o)).collect())
}

fn compound(c: &CompoundCommand, o: Opt) -> Value {
    use CompoundCommand::*;
    match c {
        Grouping(l) => json!({"t": "group", "body": list(l, o)}),
        Subshell { body, .. } => json!({"t": "sub", "body": list(body, o)}),
        For { name, values, body } => json!({
            "t": "for", "name": word(name, o), "in": values.is_some(),
            "vals": words(values.iter().flatten(), o), "body": list(body, o)}),
        While { condition, body } => json!({"t": "while", "cond": list(condition, o), "body": list(body, o)}),
        Until { condition, body } => json!({"t": "until", "cond": list(condition, o), "body": list(body, o)}),
        If { condition, body, elifs, r#else } => json!({
            "t": "if", "cond": list(condition, o), "body": list(body, o),
            "elifs": elifs.iter().map(|e| json!({"cond": list(&e.condition, o), "body": list(&e.body, o)})).collect::<Vec<_>>(),
            "has_else": r#else.is_some(),
            "else": r#else.as_ref().map(|l| list(l, o)).unwrap_or(json!([]))}),
        Case { subject, items } => json!({
            "t": "case", "subj": word(subject, o),
            "items": items.iter().map(|i| json!({
                "pats": words(&i.patterns, o), "body": list(&i.body, o),
                "cont": match i.continuation {
                    CaseContinuation::Break => ";;",
                    CaseContinuation::FallThrough => ";&",
                    CaseContinuation::Continue => ";|",
                }})).collect::<Vec<_>>()}),
    }
}

fn command(c: &Command, o: Opt) -> Value {
    match c {
        Command::Simple(s) => json!({
            "t": "simple",
            "as": s.assigns.iter().map(|a| assign(a, o)).collect::<Vec<_>>(),
            "ws": s.words.iter().map(|(w, m)| json!({"w": word(w, o), "m": match m {
                ExpansionMode::Single => "S", ExpansionMode::Multiple => "M"}})).collect::<Vec<_>>(),
            "rs": redirs(&s.redirs, o)}),
        Command::Compound(f) => json!({"t": "comp", "c": compound(&f.command, o), "rs": redirs(&f.redirs, o)}),
        Command::Function(f) => json!({
            "t": "func", "kw": f.has_keyword, "name": word(&f.name, o),
            "c": compound(&f.body.command, o), "rs": redirs(&f.body.redirs, o)}),
    }
}

fn pipeline(p: &Pipeline, o: Opt) -> Value {
    json!({"neg": p.negation, "cmds": p.commands.iter().map(|c| command(c, o)).collect::<Vec<_>>()})
}

fn and_or(a: &AndOrList, o: Opt) -> Value {
    json!({"first": pipeline(&a.first, o),
           "rest": a.rest.iter().map(|(op, p)| json!({
               "op": match op { AndOr::AndThen => "&&", AndOr::OrElse => "||" },
               "p": pipeline(p, o)})).collect::<Vec<_>>()})
}

pub fn items(l: &List, o: Opt, out: &mut Vec<Value>) {
    for i in &l.0 {
        out.push(json!({"ao": and_or(&i.and_or, o), "bg": i.async_flag.is_some()}));
    }
}

pub fn list(l: &List, o: Opt) -> Value {
    let mut out = Vec::new();
    items(l, o, &mut out);
    Value::Array(out)
}

/// Here-documents of a list in source order: (unquoted delimiter, content printed by Display).
pub fn here_docs(l: &List, out: &mut Vec<(String, String)>) {
    fn rs(rs: &[Redir], out: &mut Vec<(String, String)>) {
        for r in rs {
            if let RedirBody::HereDoc(h) = &r.body {
                let (d, _) = h.delimiter.unquote();
                let c = h.content.get().map(|t| t.to_string()).unwrap_or_default();
                out.push((d, c));
            }
        }
    }
    fn comp(c: &CompoundCommand, out: &mut Vec<(String, String)>) {
        use CompoundCommand::*;
        match c {
            Grouping(l) => here_docs(l, out),
            Subshell { body, .. } => here_docs(body, out),
            For { body, .. } => here_docs(body, out),
            While { condition, body } | Until { condition, body } => {
                here_docs(condition, out);
                here_docs(body, out)
            }
            If { condition, body, elifs, r#else } => {
                here_docs(condition, out);
                here_docs(body, out);
                for e in elifs {
                    here_docs(&e.condition, out);
                    here_docs(&e.body, out);
                }
                if let Some(e) = r#else {
                    here_docs(e, out)
                }
            }
            Case { items, .. } => {
                for i in items {
                    here_docs(&i.body, out)
                }
            }
        }
    }
    for i in &l.0 {
        let ao = &i.and_or;
        for p in std::iter::once(&ao.first).chain(ao.rest.iter().map(|x| &x.1)) {
            for c in &p.commands {
                match &**c {
                    Command::Simple(s) => rs(&s.redirs, out),
                    Command::Compound(f) => {
                        comp(&f.command, out);
                        rs(&f.redirs, out)
                    }
                    Command::Function(f) => {
                        comp(&f.body.command, out);
                        rs(&f.body.redirs, out)
                    }
                }
            }
        }
    }
}
