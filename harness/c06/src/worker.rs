//! Runs analyses on a worker thread so that a hang of the code under test is
//! observed (as outcome "timeout") instead of hanging the harness.
use crate::run::{Analysis, analyse};
use serde_json::json;
use std::sync::mpsc::{Receiver, RecvTimeoutError, Sender, channel};
use std::time::Duration;

pub struct Worker {
    tx: Sender<(String, bool)>,
    rx: Receiver<Analysis>,
    pub timeout: Duration,
    pub timeouts: usize,
}

fn spawn() -> (Sender<(String, bool)>, Receiver<Analysis>) {
    let (tx, wrx) = channel::<(String, bool)>();
    let (wtx, rx) = channel::<Analysis>();
    std::thread::Builder::new()
        .name("c06-worker".into())
        .stack_size(1 << 30)
        .spawn(move || {
            while let Ok((text, portable)) = wrx.recv() {
                let a = analyse(&text, portable);
                if wtx.send(a).is_err() {
                    break;
                }
            }
        })
        .expect("spawn worker");
    (tx, rx)
}

impl Worker {
    pub fn new(timeout_ms: u64) -> Worker {
        let (tx, rx) = spawn();
        Worker { tx, rx, timeout: Duration::from_millis(timeout_ms), timeouts: 0 }
    }

    pub fn analyse(&mut self, text: &str, portable: bool) -> Analysis {
        self.tx.send((text.to_string(), portable)).expect("worker alive");
        match self.rx.recv_timeout(self.timeout) {
            Ok(a) => a,
            Err(RecvTimeoutError::Timeout) => {
                // the worker is stuck in the code under test: abandon it
                self.timeouts += 1;
                let (tx, rx) = spawn();
                self.tx = tx;
                self.rx = rx;
                Analysis {
                    out: "timeout",
                    detail: format!("no result within {:?}", self.timeout),
                    tree: json!([]),
                    printed: vec![],
                    rt: "na",
                    rt_detail: String::new(),
                    pulled: 0,
                    needed: 0,
                    ahead: 0,
                    ncmd: 0,
                    nhd: 0,
                    marks: vec![],
                }
            }
            Err(RecvTimeoutError::Disconnected) => {
                // the worker thread died outside catch_unwind (should not happen)
                let (tx, rx) = spawn();
                self.tx = tx;
                self.rx = rx;
                Analysis {
                    out: "panic",
                    detail: "worker thread died".into(),
                    tree: json!([]),
                    printed: vec![],
                    rt: "na",
                    rt_detail: String::new(),
                    pulled: 0,
                    needed: 0,
                    ahead: 0,
                    ncmd: 0,
                    nhd: 0,
                    marks: vec![],
                }
            }
        }
    }
}
