//! Conformance harness for property C06, see /verif/DESIGN.md.
fn main() {
    eprintln!("yv-c06: not implemented yet");
    std::process::exit(2);
}
