//! Conformance harness for property C06 (parser totality, print/re-parse),
//! see /verif/DESIGN.md section 6 and spec/Syntax.tla.
//!
//! replay : spec -> impl.  Every line {toks, exp, tree, canon} printed by TLC
//!          is rendered (plain + seeded variations), parsed by the real
//!          parser, compared with the tree the spec prescribes, printed,
//!          re-parsed; optionally token mutations are recorded for
//!          Trace_Syntax (impl -> spec).
//! corpus : every script of the scripted-test corpus (whole files and the
//!          scripts embedded in them as here-documents).
//! soup   : seeded random byte / Unicode / shell-character strings.
mod render;
mod run;
mod tree;
mod worker;

use rand::rngs::StdRng;
use rand::{Rng, SeedableRng};
use render::Tok;
use serde_json::{Value, json};
use std::io::{BufRead, Write};
use yvcommon::util::{opt, opt_usize, open_in, open_out, seed};

/// Characters outside ASCII cross the TLC boundary as `<U+XXXX>` (spec/Syntax.tla).
fn decode_str(s: &str) -> String {
    let mut out = String::with_capacity(s.len());
    let mut rest = s;
    while let Some(i) = rest.find("<U+") {
        out.push_str(&rest[..i]);
        let tail = &rest[i + 3..];
        match tail.find('>').and_then(|j| u32::from_str_radix(&tail[..j], 16).ok().and_then(char::from_u32).map(|c| (j, c))) {
            Some((j, c)) => {
                out.push(c);
                rest = &tail[j + 1..];
            }
            None => {
                out.push_str("<U+");
                rest = tail;
            }
        }
    }
    out.push_str(rest);
    out
}

fn encode_str(s: &str) -> String {
    if s.is_ascii() {
        return s.to_string();
    }
    let mut out = String::new();
    for c in s.chars() {
        if c.is_ascii() {
            out.push(c);
        } else {
            out.push_str(&format!("<U+{:04X}>", c as u32));
        }
    }
    out
}

fn map_strings(v: &mut Value, f: &dyn Fn(&str) -> String) {
    match v {
        Value::String(s) => *s = f(s),
        Value::Array(a) => a.iter_mut().for_each(|x| map_strings(x, f)),
        Value::Object(m) => m.values_mut().for_each(|x| map_strings(x, f)),
        _ => {}
    }
}

fn record(kind: &str, id: &str, toks: Value, a: &run::Analysis, with_tree: bool) -> Value {
    json!({"kind": kind, "id": id, "toks": toks, "out": a.out,
           "tree": if with_tree && a.out == "ok" { a.tree.clone() } else { json!([]) },
           "rt": a.rt, "pulled": a.pulled, "needed": a.needed, "ahead": a.ahead,
           "detail": a.detail.chars().take(160).collect::<String>(), "rt_detail": a.rt_detail,
           "marks": a.marks.join(",")})
}

fn fail(out: &mut dyn Write, what: &str, line: usize, variant: usize, text: &str, a: &run::Analysis, extra: Value) {
    let v = json!({"fail": what, "line": line, "variant": variant, "text": text, "out": a.out, "detail": a.detail,
                   "printed": a.printed, "rt": a.rt, "rt_detail": a.rt_detail, "ahead": a.ahead,
                   "pulled": a.pulled, "needed": a.needed, "marks": a.marks, "extra": extra});
    writeln!(out, "{v}").unwrap();
}

/// Checks that hold for every input whatever the spec says: totality,
/// read-ahead bound, print/re-parse of every tree produced.
fn generic_checks(out: &mut dyn Write, line: usize, variant: usize, text: &str, a: &run::Analysis) -> bool {
    let mut ok = true;
    if a.out == "panic" || a.out == "timeout" {
        fail(out, "totality", line, variant, text, a, json!(null));
        ok = false;
    }
    if a.ahead > 1 {
        fail(out, "readahead", line, variant, text, a, json!(null));
        ok = false;
    }
    if matches!(a.rt, "ne" | "err" | "panic") {
        fail(out, "roundtrip", line, variant, text, a, json!(null));
        ok = false;
    }
    ok
}

/// Counts the syntactic constructs occurring in a tree (coverage evidence).
fn count_kinds(v: &Value, k: &mut std::collections::BTreeMap<String, usize>) {
    match v {
        Value::Array(a) => a.iter().for_each(|x| count_kinds(x, k)),
        Value::Object(m) => {
            let mut bump = |s: String| *k.entry(s).or_insert(0) += 1;
            if let Some(t) = m.get("t").and_then(Value::as_str) {
                bump(format!("t:{t}"));
            }
            if m.get("bg") == Some(&json!(true)) {
                bump("item:async".into());
            }
            if m.get("neg") == Some(&json!(true)) {
                bump("pipeline:negated".into());
            }
            if m.get("cmds").and_then(Value::as_array).is_some_and(|c| c.len() > 1) {
                bump("pipeline:multi".into());
            }
            if let Some(o) = m.get("op").and_then(Value::as_str) {
                bump(format!("op:{o}"));
            }
            if let Some(o) = m.get("cont").and_then(Value::as_str) {
                bump(format!("case:{o}"));
            }
            if m.get("arr") == Some(&json!(true)) {
                bump("assign:array".into());
            }
            if m.get("m") == Some(&json!("S")) {
                bump("word:single-field-mode".into());
            }
            if m.get("has_else") == Some(&json!(true)) {
                bump("if:else".into());
            }
            if m.get("elifs").and_then(Value::as_array).is_some_and(|c| !c.is_empty()) {
                bump("if:elif".into());
            }
            if let Some(b) = m.get("in").and_then(Value::as_bool) {
                bump(if b { "for:in".into() } else { "for:no-in".into() });
            }
            if m.get("fd").and_then(Value::as_i64).is_some_and(|f| f >= 0) {
                bump("redir:fd".into());
            }
            if let Some(mm) = m.get("m").and_then(Value::as_object) {
                if let Some(t) = mm.get("t").and_then(Value::as_str) {
                    bump(format!("modifier:{t}"));
                }
            }
            if let Some(t) = m.get("k").and_then(Value::as_str) {
                bump(format!("escape:{t}"));
            }
            m.values().for_each(|x| count_kinds(x, k));
        }
        _ => {}
    }
}

fn replay(args: &[String]) -> i32 {
    yvcommon::util::quiet_panics();
    let variants = opt_usize(args, "--variants", 2);
    let mutants = opt_usize(args, "--mutants", 0);
    let mut_every = opt_usize(args, "--mut-every", 1).max(1);
    let mut mut_out: Option<Box<dyn Write>> = opt(args, "--mut-out").map(|p| {
        Box::new(std::io::BufWriter::new(std::fs::File::create(p).expect("create --mut-out"))) as Box<dyn Write>
    });
    let input = open_in(args);
    let mut out = open_out(args);
    let mut w = worker::Worker::new(4_000);
    let mut kinds = std::collections::BTreeMap::new();
    let s = seed();
    let (mut lines, mut cases, mut exp_ok, mut exp_err, mut exp_un) = (0usize, 0usize, 0usize, 0usize, 0usize);
    let (mut impl_ok_spec_err, mut canon_drift, mut canon_cmp, mut rt_checked, mut muts) = (0usize, 0, 0, 0, 0);
    let mut samples: Vec<Value> = Vec::new();
    let mut drift_samples: Vec<Value> = Vec::new();
    for (ln, l) in input.lines().enumerate() {
        let l = l.expect("read");
        if l.trim().is_empty() {
            continue;
        }
        let mut v: Value = match serde_json::from_str(&l) {
            Ok(v) => v,
            Err(e) => {
                eprintln!("bad input line {ln}: {e}");
                return 2;
            }
        };
        if l.contains("<U+") {
            map_strings(&mut v, &decode_str);
        }
        lines += 1;
        let toks: Vec<Tok> = v["toks"].as_array().map(|a| a.iter().map(Tok::from_wire).collect()).unwrap_or_default();
        let exp = v["exp"].as_str().unwrap_or("un");
        if w.timeouts >= 3 {
            break; // the code under test hangs: established; do not wait for every case
        }
        count_kinds(&v["tree"], &mut kinds);
        match exp {
            "ok" => exp_ok += 1,
            "err" => exp_err += 1,
            _ => exp_un += 1,
        }
        for variant in 0..variants.max(1) {
            let mut rng = StdRng::seed_from_u64(s ^ ((ln as u64) << 8) ^ (variant as u64) ^ 0xC06);
            let text = render::render(&toks, &mut rng, variant == 0);
            let a = w.analyse(&text, false);
            cases += 1;
            generic_checks(&mut *out, ln, variant, &text, &a);
            if a.rt == "eq" {
                rt_checked += 1;
            }
            if exp == "ok" {
                if a.out != "ok" {
                    if a.out == "err" {
                        fail(&mut *out, "rejected", ln, variant, &text, &a, json!({"expected": v["tree"]}));
                    }
                } else if a.tree != v["tree"] {
                    fail(&mut *out, "tree", ln, variant, &text, &a, json!({"expected": v["tree"], "got": a.tree}));
                }
            } else if a.out == "ok" && exp == "err" {
                impl_ok_spec_err += 1;
            }
            // canonical form: what the real printer writes, token by token
            if variant == 0 && exp == "ok" && a.out == "ok" && v.get("canon").is_some() {
                let printed = a.printed.join("; ");
                if let Ok(t) = run::tokenize(&printed) {
                    canon_cmp += 1;
                    let canon: Vec<String> =
                        v["canon"].as_array().unwrap().iter().map(|x| x.as_str().unwrap_or("").to_string()).collect();
                    // the single-line form has no here-document bodies; command lines are joined by `;`
                    let t: Vec<String> = t.into_iter().filter(|x| x != "\n").collect();
                    if a.nhd == 0 && a.ncmd == 1 && t != canon {
                        canon_drift += 1;
                        if drift_samples.len() < 5 {
                            drift_samples.push(json!({"printed": printed, "canon": canon}));
                        }
                    }
                }
            }
            if samples.len() < 6 && (ln % 997 == 3) && variant == 1 {
                samples.push(json!({"text": text, "out": a.out, "printed": a.printed, "rt": a.rt}));
            }
        }
        // impl -> spec: mutations of the derivation, judged by Trace_Syntax
        if let Some(mo) = mut_out.as_mut().filter(|_| ln % mut_every == 0) {
            let mut rng = StdRng::seed_from_u64(s ^ ((ln as u64) << 8) ^ 0xBEEF);
            for m in 0..mutants {
                // concretise: sep -> `;` or newline, lb -> nothing or newline
                let mut conc: Vec<Tok> = Vec::new();
                for t in &toks {
                    let nl = || Tok::from_wire(&json!({"k": "op", "s": "\n"}));
                    if t.v == "lb" {
                        if rng.gen_range(0..4) == 0 {
                            conc.push(nl());
                        }
                    } else if t.v == "sep" {
                        if rng.gen_range(0..3) == 0 {
                            conc.push(nl());
                        } else {
                            conc.push(Tok::from_wire(&json!({"k": "op", "s": ";"})));
                        }
                    } else {
                        conc.push(t.clone());
                    }
                }
                if conc.len() < 2 {
                    break;
                }
                // positions that are not part of a here-document operator/delimiter pair
                let free: Vec<usize> = (0..conc.len())
                    .filter(|&i| !conc[i].is_here_op() && !(i > 0 && conc[i - 1].is_here_op()))
                    .collect();
                if free.is_empty() {
                    break;
                }
                let i = free[rng.gen_range(0..free.len())];
                match (m + rng.gen_range(0..3)) % 3 {
                    0 => {
                        conc.remove(i);
                    }
                    1 => {
                        let j = free[rng.gen_range(0..free.len())];
                        conc.swap(i, j);
                    }
                    _ => {
                        let t = conc[free[rng.gen_range(0..free.len())]].clone();
                        conc.insert(i, t);
                    }
                }
                // a glued token must stay glued to an operator; otherwise the text is another token sequence
                let text = render::render(&conc, &mut rng, m % 2 == 0);
                let a = w.analyse(&text, false);
                cases += 1;
                muts += 1;
                let wire: Vec<Value> = conc.iter().map(|t| t.wire.clone()).collect();
                let mut r = record("toks", &format!("m{ln}.{m}"), Value::Array(wire), &a, true);
                // back to the wire encoding for Trace_Syntax
                map_strings(&mut r["toks"], &encode_str);
                map_strings(&mut r["tree"], &encode_str);
                r["text"] = json!(text);
                r["printed"] = json!(a.printed);
                r["portable"] = json!(false);
                writeln!(mo, "{r}").unwrap();
            }
        }
    }
    let summary = json!({"summary": true, "lines": lines, "cases": cases, "exp_ok": exp_ok, "exp_err": exp_err,
        "exp_un": exp_un, "impl_ok_spec_err": impl_ok_spec_err, "canon_compared": canon_cmp,
        "canon_drift": canon_drift, "drift_samples": drift_samples, "rt_checked": rt_checked,
        "mutants": muts, "timeouts": w.timeouts, "samples": samples, "kinds": kinds});
    writeln!(out, "{summary}").unwrap();
    0
}

/// Scripts embedded in a scripted-test file: the lines between a test macro
/// (`test_oE ...`, an alias ending in `3<<\\__IN__`) and `__IN__`, and the
/// bodies of explicit here-documents with a word-like delimiter.
fn embedded_scripts(src: &str) -> Vec<String> {
    const MACROS: &[&str] = &["test_x", "test_o", "test_O", "test_e", "test_oe", "test_Oe", "test_E", "test_oE", "test_OE"];
    let mut out = Vec::new();
    let mut cur: Option<(String, bool, String)> = None; // (delimiter, strip tabs, text)
    for line in src.split_inclusive('\n') {
        if let Some((d, tabs, text)) = cur.as_mut() {
            let l = line.strip_suffix('\n').unwrap_or(line);
            let l2 = if *tabs { l.trim_start_matches('\t') } else { l };
            if l2 == d {
                out.push(std::mem::take(text));
                cur = None;
            } else {
                text.push_str(if *tabs { line.trim_start_matches('\t') } else { line });
            }
            continue;
        }
        let first = line.split_whitespace().next().unwrap_or("");
        if MACROS.contains(&first) {
            cur = Some(("__IN__".to_string(), false, String::new()));
            continue;
        }
        if let Some(p) = line.find("<<") {
            let rest = &line[p + 2..];
            let (tabs, rest) = match rest.strip_prefix('-') {
                Some(r) => (true, r),
                None => (false, rest),
            };
            let rest = rest.trim_start();
            let rest = rest.trim_start_matches(['\\', '\'', '"']);
            let d: String = rest.chars().take_while(|c| c.is_ascii_alphanumeric() || *c == '_').collect();
            if d.len() >= 3 && !line.trim_start().starts_with('#') {
                cur = Some((d, tabs, String::new()));
            }
        }
    }
    out
}

fn corpus(args: &[String]) -> i32 {
    yvcommon::util::quiet_panics();
    let dir = opt(args, "--dir").expect("--dir");
    let mut out = open_out(args);
    let mut fails = opt(args, "--fails").map(|p| std::fs::File::create(p).expect("create --fails"));
    let mut w = worker::Worker::new(60_000);
    let mut files: Vec<_> = std::fs::read_dir(dir)
        .expect("read --dir")
        .filter_map(|e| e.ok())
        .map(|e| e.path())
        .filter(|p| p.extension().is_some_and(|e| e == "sh"))
        .collect();
    files.sort();
    let mut n = 0usize;
    for f in &files {
        let src = match std::fs::read_to_string(f) {
            Ok(s) => s,
            Err(_) => String::from_utf8_lossy(&std::fs::read(f).unwrap()).into_owned(),
        };
        let name = f.file_name().unwrap().to_string_lossy().into_owned();
        let mut inputs = vec![(name.clone(), src.clone())];
        for (i, s) in embedded_scripts(&src).into_iter().enumerate() {
            inputs.push((format!("{name}#{i}"), s));
        }
        for (id, text) in inputs {
            for portable in [false, true] {
                let a = w.analyse(&text, portable);
                n += 1;
                let id = if portable { format!("{id}@portable") } else { id.clone() };
                let mut r = record("text", &id, json!([]), &a, false);
                if a.out != "ok" && a.out != "err" || a.ahead > 1 || matches!(a.rt, "ne" | "err" | "panic") {
                    r["text"] = json!(text);
                    r["printed"] = json!(a.printed);
                }
                r["portable"] = json!(portable);
                writeln!(out, "{r}").unwrap();
                if let Some(ff) = fails.as_mut() {
                    let mut buf: Vec<u8> = Vec::new();
                    if !generic_checks(&mut buf, n, portable as usize, &text, &a) {
                        ff.write_all(&buf).unwrap();
                    }
                }
            }
        }
    }
    eprintln!("corpus: {} files, {} inputs", files.len(), n);
    0
}

fn soup_string(rng: &mut StdRng) -> String {
    const SHELLY: &[&str] = &[
        "'", "\"", "`", "$", "$(", "$((", "${", "}", ")", "))", "(", "{", "\\", "\n", " ", "\t", ";", ";;", "&", "&&", "|",
        "||", "<", ">", "<<", "<<-", ">>", "<&", ">|", "<>", "<<<", "#", "~", "=", ":", "-", "+", "?", "%", "!", "*", "a",
        "x", "1", "2", "if", "then", "else", "elif", "fi", "for", "in", "do", "done", "while", "until", "case", "esac",
        "function", "[[", "]]", "$'", "\\c", "\\x", "\\u", "\\0", "EOF", "<(", ">(", "2>(", "3<(", "2147483647>",
        "²", "٣", "½", "①", "Ω", "$²", "$٣", "$½", "$①", "$é", "${é}", "${²}", "é=1", "é()", "²>", "٣<", "\\²",
        "\\é", "<<É", "\u{2028}", "\u{85}", "2147483648>", "4294967294>", "4294967295<", "4294967296>>", "1234567890123456789012345678901234567890>", "\u{a0}", "\u{3000}", "\r", "\u{0}", "é", "𝄞",
    ];
    let n = rng.gen_range(0..40);
    let mut s = String::new();
    match rng.gen_range(0..4) {
        0 => {
            // arbitrary bytes, lossily decoded
            let b: Vec<u8> = (0..n).map(|_| rng.r#gen::<u8>()).collect();
            s = String::from_utf8_lossy(&b).into_owned();
        }
        1 => {
            // arbitrary Unicode scalar values
            for _ in 0..n {
                let c = loop {
                    let x = rng.gen_range(0..0x11_0000u32);
                    if let Some(c) = char::from_u32(x) {
                        break c;
                    }
                };
                s.push(if rng.gen_range(0..3) == 0 { (rng.gen_range(0..128u8)) as char } else { c });
            }
        }
        _ => {
            for _ in 0..n {
                s.push_str(SHELLY[rng.gen_range(0..SHELLY.len())]);
                if rng.gen_range(0..3) == 0 {
                    s.push(' ');
                }
            }
        }
    }
    s
}

fn soup(args: &[String]) -> i32 {
    yvcommon::util::quiet_panics();
    let n = opt_usize(args, "--n", 1000);
    let mut out = open_out(args);
    let mut fails = opt(args, "--fails").map(|p| std::fs::File::create(p).expect("create --fails"));
    let mut w = worker::Worker::new(4_000);
    let mut rng = StdRng::seed_from_u64(seed() ^ 0x50_u64);
    for i in 0..n {
        if w.timeouts >= 3 {
            break;
        }
        let text = soup_string(&mut rng);
        let portable = i % 4 == 3;
        let a = w.analyse(&text, portable);
        let mut r = record("text", &format!("s{i}"), json!([]), &a, false);
        if a.out != "ok" && a.out != "err" || a.ahead > 1 || matches!(a.rt, "ne" | "err" | "panic") {
            r["text"] = json!(text);
            r["printed"] = json!(a.printed);
        }
        r["portable"] = json!(portable);
        writeln!(out, "{r}").unwrap();
        if let Some(ff) = fails.as_mut() {
            let mut buf: Vec<u8> = Vec::new();
            if !generic_checks(&mut buf, i, portable as usize, &text, &a) {
                ff.write_all(&buf).unwrap();
            }
        }
    }
    0
}

fn probe(args: &[String]) -> i32 {
    yvcommon::util::quiet_panics();
    let portable = args.iter().any(|a| a == "--portable");
    let mut w = worker::Worker::new(10_000);
    for t in args.iter().filter(|a| !a.starts_with("--")) {
        let t = t.replace("\\n", "\n");
        let a = w.analyse(&t, portable);
        println!(
            "{}",
            json!({"in": t, "out": a.out, "detail": a.detail, "printed": a.printed, "rt": a.rt,
                "rt_detail": a.rt_detail, "pulled": a.pulled, "needed": a.needed, "ahead": a.ahead, "tree": a.tree})
        );
    }
    0
}

/// Re-runs one recorded failing text (for `./check C06 --replay F`).
fn redo(args: &[String]) -> i32 {
    yvcommon::util::quiet_panics();
    let p = opt(args, "--in").expect("--in");
    let v: Value = serde_json::from_str(&std::fs::read_to_string(p).expect("read")).expect("json");
    let text = v["text"].as_str().unwrap_or("");
    let portable = v["portable"].as_bool().unwrap_or(false);
    let mut w = worker::Worker::new(10_000);
    let a = w.analyse(text, portable);
    let mut buf: Vec<u8> = Vec::new();
    let mut ok = generic_checks(&mut buf, 0, 0, text, &a);
    if let Some(exp) = v["extra"].get("expected") {
        if a.out != "ok" || &a.tree != exp {
            ok = false;
        }
    }
    println!("{}", json!({"ok": ok, "out": a.out, "detail": a.detail, "rt": a.rt, "rt_detail": a.rt_detail,
                          "printed": a.printed, "ahead": a.ahead}));
    if ok { 0 } else { 1 }
}

fn main() {
    let args: Vec<String> = std::env::args().collect();
    if args.len() < 2 {
        eprintln!("usage: yv-c06 <replay|corpus|soup|probe|redo> ...");
        std::process::exit(2);
    }
    let rest = &args[2..];
    let code = match args[1].as_str() {
        "replay" => replay(rest),
        "corpus" => corpus(rest),
        "soup" => soup(rest),
        "probe" => probe(rest),
        "redo" => redo(rest),
        other => {
            eprintln!("unknown subcommand {other}");
            2
        }
    };
    std::process::exit(code);
}
