//! Conformance harness for property C06 (parser totality, print/re-parse),
//! see /verif/DESIGN.md section 6 and spec/Syntax.tla.
mod run;
mod tree;

fn probe(args: &[String]) -> i32 {
    yvcommon::util::quiet_panics();
    let portable = args.iter().any(|a| a == "--portable");
    for t in args.iter().filter(|a| !a.starts_with("--")) {
        let t = t.replace("\\n", "\n");
        let a = run::analyse(&t, portable);
        println!(
            "{}",
            serde_json::json!({"in": t, "out": a.out, "detail": a.detail, "printed": a.printed, "rt": a.rt,
                "rt_detail": a.rt_detail, "pulled": a.pulled, "needed": a.needed, "ahead": a.ahead, "tree": a.tree,
                "tokens": a.printed.first().map(|p| run::tokenize(p).unwrap_or_default())})
        );
    }
    0
}

fn main() {
    let args: Vec<String> = std::env::args().collect();
    if args.len() < 2 {
        eprintln!("usage: yv-c06 <probe|replay|record|...> ...");
        std::process::exit(2);
    }
    let rest = &args[2..];
    let code = match args[1].as_str() {
        "probe" => probe(rest),
        other => {
            eprintln!("unknown subcommand {other}");
            2
        }
    };
    std::process::exit(code);
}
