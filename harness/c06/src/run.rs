//! Driving the real parser / printer of yash-syntax on one input text.
use crate::tree::{self, Opt};
use futures_util::FutureExt as _;
use serde_json::{Value, json};
use std::cell::Cell;
use std::rc::Rc;
use std::str::FromStr as _;
use yash_env::input::{Context, Input};
use yash_env::parser::Mode;
use yash_syntax::parser::Parser;
use yash_syntax::parser::lex::Lexer;
use yash_syntax::syntax::List;
use yvcommon::util::catch;

/// Line-by-line input that counts how many lines the lexer has pulled.
struct Counting {
    lines: Vec<String>,
    next: usize,
    pulled: Rc<Cell<usize>>,
    probes: Rc<Cell<usize>>,
}

impl Input for Counting {
    async fn next_line(&mut self, _c: &Context) -> yash_env::input::Result {
        self.probes.set(self.probes.get() + 1);
        if self.probes.get() > self.lines.len() + 1000 {
            // a lexer that keeps asking after end of input never terminates
            panic!("input polled {} times after end of input", self.probes.get() - self.lines.len());
        }
        match self.lines.get(self.next) {
            Some(l) => {
                self.next += 1;
                self.pulled.set(self.pulled.get() + 1);
                Ok(l.clone())
            }
            None => Ok(String::new()),
        }
    }
}

pub struct Parsed {
    /// one entry per command line that yielded a list
    pub lists: Vec<List>,
    pub err: Option<String>,
    pub pulled: usize,
    /// max over completed command lines of (lines pulled - lines needed)
    pub ahead: i64,
    pub needed: usize,
}

fn mode(portable: bool) -> Mode {
    let mut m = Mode::default();
    m.portable = portable;
    m
}

/// Parses `text` the way `read_eval_loop` does: one `command_line` at a time.
pub fn parse_lines(text: &str, portable: bool) -> Parsed {
    let lines: Vec<String> = text.split_inclusive('\n').map(str::to_owned).collect();
    // cumulative char offsets of line starts
    let mut starts = Vec::with_capacity(lines.len());
    let mut acc = 0usize;
    for l in &lines {
        starts.push(acc);
        acc += l.chars().count();
    }
    let pulled = Rc::new(Cell::new(0));
    let probes = Rc::new(Cell::new(0));
    let input = Counting { lines, next: 0, pulled: pulled.clone(), probes: probes.clone() };
    let mut cfg = yash_env::parser::Config::with_input(Box::new(input));
    cfg.mode = mode(portable);
    let mut lexer: Lexer = cfg.into();
    let mut out = Parsed { lists: vec![], err: None, pulled: 0, ahead: 0, needed: 0 };
    let mut flushed = 0usize; // chars dropped by flush
    loop {
        if !lexer.pending() {
            flushed += lexer.index();
            lexer.flush();
        }
        let r = Parser::new(&mut lexer)
            .command_line()
            .now_or_never()
            .expect("parser must not block on in-memory input");
        let consumed = flushed + lexer.index();
        let needed = starts.partition_point(|&s| s < consumed);
        out.needed = needed;
        match r {
            Ok(Some(l)) => {
                out.ahead = out.ahead.max(pulled.get() as i64 - needed as i64);
                out.lists.push(l);
            }
            Ok(None) => {
                out.ahead = out.ahead.max(pulled.get() as i64 - needed as i64);
                break;
            }
            Err(e) => {
                out.err = Some(format!("{:?}", e.cause));
                break;
            }
        }
    }
    out.pulled = pulled.get();
    out
}

pub fn lists_tree(ls: &[List], o: Opt) -> Value {
    let mut v = Vec::new();
    for l in ls {
        tree::items(l, o, &mut v);
    }
    Value::Array(v)
}

/// Text that should re-parse to `l`: the single-line form plus, after a
/// newline, the here-document bodies the single-line form omits.
/// None if a body cannot be re-supplied faithfully (a content line equal to
/// the delimiter).
pub fn printed_with_bodies(l: &List) -> Option<(String, usize)> {
    let mut s = l.to_string();
    let mut hd = Vec::new();
    tree::here_docs(l, &mut hd);
    if !hd.is_empty() {
        s.push('\n');
        for (d, c) in &hd {
            if d.contains('\n') || c.split('\n').any(|line| line == d || line.trim_start_matches('\t') == d) {
                return None;
            }
            s.push_str(c);
            s.push_str(d);
            s.push('\n');
        }
    }
    Some((s, hd.len()))
}

/// Outcome of analysing one input.
pub struct Analysis {
    pub out: &'static str, // ok | err | panic
    pub detail: String,
    pub tree: Value,  // with bodies (ok only)
    pub printed: Vec<String>,
    pub rt: &'static str, // eq | ne | err | panic | skip | na
    pub rt_detail: String,
    pub pulled: usize,
    pub needed: usize,
    pub ahead: i64,
    pub ncmd: usize,
    pub nhd: usize,
    /// features of the trees produced that identify known defects
    pub marks: Vec<&'static str>,
}

/// Scans a tree (JSON projection) for features named in known findings.
pub fn marks_of(v: &Value, out: &mut Vec<&'static str>) {
    fn add(out: &mut Vec<&'static str>, m: &'static str) {
        if !out.contains(&m) {
            out.push(m);
        }
    }
    match v {
        Value::Array(a) => {
            // a word (array of units) whose last unit is a literal ending in a backslash
            if let Some(Value::Object(last)) = a.last() {
                if last.get("t").and_then(Value::as_str) == Some("lit")
                    && last.get("s").and_then(Value::as_str).is_some_and(|s| s.ends_with('\\'))
                {
                    add(out, "lit-backslash-end");
                }
            }
            for x in a {
                marks_of(x, out);
            }
        }
        Value::Object(m) => {
            if m.get("t").and_then(Value::as_str) == Some("ctl") && m.get("b").and_then(Value::as_u64) == Some(28) {
                add(out, "ctl28");
            }
            if m.get("t").and_then(Value::as_str) == Some("simple")
                && m["as"].as_array().is_some_and(|a| a.is_empty())
                && m["rs"].as_array().is_some_and(|a| !a.is_empty())
            {
                // redirections and a first word ending in `:` (printed first, it becomes the command name)
                let w = &m["ws"][0]["w"];
                let units = w.as_array().cloned().unwrap_or_default();
                let last_colon = units.last().is_some_and(|u| {
                    u["t"] == json!("lit") && u["s"].as_str().is_some_and(|s| s.ends_with(':'))
                });
                let long = units.len() > 1 || units.first().is_some_and(|u| u["s"].as_str().is_some_and(|s| s.chars().count() > 1));
                let quoted = units.iter().any(|u| matches!(u["t"].as_str(), Some("bs" | "sq" | "dq" | "dsq")));
                if last_colon && long && !quoted {
                    add(out, "colon-word-after-redir");
                }
            }
            if m.get("t").and_then(Value::as_str) == Some("sub") {
                // subshell whose body starts with a subshell: printed as `((`
                let first = &m["body"][0]["ao"]["first"];
                if first["neg"] == json!(false) && first["cmds"][0]["c"]["t"] == json!("sub") {
                    add(out, "sub-in-sub-front");
                }
            }
            for x in m.values() {
                marks_of(x, out);
            }
        }
        _ => {}
    }
}

pub fn analyse(text: &str, portable: bool) -> Analysis {
    let mut a = Analysis {
        out: "ok", detail: String::new(), tree: json!([]), printed: vec![], rt: "na",
        rt_detail: String::new(), pulled: 0, needed: 0, ahead: 0, ncmd: 0, nhd: 0, marks: vec![],
    };
    let p = match catch(|| parse_lines(text, portable)) {
        Ok(p) => p,
        Err(msg) => {
            a.out = "panic";
            a.detail = msg;
            return a;
        }
    };
    a.pulled = p.pulled;
    a.needed = p.needed;
    a.ahead = p.ahead;
    if let Some(e) = p.err {
        a.out = "err";
        a.detail = e;
        // trees of the command lines parsed before the error still have to round-trip
    }
    a.ncmd = p.lists.len();
    if a.out == "ok" {
        a.tree = lists_tree(&p.lists, Opt { bodies: true });
    }
    let ne = Opt { bodies: false };
    marks_of(&lists_tree(&p.lists, ne), &mut a.marks);
    a.rt = if p.lists.is_empty() { "na" } else { "eq" };
    for l in &p.lists {
        let want = tree::list(l, ne);
        let pr = match catch(|| printed_with_bodies(l)) {
            Ok(Some(x)) => x,
            Ok(None) => {
                if a.rt == "eq" {
                    a.rt = "skip";
                }
                continue;
            }
            Err(msg) => {
                a.rt = "panic";
                a.rt_detail = format!("Display panicked: {msg}");
                break;
            }
        };
        let (printed, nhd) = pr;
        a.nhd += nhd;
        a.printed.push(printed.clone());
        // (a) the command-line parser, as the shell itself would re-read the text
        match catch(|| parse_lines(&printed, portable)) {
            Err(msg) => {
                a.rt = "panic";
                a.rt_detail = format!("re-parse panicked: {msg}");
                break;
            }
            Ok(q) => {
                if let Some(e) = q.err {
                    a.rt = "err";
                    a.rt_detail = format!("re-parse (command_line) failed: {e}");
                    break;
                }
                let got = lists_tree(&q.lists, ne);
                if got != want {
                    a.rt = "ne";
                    a.rt_detail = "re-parse (command_line) gives a different tree".into();
                    break;
                }
            }
        }
        // (b) List::from_str, the observation point named by the property
        if nhd == 0 && !portable {
            match catch(|| List::from_str(&printed)) {
                Err(msg) => {
                    a.rt = "panic";
                    a.rt_detail = format!("List::from_str panicked: {msg}");
                    break;
                }
                Ok(Err(e)) => {
                    a.rt = "err";
                    a.rt_detail = format!("List::from_str failed: {:?}", e.cause);
                    break;
                }
                Ok(Ok(l2)) => {
                    if tree::list(&l2, ne) != want {
                        a.rt = "ne";
                        a.rt_detail = "List::from_str gives a different tree".into();
                        break;
                    }
                    // AST equality proper, with locations: printing again must be stable
                    if l2.to_string() != printed {
                        a.rt = "ne";
                        a.rt_detail = "second print differs from first".into();
                        break;
                    }
                }
            }
        }
    }
    a
}

/// Token texts of `text` according to the real lexer (operators and words;
/// newline as "\n").  Used to compare the printed form with the spec's
/// canonical token sequence.
pub fn tokenize(text: &str) -> Result<Vec<String>, String> {
    catch(|| {
        let mut lexer = Lexer::with_code(text);
        let mut out = Vec::new();
        loop {
            let r = async {
                lexer.skip_blanks_and_comment().await?;
                lexer.token().await
            }
            .now_or_never()
            .expect("lexer must not block");
            match r {
                Ok(t) => {
                    if t.id == yash_syntax::parser::lex::TokenId::EndOfInput {
                        return Ok(out);
                    }
                    out.push(t.word.to_string());
                }
                Err(e) => return Err(format!("{:?}", e.cause)),
            }
            if out.len() > 100000 {
                return Err("too many tokens".into());
            }
        }
    })
    .unwrap_or_else(|m| Err(format!("panic: {m}")))
}
