//! Rendering a token sequence of spec/Syntax.tla as source text, with seeded
//! surface variation: blanks, comments, line continuations, `;` versus
//! newlines at the places the grammar marks (`v` = "sep" / "lb"), tabs in
//! front of `<<-` bodies.  Here-document bodies are emitted after the next
//! newline token (or at the end).
use rand::Rng;
use rand::rngs::StdRng;
use serde_json::Value;

#[derive(Clone, Debug)]
pub struct Tok {
    pub k: String,
    pub s: String,
    pub g: bool,
    pub v: String,
    pub body: Option<String>,
    pub wire: Value,
}

impl Tok {
    pub fn from_wire(v: &Value) -> Tok {
        Tok {
            k: v["k"].as_str().unwrap_or("").to_string(),
            s: v["s"].as_str().unwrap_or("").to_string(),
            g: v.get("g").and_then(Value::as_bool).unwrap_or(false),
            v: v.get("v").and_then(Value::as_str).unwrap_or("").to_string(),
            body: v.get("bs").and_then(Value::as_str).map(str::to_string),
            wire: v.clone(),
        }
    }
    pub fn is_op(&self) -> bool {
        self.k == "op"
    }
    pub fn is_here_op(&self) -> bool {
        self.is_op() && (self.s == "<<" || self.s == "<<-")
    }
    /// a plain literal word (no quoting, no expansion)
    pub fn plain_word(&self) -> bool {
        self.k == "w" && self.wire.get("a").is_none()
    }
}

const OPERATORS: &[&str] = &[
    "&", "&&", "(", ")", ";", ";&", ";;", ";;&", ";|", "<", "<&", "<(", "<<", "<<-", "<<<", "<>", ">", ">&", ">(",
    ">>", ">>|", ">|", "|", "||", "\n",
];

/// Must a blank separate `a` and `b` so that they lex as these two tokens?
fn need_blank(a: &Tok, b: &Tok) -> bool {
    if a.s.is_empty() || b.s.is_empty() {
        return false;
    }
    if !a.is_op() && !b.is_op() {
        return true;
    }
    if a.is_op() && a.s == "\n" || b.is_op() && b.s == "\n" {
        return false;
    }
    let b0 = b.s.chars().next().unwrap();
    if a.is_op() {
        // a longer operator would be recognised
        let mut joined = a.s.clone();
        joined.push(b0);
        if OPERATORS.iter().any(|o| o.starts_with(&joined)) {
            return true;
        }
        // `((` and `!(` have unspecified meanings (XCU 2.9.4, 2.4)
        if a.s == "(" && b.s == "(" {
            return true;
        }
        return false;
    }
    // a is a word, b an operator
    if a.s == "!" {
        return true;
    }
    if (b0 == '<' || b0 == '>') && (a.s.chars().all(|c| c.is_ascii_digit()) || a.s.starts_with('{')) {
        return true; // would become an IO_NUMBER / IO_LOCATION
    }
    if a.k != "w" {
        return true; // unbalanced text: keep it apart
    }
    false
}

fn blanks(rng: &mut StdRng, plain: bool) -> &'static str {
    if plain {
        return " ";
    }
    match rng.gen_range(0..10) {
        0 => "  ",
        1 => "\t",
        2 => " \t ",
        3 => " \\\n",
        4 => " \\\n ",
        _ => " ",
    }
}

/// Unquoted text of a here-document delimiter word (wire form).
fn delimiter_text(t: &Tok) -> String {
    fn units(us: &Value, out: &mut String) {
        for u in us.as_array().into_iter().flatten() {
            match u["t"].as_str().unwrap_or("") {
                "lit" | "sq" => out.push_str(u["s"].as_str().unwrap_or("")),
                "bs" => out.push_str(u["c"].as_str().unwrap_or("")),
                "dq" => units(&u["x"], out),
                _ => out.push_str("?"),
            }
        }
    }
    match t.wire.get("a") {
        None => t.s.clone(),
        Some(a) => {
            let mut s = String::new();
            units(a, &mut s);
            s
        }
    }
}

struct Pending {
    delim: String,
    body: String,
    tabs: bool,
}

fn flush(out: &mut String, pending: &mut Vec<Pending>, rng: &mut StdRng, plain: bool) {
    for p in pending.drain(..) {
        let tab = |rng: &mut StdRng| -> &'static str {
            if p.tabs && !plain {
                match rng.gen_range(0..3) {
                    0 => "\t",
                    1 => "\t\t",
                    _ => "",
                }
            } else {
                ""
            }
        };
        for line in p.body.split_inclusive('\n') {
            out.push_str(tab(rng));
            out.push_str(line);
        }
        out.push_str(tab(rng));
        out.push_str(&p.delim);
        out.push('\n');
    }
}

/// Inserts a line continuation inside a plain word or an operator.
fn with_continuation(s: &str, rng: &mut StdRng) -> String {
    let cs: Vec<char> = s.chars().collect();
    if cs.len() < 2 {
        return s.to_string();
    }
    let at = rng.gen_range(1..cs.len());
    let mut r: String = cs[..at].iter().collect();
    r.push_str("\\\n");
    r.extend(cs[at..].iter());
    r
}

pub fn render(toks: &[Tok], rng: &mut StdRng, plain: bool) -> String {
    let mut out = String::new();
    let mut pending: Vec<Pending> = Vec::new();
    let mut prev: Option<&Tok> = None;
    let emit_nl = |out: &mut String, pending: &mut Vec<Pending>, rng: &mut StdRng| {
        out.push('\n');
        flush(out, pending, rng, plain);
    };
    for (i, t) in toks.iter().enumerate() {
        if t.v == "lb" {
            if !plain {
                match rng.gen_range(0..8) {
                    0 | 1 => emit_nl(&mut out, &mut pending, rng),
                    2 => {
                        emit_nl(&mut out, &mut pending, rng);
                        out.push_str("  ");
                        emit_nl(&mut out, &mut pending, rng);
                    }
                    3 => {
                        out.push_str(" # c;'\\");
                        emit_nl(&mut out, &mut pending, rng);
                    }
                    _ => {}
                }
            }
            continue;
        }
        if t.v == "sep" && !plain {
            match rng.gen_range(0..8) {
                0 | 1 => {
                    emit_nl(&mut out, &mut pending, rng);
                    prev = None;
                    continue;
                }
                2 => {
                    out.push(';');
                    emit_nl(&mut out, &mut pending, rng);
                    prev = None;
                    continue;
                }
                3 => {
                    emit_nl(&mut out, &mut pending, rng);
                    out.push_str("\t#c \"\n");
                    prev = None;
                    continue;
                }
                4 => {
                    out.push_str(" ;#\\");
                    emit_nl(&mut out, &mut pending, rng);
                    prev = None;
                    continue;
                }
                _ => {}
            }
        }
        // separation from the previous token
        if let Some(p) = prev {
            if p.g {
                if !plain && rng.gen_range(0..6) == 0 {
                    out.push_str("\\\n");
                }
            } else if need_blank(p, t) {
                out.push_str(blanks(rng, plain));
            } else if plain || rng.gen_range(0..2) == 0 {
                // optional blank (plain rendering always writes it, except around newlines)
                if !(t.is_op() && t.s == "\n") && !(p.is_op() && p.s == "\n") {
                    out.push_str(blanks(rng, plain));
                }
            }
        } else if !plain && !out.is_empty() && rng.gen_range(0..4) == 0 {
            out.push_str("  ");
        }
        if t.is_op() && t.s == "\n" {
            emit_nl(&mut out, &mut pending, rng);
            prev = None;
            continue;
        }
        let here_delim = i > 0 && toks[i - 1].is_here_op();
        if !plain && !here_delim && (t.is_op() || t.plain_word()) && !t.g && rng.gen_range(0..12) == 0 {
            out.push_str(&with_continuation(&t.s, rng));
        } else {
            out.push_str(&t.s);
        }
        if t.is_here_op() {
            if let Some(d) = toks.get(i + 1).filter(|d| d.k == "w") {
                pending.push(Pending {
                    delim: delimiter_text(d),
                    body: t.body.clone().unwrap_or_default(),
                    tabs: t.s == "<<-",
                });
            }
        }
        prev = Some(t);
    }
    if !pending.is_empty() {
        emit_nl(&mut out, &mut pending, rng);
    } else if !plain && rng.gen_range(0..2) == 0 {
        out.push('\n');
    }
    out
}
