//! Seeded random generation of larger programs (impl -> spec direction:
//! executed first, then validated by spec/Trace_NestedExec.tla).  The
//! generator mostly avoids constructs whose behaviour POSIX leaves unspecified
//! (break without a lexically enclosing loop, return outside a function or
//! dot script) and loops that obviously do not terminate; what still slips
//! through is classified by the specification and skipped.
use crate::ast::Node;
use rand::Rng;
use rand::rngs::StdRng;

#[derive(Clone, Copy)]
pub struct Ctx {
    /// loops lexically enclosing in the current frame / environment
    pub ld: usize,
    /// a function or dot script is being executed
    pub infn: bool,
    /// inside the condition of a while loop: no `continue`
    pub nocnt: bool,
    /// 0: top level (may call f, g), 1: body of f (may call g), 2: body of g
    pub rank: usize,
}

pub struct Gen<'a> {
    pub rng: &'a mut StdRng,
    /// real OS: include `exec utility`, no `tick` (a built-in of the simulated test bed)
    pub real: bool,
    /// percentage of leaves that are planted failing commands `fail c` (0: none; the
    /// random stream is then exactly the one of G07)
    pub fail: u32,
}

fn leaf(k: &str, n: i64, s: &str) -> Node {
    Node::leaf(k, n, s)
}

impl Gen<'_> {
    fn gen_leaf(&mut self, c: Ctx) -> Node {
        if self.fail > 0 && self.rng.gen_range(0..100) < self.fail {
            // the "shall exit" categories end the run: rarer
            let cats: &[&str] = if self.rng.gen_bool(0.3) { &["sp", "spr", "asg", "asgc", "exp"] } else { &["reg", "cmdsp", "regr", "cmpr"] };
            return leaf("fail", 0, cats[self.rng.gen_range(0..cats.len())]);
        }
        loop {
            let x = self.rng.gen_range(0..100);
            let n = match x {
                0..=14 => leaf("mk", 0, ""),
                15..=17 => leaf("Q", 0, ""),
                18 => leaf("setpp", self.rng.gen_range(0..=2), ""),
                19 => leaf("sete", self.rng.gen_range(0..=1), ""),
                20..=30 => leaf("mk", 1, ""),
                31..=34 => leaf("mk", 3, ""),
                35..=48 => leaf("P", 0, ""),
                // the fatal leaves are rare: most of a program should be executed
                74..=76 | 86..=92 if self.rng.gen_bool(0.6) => continue,
                49..=55 => {
                    if c.rank == 0 {
                        leaf("cmd", self.rng.gen_range(0..=2), if self.rng.gen_bool(0.6) { "f" } else { "g" })
                    } else if c.rank == 1 {
                        leaf("cmd", self.rng.gen_range(0..=1), "g")
                    } else {
                        continue;
                    }
                }
                56..=65 => {
                    // sometimes without a loop (unspecified: classified and skipped)
                    if (c.ld == 0 && !self.rng.gen_bool(0.03)) || c.nocnt {
                        continue;
                    }
                    let n = if self.rng.gen_bool(0.7) { 1 } else { self.rng.gen_range(2..=3) };
                    if self.rng.gen_bool(0.5) { leaf("brk", n, "") } else { leaf("cnt", n, "") }
                }
                66..=73 => {
                    if !c.infn && !self.rng.gen_bool(0.03) {
                        continue;
                    }
                    leaf("ret", *[-1, 0, 5].get(self.rng.gen_range(0..3)).unwrap(), "")
                }
                74..=76 => leaf("exit", if self.rng.gen_bool(0.5) { -1 } else { 4 }, ""),
                77..=78 => leaf("trap", *[-2, -2, -1, 7].get(self.rng.gen_range(0..4)).unwrap(), ""),
                79..=82 => leaf("evalnil", 0, ""),
                83..=85 => leaf("dotnil", 0, ""),
                86 => leaf("evalsyn", 0, ""),
                87 => leaf("dotsyn", 0, ""),
                88..=89 => leaf("dotmiss", self.rng.gen_range(0..2), ""),
                90..=91 => leaf("exec", 0, "missing"),
                92 => leaf("exec", 0, "noexec"),
                93..=95 => leaf("exec", 0, "none"),
                96..=98 => {
                    if !self.real {
                        continue;
                    }
                    leaf("exec", if self.rng.gen_bool(0.5) { 0 } else { 3 }, "found")
                }
                _ => continue,
            };
            return n;
        }
    }

    /// a command tree with at most `size` nodes (size >= 1)
    pub fn cmd(&mut self, size: usize, c: Ctx) -> Node {
        if size <= 1 {
            return self.gen_leaf(c);
        }
        loop {
            let x = self.rng.gen_range(0..100);
            let rest = size - 1;
            let split = |g: &mut Self, total: usize| -> (usize, usize) {
                let a = g.rng.gen_range(1..total);
                (a, total - a)
            };
            let node = match x {
                0..=24 if rest >= 2 => {
                    let (a, b) = split(self, rest);
                    let a2 = a.min(6);
                    Node::with("seq", 0, "", vec![self.cmd(a2, c), self.cmd(b + (a - a2), c)])
                }
                25..=31 if rest >= 2 => {
                    let (a, b) = split(self, rest);
                    Node::with("and", 0, "", vec![self.cmd(a, c), self.cmd(b, c)])
                }
                32..=37 if rest >= 2 => {
                    let (a, b) = split(self, rest);
                    Node::with("or", 0, "", vec![self.cmd(a, c), self.cmd(b, c)])
                }
                38..=41 => Node::with("not", 0, "", vec![self.cmd(rest, c)]),
                42..=47 => {
                    let sc = Ctx { ld: 0, infn: false, ..c };
                    Node::with("sub", 0, "", vec![self.cmd(rest, sc)])
                }
                48..=53 if rest >= 2 => {
                    let (a, b) = split(self, rest);
                    Node::with("if", 0, "", vec![self.cmd(a, c), self.cmd(b, c)])
                }
                54..=57 if rest >= 3 => {
                    let a = self.rng.gen_range(1..=rest - 2);
                    let b = self.rng.gen_range(1..=rest - a - 1);
                    let d = rest - a - b;
                    Node::with("ife", 0, "", vec![self.cmd(a, c), self.cmd(b, c), self.cmd(d, c)])
                }
                58..=61 if rest >= 2 && !self.real => {
                    let csz = self.rng.gen_range(1..=(rest - 1).min(4));
                    let lc = Ctx { ld: c.ld + 1, ..c };
                    let cc = Ctx { nocnt: true, ..lc };
                    let cond = if csz >= 3 {
                        Node::with("seq", 0, "", vec![self.cmd(csz - 2, cc), leaf("tick", 0, "")])
                    } else {
                        leaf("tick", 0, "")
                    };
                    Node::with("while", 0, "", vec![cond, self.cmd(rest - csz, lc)])
                }
                62..=69 => {
                    let lc = Ctx { ld: c.ld + 1, ..c };
                    Node::with("for", self.rng.gen_range(0..=3), "", vec![self.cmd(rest, lc)])
                }
                // eval: transparent
                70..=82 => Node::with("eval", 0, "", vec![self.cmd(rest, c)]),
                // dot script: a frame
                83..=92 => {
                    let dc = Ctx { ld: 0, infn: true, nocnt: false, rank: c.rank };
                    Node::with("dot", self.rng.gen_range(0..2), "", vec![self.cmd(rest, dc)])
                }
                93..=96 if c.rank < 2 => {
                    let name = if c.rank == 0 && self.rng.gen_bool(0.6) { "f" } else { "g" };
                    let rank = if name == "f" { 1 } else { 2 };
                    let fc = Ctx { ld: 0, infn: true, nocnt: false, rank };
                    Node::with("def", 0, name, vec![self.cmd(rest, fc)])
                }
                _ => continue,
            };
            return node;
        }
    }

    /// a whole program: a few top-level items, the first ones often function definitions
    pub fn program(&mut self, size: usize) -> Node {
        let top = Ctx { ld: 0, infn: false, nocnt: false, rank: 0 };
        let mut items: Vec<Node> = vec![];
        let mut left = size;
        if left >= 8 && self.rng.gen_bool(0.6) {
            let b = self.rng.gen_range(2..=(left / 3).max(2));
            let fc = Ctx { ld: 0, infn: true, nocnt: false, rank: 2 };
            items.push(Node::with("def", 0, "g", vec![self.cmd(b, fc)]));
            left -= b + 1;
        }
        if left >= 8 && self.rng.gen_bool(0.7) {
            let b = self.rng.gen_range(2..=(left / 3).max(2));
            let fc = Ctx { ld: 0, infn: true, nocnt: false, rank: 1 };
            items.push(Node::with("def", 0, "f", vec![self.cmd(b, fc)]));
            left -= b + 1;
        }
        while left > 0 {
            let a = if left <= 3 || self.rng.gen_bool(0.2) { left } else { self.rng.gen_range(1..=left.min(14)) };
            items.push(self.cmd(a, top));
            left = left.saturating_sub(a + 1);
        }
        let mut it = items.into_iter().rev();
        let mut acc = it.next().unwrap();
        for x in it {
            acc = Node::with("seq", 0, "", vec![x, acc]);
        }
        acc
    }
}
