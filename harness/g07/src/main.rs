//! Conformance harness for specification-growth module g07 (see /verif/DESIGN.md 12.6).
fn main() {
    eprintln!("yv-g07: not implemented yet");
    std::process::exit(2);
}
