//! Conformance harness for the specification-growth module G07 (nested
//! execution contexts: eval, dot, exec, return, exit, break, continue, EXIT
//! trap); see spec/NestedExec.tla.
//!
//!   yv-g07 run    --in gen.ndjson --out verdicts.ndjson --mode sim|real [--variants V] [--every N] [--jobs J]
//!       spec -> impl: every program printed by TLC (Gen_NestedExec) with the
//!       outcome the specification prescribes is rendered to shell text and
//!       files (seeded surface variation), executed and compared.
//!   yv-g07 random --n N --size S --mode sim|real --out recs.ndjson --full recs.full.ndjson [--jobs J]
//!       impl -> spec: seeded random larger programs are executed and recorded
//!       for validation by spec/Trace_NestedExec.tla.
//!       `--fail P`: P percent of the leaves are planted failing commands
//!       (`fail c`, nested-errors stage of C10; see failtab.rs).
//!       `--table 1 [--ctxs C] [--eopts E]`: instead of random programs, every
//!       entry of the catalogue of failing commands in C contexts (directly, in
//!       eval, a dot script, a subshell, an if condition, a function called by
//!       eval) with errexit off (and on, E = 2).
//!   yv-g07 redo   --in replay.json
//!       re-executes the program of a replay file and prints the observation.
//!
//! Every execution happens in a worker process supervised with a watchdog: a
//! hang or a crash of the shell is recorded as data (outcome "timeout" /
//! "crash"), never a harness failure.
mod ast;
mod exec;
mod failtab;
mod randgen;
mod render;

use ast::{Node, Tok};
use exec::Obs;
use rand::SeedableRng;
use rand::rngs::StdRng;
use render::{Mode, Renderer};
use serde_json::{Value, json};
use std::io::{BufRead, BufReader, Write};
use std::process::{Command, Stdio};
use std::sync::mpsc;
use std::time::Duration;
use yvcommon::util::{opt, opt_usize, seed};

/// A worker that prints nothing for this long is considered hung on the
/// program it announced (simulated runs take well under a millisecond of CPU;
/// the margin is for a heavily loaded machine).
const STALL_SIM: Duration = Duration::from_secs(5);
/// Real-OS runs have their own per-run timeout (60 s) inside the worker.
const STALL_REAL: Duration = Duration::from_secs(200);

fn mix(a: u64, b: u64) -> u64 {
    let mut x = a.wrapping_mul(0x9E37_79B9_7F4A_7C15).wrapping_add(b).wrapping_add(0x632B_E59B_D9B4_E019);
    x ^= x >> 29;
    x = x.wrapping_mul(0xBF58_476D_1CE4_E5B9);
    x ^= x >> 32;
    x
}

fn tr_json(tr: &[(i64, i64)]) -> Value {
    Value::Array(tr.iter().map(|(m, s)| json!([m, s])).collect())
}

fn tr_of(v: &Value) -> Vec<(i64, i64)> {
    v.as_array()
        .map(|a| a.iter().map(|p| (p[0].as_i64().unwrap_or(0), p[1].as_i64().unwrap_or(0))).collect())
        .unwrap_or_default()
}

fn execute(mode: Mode, r: &render::Rendered) -> Obs {
    match mode {
        Mode::Sim => exec::run_sim(r),
        Mode::Real => exec::run_real_shell(r),
    }
}

fn files_json(r: &render::Rendered) -> Value {
    Value::Array(
        r.files.iter().map(|(n, c, m)| json!({"name": n, "content": String::from_utf8_lossy(c), "mode": m})).collect(),
    )
}

fn obs_json(o: &Obs) -> Value {
    let shown = &o.tr[..o.tr.len().min(80)];
    json!({"oc": o.oc, "st": o.st, "tr": tr_json(shown), "tr_len": o.tr.len(), "detail": o.detail})
}

// ---------------------------------------------------------------------------
// workers
// ---------------------------------------------------------------------------

fn emit(line: &str) {
    let out = std::io::stdout();
    let mut l = out.lock();
    let _ = l.write_all(line.as_bytes());
    let _ = l.write_all(b"\n");
    let _ = l.flush();
}

/// P2 worker: reads TLC's lines, handles those with index % parts == part and >= skip.
fn worker_run(args: &[String]) -> i32 {
    let mode = if opt(args, "--mode") == Some("real") { Mode::Real } else { Mode::Sim };
    let variants = opt_usize(args, "--variants", 2);
    let every = opt_usize(args, "--every", 1).max(1);
    let part = opt_usize(args, "--part", 0);
    let parts = opt_usize(args, "--parts", 1).max(1);
    let skip = opt_usize(args, "--skip", 0);
    let only = opt(args, "--only").and_then(|s| s.parse::<usize>().ok());
    let avoid = opt_usize(args, "--avoid", 0) != 0;
    let path = opt(args, "--in").expect("--in");
    let f = BufReader::new(std::fs::File::open(path).expect("open --in"));
    let sd = seed();
    for (idx, line) in f.lines().enumerate() {
        let line = line.expect("read");
        if let Some(o) = only {
            if idx != o {
                continue;
            }
        } else if idx % parts != part || idx < skip || (idx / parts) % every != 0 {
            continue;
        }
        let v: Value = match serde_json::from_str(&line) {
            Ok(v) => v,
            Err(_) => continue,
        };
        let toks: Vec<Tok> = serde_json::from_value(v["p"].clone()).expect("tokens");
        let Some(tree) = ast::parse(&toks) else {
            emit(&format!("R {}", json!({"i": idx, "bad": "unparsable program"})));
            continue;
        };
        emit(&format!("S {} {}", idx, json!({"i": idx, "p": v["p"]})));
        let mut runs = 0;
        let mut unspec = 0;
        let mut div = 0;
        let mut unsupported = 0;
        let mut fails: Vec<Value> = vec![];
        let mut sample = Value::Null;
        // not renderable: the test bed's built-in `tick` on the real OS; a replaced process image on the simulated OS
        let has_tick = tree.any(&|n| n.k == "tick");
        let has_exec = tree.any(&|n| n.k == "exec" && n.s == "found");
        let mut tags: Vec<String> = vec![];
        let mut trap_markers: Vec<i64> = vec![0];
        for (i, t) in toks.iter().enumerate() {
            if t.k == "trap" {
                trap_markers.push(i as i64 + 1);
            }
        }
        for (oi, o) in v["o"].as_array().cloned().unwrap_or_default().iter().enumerate() {
            match o["oc"].as_str().unwrap_or("") {
                "ok" => {}
                "unspec" => {
                    unspec += 1;
                    continue;
                }
                _ => {
                    div += 1;
                    continue;
                }
            }
            if (mode == Mode::Real && has_tick) || (mode == Mode::Sim && has_exec) {
                unsupported += 1;
                continue;
            }
            let e = o["e"].as_i64().unwrap_or(0) != 0;
            let t = o["t"].as_i64().unwrap_or(0);
            let exp_tr = tr_of(&o["tr"]);
            let exp_st = o["st"].as_i64().unwrap_or(0);
            for tg in o["tg"].as_array().cloned().unwrap_or_default() {
                if let Some(tg) = tg.as_str() {
                    if !tags.iter().any(|x| x == tg) {
                        tags.push(tg.to_string());
                    }
                }
            }
            for vi in 0..variants {
                let s = mix(mix(mix(sd, idx as u64), oi as u64), vi as u64);
                // the first variant is the plain rendering, the others vary the surface
                let mut rd = Renderer::new(s, mode, vi > 0 || variants == 1 && idx % 2 == 1);
                rd.avoid_blank_lines = avoid;
                let rendered = rd.program(&tree, e, t);
                let obs = execute(mode, &rendered);
                runs += 1;
                let verdict = exec::matches(&exp_tr, exp_st, &obs, &trap_markers);
                if sample.is_null() && (idx % 97 == 0) {
                    sample = json!({"text": rendered.script, "flags": rendered.flags, "files": files_json(&rendered),
                                    "expected": {"tr": o["tr"], "st": exp_st}, "observed": obs_json(&obs)});
                }
                if let Err(mut why) = verdict {
                    // does the difference disappear when the notable input variants are avoided?
                    let mut feat = String::new();
                    // (not asked when the difference is already nothing but the EXIT trap action not run)
                    if !rendered.feats.is_empty() && why != "EXIT trap action not run" {
                        let mut rd2 = Renderer::new(s, mode, vi > 0 || variants == 1 && idx % 2 == 1);
                        rd2.avoid_blank_lines = true;
                        let r2 = rd2.program(&tree, e, t);
                        let obs2 = execute(mode, &r2);
                        runs += 1;
                        match exec::matches(&exp_tr, exp_st, &obs2, &trap_markers) {
                            Ok(()) => feat = rendered.feats[0].to_string(),
                            // ... or shrink to nothing but the EXIT trap action that was not run?
                            Err(w2) if w2 == "EXIT trap action not run" => {
                                feat = rendered.feats[0].to_string();
                                why = w2;
                            }
                            Err(_) => {}
                        }
                    }
                    if fails.len() < 2 {
                        fails.push(json!({"feat": feat, "e": o["e"], "t": o["t"], "tg": o["tg"], "x": o["x"], "why": why, "text": rendered.script,
                            "inv": inv_json(&rendered),
                            "flags": rendered.flags, "stdin": rendered.via_stdin, "files": files_json(&rendered),
                            "expected": {"tr": o["tr"], "st": exp_st}, "observed": obs_json(&obs)}));
                    }
                }
            }
        }
        emit(&format!(
            "R {}",
            json!({"i": idx, "p": v["p"], "runs": runs, "unspec": unspec, "div": div, "unsupported": unsupported,
                   "fails": fails, "sample": sample, "tags": tags})
        ));
    }
    0
}

/// contexts of the table mode
const TABLE_CTXS: usize = 6;

/// The program of the table mode: the failing command of entry `entry`
/// executed directly (0), by eval (1), by a dot script (2), in a subshell (3),
/// as the condition of an if (4), by a function called by eval (5), each
/// followed by an observation point; errexit off / on.
fn table_program(entry: usize, ctx: usize, e: usize) -> (Node, bool) {
    let f = Node::leaf("fail", 0, failtab::TABLE[entry].cat);
    let p = Node::leaf("P", 0, "");
    let seq = |a: Node, b: Node| Node::with("seq", 0, "", vec![a, b]);
    let body = match ctx {
        0 => f,
        1 => Node::with("eval", 0, "", vec![f]),
        2 => Node::with("dot", 0, "", vec![f]),
        3 => Node::with("sub", 0, "", vec![f]),
        4 => Node::with("if", 0, "", vec![f, Node::leaf("mk", 0, "")]),
        _ => seq(Node::with("def", 0, "f", vec![f]), Node::with("eval", 0, "", vec![Node::leaf("cmd", 0, "f")])),
    };
    (seq(body, p), e != 0)
}

/// The failing-command invocations a rendering used: "category builtin: text".
fn inv_json(r: &render::Rendered) -> Value {
    Value::Array(
        r.fails
            .iter()
            .map(|&i| {
                let e = &failtab::TABLE[i];
                json!(format!("{} {}: {}", e.cat, e.builtin, e.text))
            })
            .collect(),
    )
}

/// P3 worker: generates program i from the seed, executes it, records it.
fn worker_random(args: &[String]) -> i32 {
    let n = opt_usize(args, "--n", 100);
    let size = opt_usize(args, "--size", 40);
    let mode = if opt(args, "--mode") == Some("real") { Mode::Real } else { Mode::Sim };
    let part = opt_usize(args, "--part", 0);
    let parts = opt_usize(args, "--parts", 1).max(1);
    let skip = opt_usize(args, "--skip", 0);
    let only = opt(args, "--only").and_then(|s| s.parse::<usize>().ok());
    // re-execution of selected programs, optionally avoiding the notable input variants
    let indices: Option<Vec<usize>> = opt(args, "--indices").map(|s| s.split(',').filter_map(|x| x.parse().ok()).collect());
    let avoid = opt_usize(args, "--avoid", 0) != 0;
    let fail = opt_usize(args, "--fail", 0) as u32;
    // table mode: program idx = one entry of failtab::TABLE in one context with one errexit setting
    let table = opt_usize(args, "--table", 0) != 0;
    let nctx = opt_usize(args, "--ctxs", TABLE_CTXS).clamp(1, TABLE_CTXS);
    let ne = opt_usize(args, "--eopts", 2).clamp(1, 2);
    let n = if table { failtab::TABLE.len() * nctx * ne } else { n };
    let sd = seed();
    for idx in 0..n {
        if let Some(l) = &indices {
            if !l.contains(&idx) {
                continue;
            }
        }
        if let Some(o) = only {
            if idx != o {
                continue;
            }
        } else if idx % parts != part || idx < skip {
            continue;
        }
        let mut rng = StdRng::seed_from_u64(mix(mix(sd, 0x5eed), idx as u64));
        use rand::Rng;
        let (tree0, e, t, force) = if table {
            let entry = idx / (nctx * ne);
            let (tree0, e) = table_program(entry, (idx / ne) % nctx, idx % ne);
            (tree0, e, 1i64, Some(entry))
        } else {
            let sz = rng.gen_range(3..=size);
            let tree0 = {
                let mut g = randgen::Gen { rng: &mut rng, real: mode == Mode::Real, fail };
                g.program(sz)
            };
            let e = rng.gen_bool(0.3);
            let t: i64 = if rng.gen_bool(0.5) { 0 } else { rng.gen_range(1..=3) };
            (tree0, e, t, None)
        };
        let mut toks = vec![];
        ast::flatten(&tree0, &mut toks);
        let tree = ast::parse(&toks).expect("own program parses");
        let mut rd = Renderer::new(mix(sd, idx as u64), mode, !table);
        rd.avoid_blank_lines = avoid;
        rd.force_fail = force;
        let rendered = rd.program(&tree, e, t);
        let head = json!({"i": idx, "p": toks, "e": e as i64, "t": t, "text": rendered.script, "feats": rendered.feats,
                          "flags": rendered.flags, "stdin": rendered.via_stdin, "files": files_json(&rendered),
                          "inv": inv_json(&rendered),
                          "mode": if mode == Mode::Real { "real" } else { "sim" }});
        emit(&format!("S {} {}", idx, head));
        let obs = execute(mode, &rendered);
        let mut rec = head;
        rec["oc"] = json!(obs.oc);
        // (an abandoned run may have recorded thousands of observations: keep a prefix)
        let keep = if obs.oc == "completed" { obs.tr.len() } else { obs.tr.len().min(200) };
        rec["tr"] = tr_json(&obs.tr[..keep]);
        rec["st"] = json!(obs.st);
        rec["detail"] = json!(obs.detail);
        emit(&format!("R {rec}"));
    }
    0
}

// ---------------------------------------------------------------------------
// supervisor
// ---------------------------------------------------------------------------

type Pending = Option<(usize, Value)>;

/// One worker process to its end (or to a stall).  Result records are sent on
/// `tx`; returns the item that was being executed when the worker was lost
/// and why ("timeout" / "crash"), or (None, None) after a clean end.
fn run_worker(
    exe: &std::path::Path,
    worker: &str,
    args: &[String],
    extra: &[String],
    stall: Duration,
    tx: &mpsc::Sender<Result<Value, String>>,
) -> (Pending, Option<&'static str>, Option<usize>) {
    let mut last_done: Option<usize> = None;
    let mut child = match Command::new(exe)
        .arg(worker)
        .args(args)
        .args(extra)
        .stdin(Stdio::null())
        .stdout(Stdio::piped())
        .stderr(Stdio::null())
        .spawn()
    {
        Ok(c) => c,
        Err(e) => {
            let _ = tx.send(Err(format!("cannot spawn worker: {e}")));
            return (None, None, None);
        }
    };
    let stdout = child.stdout.take().unwrap();
    let (ltx, lrx) = mpsc::channel::<String>();
    let reader = std::thread::spawn(move || {
        for line in BufReader::new(stdout).lines().map_while(Result::ok) {
            if ltx.send(line).is_err() {
                break;
            }
        }
    });
    let mut pending: Pending = None;
    let mut lost: Option<&'static str> = None;
    loop {
        match lrx.recv_timeout(stall) {
            Ok(line) => {
                if let Some(rest) = line.strip_prefix("S ") {
                    let mut it = rest.splitn(2, ' ');
                    let idx: usize = it.next().and_then(|s| s.parse().ok()).unwrap_or(0);
                    let v: Value = it.next().and_then(|s| serde_json::from_str(s).ok()).unwrap_or(Value::Null);
                    pending = Some((idx, v));
                } else if let Some(rest) = line.strip_prefix("R ") {
                    pending = None;
                    match serde_json::from_str::<Value>(rest) {
                        Ok(v) => {
                            if let Some(i) = v["i"].as_u64() {
                                last_done = Some(i as usize);
                            }
                            let _ = tx.send(Ok(v));
                        }
                        Err(e) => {
                            let _ = tx.send(Err(format!("bad worker line: {e}")));
                        }
                    }
                }
            }
            Err(mpsc::RecvTimeoutError::Timeout) => {
                let _ = child.kill();
                lost = Some("timeout");
                break;
            }
            Err(mpsc::RecvTimeoutError::Disconnected) => break,
        }
    }
    let status = child.wait();
    let _ = reader.join();
    let clean = matches!(&status, Ok(s) if s.success());
    if lost.is_none() && !clean {
        lost = Some("crash");
    }
    (pending, lost, last_done)
}

/// Runs `worker` (a sub-command of this binary) as child processes, `jobs` in
/// parallel, each restarted after a stall or crash.  `on_result` receives
/// every result record; `on_lost(pending, why)` builds the record for an item
/// whose execution hung ("timeout") or killed the worker ("crash").
fn supervise(worker: &str, args: &[String], jobs: usize, sink: &mut dyn FnMut(Value)) -> Result<(), String> {
    let exe = std::env::current_exe().map_err(|e| e.to_string())?;
    let stall = if opt(args, "--mode") == Some("real") { STALL_REAL } else { STALL_SIM };
    let (tx, rx) = mpsc::channel::<Result<Value, String>>();
    let mut handles = vec![];
    for part in 0..jobs {
        let tx = tx.clone();
        let exe = exe.clone();
        let args: Vec<String> = args.to_vec();
        let worker = worker.to_string();
        handles.push(std::thread::spawn(move || {
            let mut skip = 0usize;
            let mut restarts = 0;
            let mut confirmed_hangs = 0;
            let mut lost_items = 0;
            loop {
                let extra = vec!["--part".to_string(), part.to_string(), "--parts".into(), jobs.to_string(),
                                 "--skip".into(), skip.to_string()];
                let (pending, lost, last_done) = run_worker(&exe, &worker, &args, &extra, stall, &tx);
                if let Some(d) = last_done {
                    skip = skip.max(d + 1);
                }
                let Some(why) = lost else { return };
                restarts += 1;
                if restarts > 300 {
                    let _ = tx.send(Err("too many worker restarts".into()));
                    return;
                }
                match pending {
                    Some((idx, mut v)) => {
                        // A stall may be an overloaded machine: run the item once more, alone,
                        // with a generous limit, before calling it a hang of the shell.
                        let mut settled = false;
                        if why == "timeout" && confirmed_hangs < 1 {
                            let extra = vec!["--only".to_string(), idx.to_string()];
                            let (p2, l2, _) = run_worker(&exe, &worker, &args, &extra, stall * 4, &tx);
                            if l2.is_none() && p2.is_none() {
                                settled = true; // its result record has been delivered
                            } else {
                                confirmed_hangs += 1;
                            }
                        }
                        if !settled {
                            v["lost"] = json!(why);
                            let _ = tx.send(Ok(v));
                            lost_items += 1;
                            if lost_items >= 4 {
                                // the shell hangs or crashes on many programs: enough evidence
                                let _ = tx.send(Ok(json!({"note": format!(
                                    "part {part}/{jobs} abandoned after {lost_items} hung/crashed executions")})));
                                return;
                            }
                        }
                        skip = skip.max(idx + 1);
                    }
                    None => {
                        // lost between two items (start-up, end): nothing to attribute; go on
                        // after the last item that was completed
                        let _ = tx.send(Ok(json!({"note": format!("worker restarted ({why}) outside an execution")})));
                        if restarts > 20 {
                            let _ = tx.send(Err(format!("worker repeatedly lost ({why}) outside an execution")));
                            return;
                        }
                    }
                }
            }
        }));
    }
    drop(tx);
    let mut err = None;
    for m in rx {
        match m {
            Ok(v) => sink(v),
            Err(e) => err = Some(e),
        }
    }
    for h in handles {
        let _ = h.join();
    }
    match err {
        Some(e) => Err(e),
        None => Ok(()),
    }
}

fn passthrough(args: &[String]) -> Vec<String> {
    // everything except --out/--full/--jobs
    let mut out = vec![];
    let mut i = 0;
    while i < args.len() {
        if matches!(args[i].as_str(), "--out" | "--full" | "--jobs") {
            i += 2;
            continue;
        }
        out.push(args[i].clone());
        i += 1;
    }
    out
}

fn cmd_run(args: &[String]) -> i32 {
    let jobs = opt_usize(args, "--jobs", 4).max(1);
    let out_path = opt(args, "--out").expect("--out");
    let mut out = std::io::BufWriter::new(std::fs::File::create(out_path).expect("create --out"));
    let mut sink = |v: Value| {
        let _ = writeln!(out, "{v}");
    };
    match supervise("worker-run", &passthrough(args), jobs, &mut sink) {
        Ok(()) => 0,
        Err(e) => {
            eprintln!("yv-g07 run: {e}");
            2
        }
    }
}

fn cmd_random(args: &[String]) -> i32 {
    let jobs = opt_usize(args, "--jobs", 4).max(1);
    let out_path = opt(args, "--out").expect("--out");
    let full_path = opt(args, "--full").expect("--full");
    let mut recs: Vec<Value> = vec![];
    let mut sink = |v: Value| {
        if v.get("note").is_none() {
            recs.push(v)
        }
    };
    if let Err(e) = supervise("worker-random", &passthrough(args), jobs, &mut sink) {
        eprintln!("yv-g07 random: {e}");
        return 2;
    }
    recs.sort_by_key(|v| v["i"].as_u64().unwrap_or(0));
    let mut out = std::io::BufWriter::new(std::fs::File::create(out_path).expect("create --out"));
    let mut full = std::io::BufWriter::new(std::fs::File::create(full_path).expect("create --full"));
    for mut v in recs {
        if let Some(why) = v.get("lost").and_then(|w| w.as_str()).map(|s| s.to_string()) {
            v["oc"] = json!(why);
            v["tr"] = json!([]);
            v["st"] = json!(-1);
        }
        let _ = writeln!(full, "{v}");
        let slim = json!({"p": v["p"], "e": v["e"], "t": v["t"], "oc": v["oc"], "tr": v["tr"], "st": v["st"]});
        let _ = writeln!(out, "{slim}");
    }
    0
}

/// Re-executes one program: {"p": tokens, "e","t","y", optional "text","flags","stdin", "mode"}.
fn cmd_redo(args: &[String]) -> i32 {
    let path = opt(args, "--in").expect("--in");
    let v: Value = serde_json::from_str(&std::fs::read_to_string(path).expect("read --in")).expect("json");
    let mode = if v["mode"] == "real" { Mode::Real } else { Mode::Sim };
    let rendered = if let Some(text) = v.get("text").and_then(|t| t.as_str()) {
        render::Rendered {
            script: text.to_string(),
            flags: v["flags"].as_array().map(|a| a.iter().filter_map(|f| f.as_str().map(String::from)).collect()).unwrap_or_default(),
            via_stdin: v["stdin"].as_bool().unwrap_or(false),
            feats: vec![],
            fails: vec![],
            files: v["files"]
                .as_array()
                .map(|a| {
                    a.iter()
                        .map(|f| {
                            (f["name"].as_str().unwrap_or("").to_string(), f["content"].as_str().unwrap_or("").as_bytes().to_vec(),
                             f["mode"].as_u64().unwrap_or(0o644) as u32)
                        })
                        .collect()
                })
                .unwrap_or_default(),
        }
    } else {
        let toks: Vec<Tok> = serde_json::from_value(v["p"].clone()).expect("tokens");
        let tree: Node = ast::parse(&toks).expect("program");
        let mut rd = Renderer::new(1, mode, false);
        rd.program(&tree, v["e"].as_i64().unwrap_or(0) != 0, v["t"].as_i64().unwrap_or(0))
    };
    let obs = execute(mode, &rendered);
    println!("{}", json!({"text": rendered.script, "flags": rendered.flags, "files": files_json(&rendered), "observed": obs_json(&obs)}));
    0
}

/// Debug aid: prints the renderings of the programs of a TLC output file.
fn cmd_render(args: &[String]) -> i32 {
    let path = opt(args, "--in").expect("--in");
    let vary = opt_usize(args, "--vary", 0) != 0;
    let f = BufReader::new(std::fs::File::open(path).expect("open"));
    for (idx, line) in f.lines().enumerate() {
        let v: Value = serde_json::from_str(&line.unwrap()).unwrap();
        let toks: Vec<Tok> = serde_json::from_value(v["p"].clone()).unwrap();
        let tree = ast::parse(&toks).unwrap();
        let mut rd = Renderer::new(idx as u64, Mode::Sim, vary);
        let r = rd.program(&tree, false, 0);
        println!("{}", json!({"i": idx, "text": r.script, "files": files_json(&r), "o": v["o"]}));
    }
    0
}

fn main() {
    yvcommon::real::maybe_child_main();
    let args: Vec<String> = std::env::args().collect();
    if args.len() < 2 {
        eprintln!("usage: yv-g07 <run|random|redo|render> ...");
        std::process::exit(2);
    }
    let rest = &args[2..];
    exec::TICK_LIMIT.store(opt_usize(rest, "--tick", 2) as i64, std::sync::atomic::Ordering::Relaxed);
    let code = match args[1].as_str() {
        "run" => cmd_run(rest),
        "random" => cmd_random(rest),
        "redo" => cmd_redo(rest),
        "render" => cmd_render(rest),
        "worker-run" => {
            yvcommon::util::quiet_panics();
            worker_run(rest)
        }
        "worker-random" => {
            yvcommon::util::quiet_panics();
            worker_random(rest)
        }
        other => {
            eprintln!("unknown subcommand {other}");
            2
        }
    };
    std::process::exit(code);
}
