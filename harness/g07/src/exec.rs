//! Executing a rendered program on the real shell (simulated OS through
//! yvcommon::shell, or the true entry point on the real OS) and projecting the
//! run to what the specification speaks about: the sequence of recorded
//! <<marker, $?>> pairs, the final exit status, the outcome.
use crate::render::{Rendered, SIM_CWD};
use serde_json::Value;
use std::collections::BTreeMap;
use std::pin::Pin;
use std::time::Duration;
use yash_env::builtin::{Builtin, Result as BResult, Type};
use yash_env::semantics::{ExitStatus, Field};
use yash_env::system::GetPid as _;
use yash_env::variable::Scope;
use yvcommon::real::{RealCfg, run_real};
use yvcommon::shell::{FileSpec, ShellCfg, VEnv, proc_table, push_event, run_shell};

#[derive(Clone, Debug)]
pub struct Obs {
    /// "completed", "deadlock", "steplimit", "panic", "timeout"
    pub oc: String,
    pub st: i64,
    pub tr: Vec<(i64, i64)>,
    pub detail: String,
}

/// `tick` succeeds this many times (TickLimit of the specification; `--tick N`).
pub static TICK_LIMIT: std::sync::atomic::AtomicI64 = std::sync::atomic::AtomicI64::new(2);

/// No terminating program of the specification records anywhere near this
/// many observations: a run that does is abandoned (outcome "panic": data).
const EVENT_CAP: usize = 20_000;

fn record(env: &mut VEnv, m: String) {
    let n = yvcommon::shell::EVENTS.with(|e| e.borrow().len());
    if n >= EVENT_CAP {
        panic!("observation limit exceeded (the program does not terminate?)");
    }
    let pid = env.system.getpid().0;
    push_event(serde_json::json!({"ev": "probe", "pid": pid, "args": [m], "st": env.exit_status.0}));
}

/// `mk M N`: records <<M, $?>> and returns N.
fn mk_main(env: &mut VEnv, args: Vec<Field>) -> Pin<Box<dyn Future<Output = BResult> + '_>> {
    Box::pin(async move {
        let m = args.first().map(|f| f.value.clone()).unwrap_or_default();
        let n = args.get(1).and_then(|f| f.value.parse::<i32>().ok()).unwrap_or(0);
        record(env, m);
        BResult::new(ExitStatus(n))
    })
}

/// `probe M`: records <<M, $?>> and leaves $? unchanged.
fn probe_main(env: &mut VEnv, args: Vec<Field>) -> Pin<Box<dyn Future<Output = BResult> + '_>> {
    Box::pin(async move {
        let m = args.first().map(|f| f.value.clone()).unwrap_or_default();
        record(env, m);
        BResult::new(env.exit_status)
    })
}

/// `tick`: increments the shell variable TK; succeeds while TK <= the tick limit.
fn tick_main(env: &mut VEnv, _args: Vec<Field>) -> Pin<Box<dyn Future<Output = BResult> + '_>> {
    Box::pin(async move {
        let cur = env.variables.get_scalar("TK").and_then(|s| s.parse::<i64>().ok()).unwrap_or(0);
        let next = cur + 1;
        let mut var = env.get_or_create_variable("TK", Scope::Global);
        let _ = var.assign(next.to_string(), None);
        BResult::new(ExitStatus(if next <= TICK_LIMIT.load(std::sync::atomic::Ordering::Relaxed) { 0 } else { 1 }))
    })
}

/// Events of concurrent processes are linearised the way the specification
/// lists them (subshells run to their end before the parent goes on).
fn linearise(p: i32, evs: &[(i32, i64, i64)], parent: &BTreeMap<i32, i32>, out: &mut Vec<(i64, i64)>) {
    let child_of = |mut q: i32| -> i32 {
        let start = q;
        for _ in 0..1000 {
            match parent.get(&q) {
                Some(&pp) if pp == p => return q,
                Some(&pp) if pp != q => q = pp,
                _ => return start,
            }
        }
        start
    };
    let mut i = 0;
    while i < evs.len() {
        if evs[i].0 == p {
            out.push((evs[i].1, evs[i].2));
            i += 1;
            continue;
        }
        let mut j = i;
        while j < evs.len() && evs[j].0 != p {
            j += 1;
        }
        let group = &evs[i..j];
        let mut kids: Vec<i32> = group.iter().map(|e| child_of(e.0)).collect();
        kids.sort();
        kids.dedup();
        for k in kids {
            let sub: Vec<(i32, i64, i64)> = group.iter().filter(|e| child_of(e.0) == k).cloned().collect();
            linearise(k, &sub, parent, out);
        }
        i = j;
    }
}

fn marker(args: &Value) -> i64 {
    args.get(0).and_then(|a| a.as_str()).and_then(|s| s.parse::<i64>().ok()).unwrap_or(-999)
}

pub fn run_sim(r: &Rendered) -> Obs {
    let mut argv: Vec<String> = vec!["yash".into()];
    argv.extend(r.flags.iter().cloned());
    let mut cfg = if r.via_stdin {
        let mut c = ShellCfg::with_argv(argv);
        c.stdin = r.script.as_bytes().to_vec();
        if c.stdin.is_empty() {
            c.stdin = b"\n".to_vec();
        }
        c
    } else {
        argv.push("-c".into());
        argv.push(r.script.clone());
        ShellCfg::with_argv(argv)
    };
    cfg.step_limit = 200_000;
    cfg.cwd = Some(SIM_CWD.to_string());
    cfg.files.push(FileSpec::Dir { path: SIM_CWD.to_string() });
    for (name, content, mode) in &r.files {
        cfg.files.push(FileSpec::Regular { path: format!("{SIM_CWD}/{name}"), content: content.clone(), mode: *mode });
    }
    cfg.setup = Some(Box::new(|env, _state| {
        env.builtins.insert("mk", Builtin::new(Type::Mandatory, mk_main));
        env.builtins.insert("probe", Builtin::new(Type::Mandatory, probe_main));
        env.builtins.insert("tick", Builtin::new(Type::Mandatory, tick_main));
    }));
    let res = run_shell(cfg);
    let table = proc_table(&res.state);
    let parent: BTreeMap<i32, i32> = table.iter().map(|(pid, v)| (*pid, v.0)).collect();
    let evs: Vec<(i32, i64, i64)> = res
        .events
        .iter()
        .filter(|e| e["ev"] == "probe")
        .map(|e| (e["pid"].as_i64().unwrap_or(0) as i32, marker(&e["args"]), e["st"].as_i64().unwrap_or(-1)))
        .collect();
    let root = table.keys().cloned().min().unwrap_or(2);
    let mut tr = vec![];
    linearise(root, &evs, &parent, &mut tr);
    let oc = match &res.outcome {
        yvcommon::sched::Outcome::Completed => "completed",
        yvcommon::sched::Outcome::Deadlock => "deadlock",
        yvcommon::sched::Outcome::StepLimit => "steplimit",
        yvcommon::sched::Outcome::Panic(_) => "panic",
    };
    let mut detail = String::new();
    if let yvcommon::sched::Outcome::Panic(m) = &res.outcome {
        detail = m.chars().take(300).collect();
    } else if std::env::var("YV_G07_STDERR").is_ok() {
        detail = res.stderr_str().chars().take(400).collect();
    }
    let st = res.status as i64;
    // break the scheduler/state reference cycle (see yvcommon notes)
    let ex = res.state.borrow_mut().executor.take();
    drop(ex);
    Obs { oc: oc.into(), st, tr, detail }
}

// the helpers append to a log file: standard output may be redirected by the program under test
const MK_SCRIPT: &str = "#!/bin/sh\necho \"$1:$3\" >>./yvlog\nexit \"$2\"\n";
const PROBE_SCRIPT: &str = "#!/bin/sh\necho \"$1:$2\" >>./yvlog\nexit \"$2\"\n";

/// True entry point (`yash_cli::main()`) on the real OS.
pub fn run_real_shell(r: &Rendered) -> Obs {
    let mut args: Vec<String> = r.flags.clone();
    let mut stdin = vec![];
    if r.via_stdin {
        stdin = r.script.as_bytes().to_vec();
    } else {
        args.push("-c".into());
        args.push(r.script.clone());
    }
    let mut files = vec![
        FileSpec::Regular { path: "mk".into(), content: MK_SCRIPT.as_bytes().to_vec(), mode: 0o755 },
        FileSpec::Regular { path: "probe".into(), content: PROBE_SCRIPT.as_bytes().to_vec(), mode: 0o755 },
    ];
    for (name, content, mode) in &r.files {
        files.push(FileSpec::Regular { path: name.clone(), content: content.clone(), mode: *mode });
    }
    let cfg = RealCfg { args, stdin, files, mirror: false, timeout: Duration::from_secs(60), env: vec![] };
    let res = run_real(&cfg);
    let out = res
        .files
        .iter()
        .find(|(p, _)| p == "yvlog")
        .map(|(_, c)| String::from_utf8_lossy(c).into_owned())
        .unwrap_or_default();
    let mut tr = vec![];
    let mut bad = String::new();
    for line in out.lines() {
        let mut it = line.splitn(2, ':');
        match (it.next().and_then(|a| a.parse::<i64>().ok()), it.next().and_then(|b| b.parse::<i64>().ok())) {
            (Some(m), Some(s)) => tr.push((m, s)),
            _ => bad = format!("unparsable log line {line:?}"),
        }
    }
    if bad.is_empty() && std::env::var("YV_G07_STDERR").is_ok() {
        bad = String::from_utf8_lossy(&res.stderr).chars().take(400).collect();
    }
    let oc = if res.timed_out { "timeout" } else { "completed" };
    Obs { oc: oc.into(), st: res.status as i64, tr, detail: bad }
}

/// Does the observation match the outcome the specification prescribes?
/// Expected statuses <= -10 are symbolic ("some non-zero status POSIX only
/// bounds"): each symbol is bound to the first value observed for it, which
/// must be in 1..=255, and must be observed with that value everywhere.
pub fn matches(exp_tr: &[(i64, i64)], exp_st: i64, obs: &Obs, trap_markers: &[i64]) -> Result<(), String> {
    match matches0(exp_tr, exp_st, obs) {
        Ok(()) => Ok(()),
        Err(why) => {
            // a more specific description where the only difference is that the
            // EXIT trap action expected last was not run: everything before it
            // agrees and the final status is the $? the action would have seen
            if let Some(&(m, seen)) = exp_tr.last() {
                if trap_markers.contains(&m) && matches0(&exp_tr[..exp_tr.len() - 1], seen, obs).is_ok() {
                    return Err("EXIT trap action not run".into());
                }
            }
            Err(why)
        }
    }
}

fn matches0(exp_tr: &[(i64, i64)], exp_st: i64, obs: &Obs) -> Result<(), String> {
    if obs.oc != "completed" {
        return Err(format!("outcome {}", obs.oc));
    }
    if exp_tr.len() != obs.tr.len() {
        return Err("trace length".into());
    }
    let mut e: Vec<(i64, i64)> = exp_tr.to_vec();
    let mut o: Vec<(i64, i64)> = obs.tr.clone();
    e.push((i64::MIN, exp_st));
    o.push((i64::MIN, obs.st));
    let mut bind: BTreeMap<i64, i64> = BTreeMap::new();
    for (i, (x, y)) in e.iter().zip(o.iter()).enumerate() {
        if x.0 != y.0 {
            return Err(format!("marker at {i}"));
        }
        if x.1 <= -10 {
            if !(1..=255).contains(&y.1) {
                return Err(format!("error status at {i} is {}", y.1));
            }
            match bind.get(&x.1) {
                Some(&v) if v != y.1 => return Err(format!("error status at {i} changed")),
                _ => {
                    bind.insert(x.1, y.1);
                }
            }
        } else if x.1 != y.1 {
            return Err(if i + 1 == e.len() { "final status".into() } else { format!("status at {i}") });
        }
    }
    Ok(())
}
