//! Rendering of an abstract program of spec/NestedExec.tla to shell text and
//! files, with seeded surface variation (newline vs `;`, blanks, comments,
//! line continuations; quoting style and splitting of eval operands; the
//! spelling of dot-script pathnames).  Braces are inserted wherever the
//! grammar level of a child is lower than its slot requires; a brace group is
//! semantically transparent (XCU 2.9.4.1).  The operand strings of `eval`
//! are quoted so that, after the shell's quote removal and eval's joining of
//! its operands with single spaces, eval receives exactly the rendered text
//! of the child program.
use crate::ast::Node;
use rand::rngs::StdRng;
use rand::{Rng, SeedableRng};

#[derive(Clone, Copy, PartialEq, Eq, Debug)]
pub enum Mode {
    /// simulated OS (working directory /w), probe built-ins `mk`, `probe`, `tick`
    Sim,
    /// real OS, true entry point: helper executables `./mk`, `./probe`
    Real,
}

pub struct Renderer {
    rng: StdRng,
    pub mode: Mode,
    pub vary: bool,
    files: Vec<(String, Vec<u8>, u32)>,
    vars: Vec<String>,
    use_path: bool,
    /// do not use inputs that consist of blank / comment *lines* only
    pub avoid_blank_lines: bool,
    /// notable variants used in this rendering
    pub feats: Vec<&'static str>,
    /// render every `fail c` leaf whose category is that of this entry of
    /// failtab::TABLE with that entry (otherwise: seeded draw)
    pub force_fail: Option<usize>,
    /// entries of failtab::TABLE used in this rendering
    pub fails_used: Vec<usize>,
}

pub struct Rendered {
    pub script: String,
    pub flags: Vec<String>,
    pub via_stdin: bool,
    /// (name relative to the working directory, content, mode)
    pub files: Vec<(String, Vec<u8>, u32)>,
    pub feats: Vec<&'static str>,
    /// entries of failtab::TABLE the `fail c` leaves were rendered with
    pub fails: Vec<usize>,
}

/// One complete command each, none of them well-formed.
const SYNERR: &[&str] = &["fi", "done", ")", "}", "&& :", "then", "esac", "do", "| :", "else", "(", "if :; then", "{ :", ";;",
    "while :; do :", "for", ": |", ": &&"];

fn lvl(n: &Node) -> u8 {
    match n.k.as_str() {
        "seq" => 0,
        "and" | "or" => 1,
        "not" => 2,
        _ => 3,
    }
}

fn is_compound_syntax(k: &str) -> bool {
    matches!(k, "sub" | "if" | "ife" | "while" | "for")
}

pub const SIM_CWD: &str = "/w";

impl Renderer {
    pub fn new(seed: u64, mode: Mode, vary: bool) -> Self {
        Renderer { rng: StdRng::seed_from_u64(seed), mode, vary, files: vec![], vars: vec![], use_path: false,
                   avoid_blank_lines: false, feats: vec![], force_fail: None, fails_used: vec![] }
    }

    fn pick(&mut self, n: usize) -> usize {
        if self.vary { self.rng.gen_range(0..n) } else { 0 }
    }
    fn coin(&mut self) -> bool {
        self.vary && self.rng.gen_bool(0.5)
    }
    fn rare(&mut self) -> bool {
        self.vary && self.rng.gen_bool(0.15)
    }

    /// mandatory blank between two words
    fn sp(&mut self) -> String {
        match self.pick(12) {
            0..=7 => " ".into(),
            8 => "  ".into(),
            9 => "\t".into(),
            10 => " \\\n".into(),
            _ => " \\\n ".into(),
        }
    }
    /// optional blank around operators
    fn osp(&mut self) -> String {
        match self.pick(6) {
            0..=2 => " ".into(),
            3 | 4 => "".into(),
            _ => "  ".into(),
        }
    }
    fn comment(&mut self) -> String {
        match self.pick(4) {
            0 => " # note".into(),
            1 => " #".into(),
            2 => "\t# ; fi done } ) && exit 9".into(),
            _ => " # 'x \"y".into(),
        }
    }
    fn newline(&mut self) -> String {
        let mut s = String::new();
        if self.rare() {
            s.push_str(&self.comment());
        }
        s.push('\n');
        if self.rare() {
            s.push_str(if self.coin() { "\n" } else { "  # c\n" });
        }
        if self.rare() {
            s.push_str("  ");
        }
        s
    }
    fn sep(&mut self) -> String {
        match self.pick(8) {
            0..=2 => "; ".into(),
            3 => ";".into(),
            4 => " ;".into(),
            _ => self.newline(),
        }
    }
    fn term(&mut self) -> String {
        match self.pick(6) {
            0..=2 => "; ".into(),
            3 => ";".into(),
            _ => self.newline(),
        }
    }
    fn kw(&mut self) -> String {
        match self.pick(6) {
            0..=3 => " ".into(),
            4 => self.newline(),
            _ => "  ".into(),
        }
    }
    fn linebreak(&mut self) -> String {
        match self.pick(8) {
            0..=3 => " ".into(),
            4 => "".into(),
            5 => self.newline(),
            6 => " \\\n".into(),
            _ => "  ".into(),
        }
    }

    pub fn list(&mut self, n: &Node) -> String {
        if n.k == "seq" {
            let a = self.list(&n.c[0]);
            let s = self.sep();
            let b = self.list(&n.c[1]);
            format!("{a}{s}{b}")
        } else {
            self.andor(n)
        }
    }

    fn andor(&mut self, n: &Node) -> String {
        match n.k.as_str() {
            "and" | "or" => {
                let l = if lvl(&n.c[0]) >= 1 { self.andor(&n.c[0]) } else { self.brace(&n.c[0]) };
                let r = if lvl(&n.c[1]) >= 2 { self.pipeline(&n.c[1]) } else { self.brace(&n.c[1]) };
                let op = if n.k == "and" { "&&" } else { "||" };
                let pre = if self.rare() { " \\\n".to_string() } else { self.osp() };
                let post = self.linebreak();
                format!("{l}{pre}{op}{post}{r}")
            }
            "seq" => self.brace(n),
            _ => self.pipeline(n),
        }
    }

    fn pipeline(&mut self, n: &Node) -> String {
        match n.k.as_str() {
            "not" => {
                let c = &n.c[0];
                let inner = if lvl(c) == 3 { self.command(c) } else { self.brace(c) };
                format!("!{}{inner}", self.sp())
            }
            "seq" | "and" | "or" => self.brace(n),
            _ => self.command(n),
        }
    }

    fn brace(&mut self, n: &Node) -> String {
        let k = self.kw();
        let l = self.list(n);
        let t = self.term();
        format!("{{{k}{l}{t}}}")
    }

    fn compound(&mut self, n: &Node) -> String {
        if is_compound_syntax(&n.k) && !self.rare() { self.command(n) } else { self.brace(n) }
    }

    fn if_tail(&mut self, n: &Node) -> String {
        let mut s = String::new();
        s.push_str(&self.kw());
        s.push_str(&self.list(&n.c[0]));
        s.push_str(&self.term());
        s.push_str("then");
        s.push_str(&self.kw());
        s.push_str(&self.list(&n.c[1]));
        s.push_str(&self.term());
        if n.k == "ife" {
            let e = &n.c[2];
            if (e.k == "if" || e.k == "ife") && self.coin() {
                s.push_str("elif");
                s.push_str(&self.if_tail(e));
            } else {
                s.push_str("else");
                s.push_str(&self.kw());
                s.push_str(&self.list(e));
                s.push_str(&self.term());
            }
        }
        s
    }

    fn loop_body(&mut self, body: &Node) -> String {
        let k = self.kw();
        let l = self.list(body);
        let t = self.term();
        format!("do{k}{l}{t}done")
    }

    pub fn command(&mut self, n: &Node) -> String {
        match n.k.as_str() {
            "sub" => {
                let inner = self.list(&n.c[0]);
                let pre = if inner.starts_with('(') { " ".to_string() } else { self.osp() };
                let post = match self.pick(4) {
                    0 => ";".to_string(),
                    1 => self.newline(),
                    _ => self.osp(),
                };
                format!("({pre}{inner}{post})")
            }
            "if" | "ife" => {
                let t = self.if_tail(n);
                format!("if{t}fi")
            }
            "while" => {
                let k = self.kw();
                let c = self.list(&n.c[0]);
                let t = self.term();
                let b = self.loop_body(&n.c[1]);
                format!("while{k}{c}{t}{b}")
            }
            "for" => {
                let mut s = format!("for{}v{}in", self.sp(), self.sp());
                for w in ["a", "b", "c", "d"].iter().take(n.n.max(0) as usize) {
                    s.push_str(&self.sp());
                    s.push_str(w);
                }
                s.push_str(&self.term());
                s.push_str(&self.loop_body(&n.c[0]));
                s
            }
            "def" => {
                let b = self.compound(&n.c[0]);
                let name = &n.s;
                match self.pick(4) {
                    0 => format!("{name}() {b}"),
                    1 => format!("{name} ( ){b}"),
                    2 => format!("{name}(){}{b}", self.newline()),
                    _ => format!("{name}(){b}"),
                }
            }
            "seq" | "and" | "or" | "not" => self.brace(n),
            _ => self.simple(n),
        }
    }

    // ---- quoting -----------------------------------------------------------

    fn q_single(s: &str) -> String {
        format!("'{}'", s.replace('\'', "'\\''"))
    }
    fn q_double(s: &str) -> String {
        let mut o = String::from("\"");
        for ch in s.chars() {
            if matches!(ch, '\\' | '"' | '$' | '`') {
                o.push('\\');
            }
            o.push(ch);
        }
        o.push('"');
        o
    }
    fn q_backslash(s: &str) -> String {
        if s.is_empty() {
            return "''".into();
        }
        let mut o = String::new();
        for ch in s.chars() {
            if ch == '\n' {
                o.push_str("'\n'");
            } else if ch.is_ascii_alphanumeric() || matches!(ch, '_' | '/' | '.') {
                o.push(ch);
            } else {
                o.push('\\');
                o.push(ch);
            }
        }
        o
    }
    /// A word that expands (quote removal only) to exactly `s`.
    fn quote(&mut self, s: &str) -> String {
        match self.pick(7) {
            0..=2 => Self::q_single(s),
            3 => Self::q_double(s),
            4 => Self::q_backslash(s),
            _ => {
                // concatenation of differently quoted pieces
                let chars: Vec<char> = s.chars().collect();
                if chars.len() < 2 {
                    return Self::q_double(s);
                }
                let mut cuts = vec![self.rng.gen_range(1..chars.len())];
                if chars.len() > 4 && self.coin() {
                    cuts.push(self.rng.gen_range(1..chars.len()));
                }
                cuts.sort();
                cuts.dedup();
                cuts.push(chars.len());
                let mut o = String::new();
                let mut a = 0;
                for b in cuts {
                    let piece: String = chars[a..b].iter().collect();
                    o.push_str(&match self.rng.gen_range(0..3) {
                        0 => Self::q_single(&piece),
                        1 => Self::q_double(&piece),
                        _ => Self::q_backslash(&piece),
                    });
                    a = b;
                }
                o
            }
        }
    }

    /// `eval` applied to `text`: one operand, several operands split at single
    /// spaces (eval joins them with single spaces again), or through a variable
    /// assigned in the prelude of the script.
    fn eval_command(&mut self, text: &str, m: usize) -> String {
        let name = "eval";
        let dd = if self.rare() { format!("{}--", self.sp()) } else { String::new() };
        match self.pick(6) {
            0..=2 => format!("{name}{dd}{}{}", self.sp(), self.quote(text)),
            3 | 4 => {
                let idx: Vec<usize> = text.char_indices().filter(|(_, c)| *c == ' ').map(|(i, _)| i).collect();
                if idx.is_empty() {
                    return format!("{name}{dd}{}{}", self.sp(), self.quote(text));
                }
                let mut cuts: Vec<usize> = idx.iter().cloned().filter(|_| self.rng.gen_bool(0.35)).collect();
                if cuts.is_empty() {
                    cuts.push(idx[self.rng.gen_range(0..idx.len())]);
                }
                let mut pieces: Vec<&str> = vec![];
                let mut a = 0;
                for c in &cuts {
                    pieces.push(&text[a..*c]);
                    a = *c + 1;
                }
                pieces.push(&text[a..]);
                let mut out = format!("{name}{dd}");
                for piece in pieces {
                    out.push_str(&self.sp());
                    let q = self.quote(piece);
                    out.push_str(&q);
                }
                out
            }
            _ => {
                let var = format!("E{m}");
                self.vars.push(format!("{var}={}", Self::q_single(text)));
                if self.coin() { format!("{name}{dd}{}\"${var}\"", self.sp()) } else { format!("{name}{dd}{}\"${{{var}}}\"", self.sp()) }
            }
        }
    }

    fn probe_words(&self, m: &str) -> String {
        if self.mode == Mode::Real { format!("./probe {m} $?") } else { format!("probe {m}") }
    }

    fn trap_action(&self, m: &str, a: i64) -> String {
        let p = self.probe_words(m);
        match a {
            -2 => p,
            // (`! :` changes $? inside the action: `exit` must not use that value)
            -1 => format!("{p}; ! :; exit"),
            n => format!("{p}; exit {n}"),
        }
    }

    fn dot_name(&mut self) -> &'static str {
        if self.rare() { "source" } else { "." }
    }

    /// pathname with a slash of file `f` in the working directory
    fn slash_path(&mut self, f: &str) -> String {
        match self.pick(6) {
            0..=2 => format!("./{f}"),
            3 => {
                if self.mode == Mode::Sim { format!("{SIM_CWD}/{f}") } else { format!("\"$PWD/{f}\"") }
            }
            4 => format!("././{f}"),
            _ => format!(".//{f}"),
        }
    }

    fn simple(&mut self, n: &Node) -> String {
        let real = self.mode == Mode::Real;
        let m = n.m.to_string();
        let words: Vec<String> = match n.k.as_str() {
            "mk" => {
                if real {
                    vec!["./mk".into(), m, n.n.to_string(), "$?".into()]
                } else {
                    vec!["mk".into(), m, n.n.to_string()]
                }
            }
            "P" => {
                if real {
                    vec!["./probe".into(), m, "$?".into()]
                } else {
                    vec!["probe".into(), m]
                }
            }
            "Q" => {
                let e = match self.pick(3) {
                    0 => format!("$((1000*(1+$#)+{m}))"),
                    1 => format!("$(( (1 + $#) * 1000 + {m} ))"),
                    _ => format!("$(({m}+1000+$#*1000))"),
                };
                // (an arithmetic expansion with blanks is one word only inside double quotes)
                let e = if e.contains(' ') { format!("\"{e}\"") } else { e };
                if real { vec!["./probe".into(), e, "$?".into()] } else { vec!["probe".into(), e] }
            }
            "setpp" => {
                let mut w: Vec<String> = vec!["set".into(), "--".into()];
                for a in ["a", "b", "c"].iter().take(n.n.max(0) as usize) {
                    w.push(a.to_string());
                }
                w
            }
            "sete" => {
                let on = n.n != 0;
                match self.pick(3) {
                    0 | 1 => vec!["set".into(), if on { "-e" } else { "+e" }.into()],
                    _ => vec!["set".into(), if on { "-o" } else { "+o" }.into(), "errexit".into()],
                }
            }
            "tick" => vec!["tick".into()],
            "cmd" => {
                let mut w = vec![n.s.clone()];
                for a in ["x", "y", "z"].iter().take(n.n.max(0) as usize) {
                    w.push(a.to_string());
                }
                w
            }
            "brk" | "cnt" => {
                let name = if n.k == "brk" { "break" } else { "continue" };
                if n.n == 1 && self.coin() { vec![name.into()] } else { vec![name.into(), n.n.to_string()] }
            }
            "ret" | "exit" => {
                let name = if n.k == "ret" { "return" } else { "exit" };
                if n.n < 0 { vec![name.into()] } else { vec![name.into(), n.n.to_string()] }
            }
            "trap" => {
                let act = self.trap_action(&m, n.n);
                let q = self.quote(&act);
                vec!["trap".into(), q, "EXIT".into()]
            }
            "eval" => {
                let text = self.list(&n.c[0]);
                return self.eval_command(&text, n.m);
            }
            "evalnil" => {
                let mut v = self.pick(9);
                if v == 7 {
                    if self.avoid_blank_lines { v = 3 } else { self.feats.push("blank-line-only-input") }
                }
                return match v {
                    0 => "eval".into(),
                    1 => "eval ''".into(),
                    2 => "eval '' \"\"".into(),
                    3 => "eval ' '".into(),
                    4 => "eval '# c'".into(),
                    5 => "eval \"$U\"".into(),
                    6 => "eval --".into(),
                    7 => "eval '\n'".into(),
                    _ => "eval '' ' ' ''".into(),
                };
            }
            "evalsyn" => {
                let text = self.syntax_error_text();
                return self.eval_command(&text, n.m);
            }
            "dot" => {
                let body = self.list(&n.c[0]);
                let fname = format!("d{}", n.m);
                let mut content = body.into_bytes();
                if !self.rare() {
                    content.push(b'\n');
                }
                self.files.push((fname.clone(), content, 0o644));
                let path = if n.n == 1 && self.use_path { fname } else { self.slash_path(&fname) };
                vec![self.dot_name().into(), path]
            }
            "dotnil" => {
                let fname = format!("d{}", n.m);
                let mut v = self.pick(5);
                if (1..=3).contains(&v) {
                    if self.avoid_blank_lines { v = if v == 2 { 4 } else { 0 } } else { self.feats.push("blank-line-only-input") }
                }
                let content: &str = match v {
                    0 => "",
                    1 => "\n",
                    2 => "# nothing here\n",
                    3 => "  \n\n",
                    _ => "#",
                };
                self.files.push((fname.clone(), content.as_bytes().to_vec(), 0o644));
                let path = self.slash_path(&fname);
                vec![self.dot_name().into(), path]
            }
            "dotmiss" => {
                let path = if n.n == 1 {
                    format!("nofile{}", n.m)
                } else {
                    match self.pick(3) {
                        0 => format!("./nofile{}", n.m),
                        1 => "/nx-yv/nofile".to_string(),
                        _ => format!("nodir/nofile{}", n.m),
                    }
                };
                vec![self.dot_name().into(), path]
            }
            "dotsyn" => {
                let fname = format!("d{}", n.m);
                let mut content = self.syntax_error_text().into_bytes();
                if !self.rare() {
                    content.push(b'\n');
                }
                self.files.push((fname.clone(), content, 0o644));
                let path = self.slash_path(&fname);
                vec![self.dot_name().into(), path]
            }
            "fail" => {
                // one documented error invocation of the category (seeded draw,
                // also in the plain rendering)
                let cands = crate::failtab::of_cat(&n.s);
                if cands.is_empty() {
                    return format!("unknown-fail-category-{}", n.s);
                }
                let idx = match self.force_fail {
                    Some(f) if crate::failtab::TABLE[f].cat == n.s => f,
                    _ => cands[self.rng.gen_range(0..cands.len())],
                };
                self.fails_used.push(idx);
                let text = crate::failtab::text(idx, real);
                return if crate::failtab::TABLE[idx].list { format!("{{ {text}; }}") } else { text };
            }
            "exec" => match n.s.as_str() {
                "found" => {
                    // (real OS only: the simulator cannot replace a process image)
                    let util = if self.use_path && self.coin() { "mk" } else { "./mk" };
                    vec!["exec".into(), util.into(), m, n.n.to_string(), "$?".into()]
                }
                "missing" => {
                    let p = match self.pick(3) {
                        0 => "./nosuchcmd",
                        1 => "nosuchcmd",
                        _ => "/nx-yv/nosuchcmd",
                    };
                    vec!["exec".into(), p.into()]
                }
                "noexec" => {
                    if !self.files.iter().any(|f| f.0 == "plain") {
                        self.files.push(("plain".into(), b"#!/bin/sh\nexit 0\n".to_vec(), 0o644));
                    }
                    let p = self.slash_path("plain");
                    vec!["exec".into(), p]
                }
                _ => {
                    if self.rare() { vec!["exec".into(), "--".into()] } else { vec!["exec".into()] }
                }
            },
            other => vec![format!("unknown-leaf-{other}")],
        };
        let mut s = String::new();
        for (i, w) in words.iter().enumerate() {
            if i > 0 {
                s.push_str(&self.sp());
            }
            s.push_str(w);
        }
        s
    }

    /// One complete command that is not well-formed, sometimes preceded on the
    /// same line by an observation point that must never be executed.
    fn syntax_error_text(&mut self) -> String {
        let bad = SYNERR[self.pick(SYNERR.len())];
        if self.rare() {
            let p = self.probe_words("999");
            format!("{p}; {bad}")
        } else if self.rare() {
            let p = self.probe_words("999");
            format!("{p} && {bad}")
        } else {
            bad.to_string()
        }
    }

    /// The whole program with its prelude.  `e`: errexit; `t`: EXIT trap set
    /// before the program (1: `probe 0`, 2: `probe 0; exit 7`, 3: `probe 0; ! :; exit`).
    pub fn program(&mut self, root: &Node, e: bool, t: i64) -> Rendered {
        let real = self.mode == Mode::Real;
        let mut flags: Vec<String> = vec![];
        let mut prelude: Vec<String> = vec![];
        let wants_path = root.any(&|n| n.k == "dot" && n.n == 1);
        let exec_found = root.any(&|n| n.k == "exec" && n.s == "found");
        self.use_path = wants_path || (exec_found && self.coin());
        if self.use_path {
            let dir = if real || self.coin() { "$PWD" } else { SIM_CWD };
            prelude.push(match self.pick(3) {
                0 | 1 => format!("PATH={dir}:$PATH"),
                _ => format!("PATH=/nx-yv/bin:{dir}:$PATH"),
            });
        }
        if root.any(&|n| n.k == "fail") {
            // the read-only variable of the assignment-error invocations
            prelude.push("readonly RO=1".into());
        }
        if e {
            match self.pick(4) {
                0 | 1 => flags.push("-e".into()),
                2 => prelude.push("set -e".into()),
                _ => prelude.push("set -o errexit".into()),
            }
        }
        if t > 0 {
            let a = match t {
                1 => -2,
                2 => 7,
                _ => -1,
            };
            let act = self.trap_action("0", a);
            let q = if self.vary { self.quote(&act) } else { Self::q_single(&act) };
            prelude.push(format!("trap {q} EXIT"));
        }
        let body = self.list(root);
        let mut s = String::new();
        let vars = std::mem::take(&mut self.vars);
        for p in vars.iter().chain(prelude.iter()) {
            s.push_str(p);
            s.push_str(if self.coin() { "; " } else { "\n" });
        }
        s.push_str(&body);
        if self.coin() {
            s.push('\n');
        }
        let via_stdin = self.rare();
        Rendered { script: s, flags, via_stdin, files: std::mem::take(&mut self.files), feats: std::mem::take(&mut self.feats),
                   fails: std::mem::take(&mut self.fails_used) }
    }
}
