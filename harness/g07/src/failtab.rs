//! Concrete failing commands for the leaf `fail c` of spec/NestedExec.tla
//! (nested-errors stage of property C10).  One entry = one documented error
//! invocation; `cat` is the category of XCU 2.8.1 "Consequences of Shell
//! Errors" it belongs to (ErrCats of the specification), `doc` names the
//! clause of the manual (/repo/docs/src) or of POSIX that makes the
//! invocation an error of that category.  Nothing here says what the shell
//! has to do: that is the specification's part.
//!
//! Placeholders: `@NX@` a pathname in a directory that does not exist,
//! `@NW@` a pathname that cannot be opened for writing (the simulated OS
//! creates missing directories on O_CREAT, so there it is the working
//! directory itself: EISDIR), `@MK@` an observation command that must never be executed (marker 999).
//! RO is a read-only variable set by the prelude (`readonly RO=1`); U is
//! never set.  No entry changes anything the specification speaks about
//! (positional parameters, options, functions f and g, the EXIT trap) and
//! none reads the standard input (the script itself may arrive there).

pub struct Inv {
    pub cat: &'static str,
    pub builtin: &'static str,
    pub text: &'static str,
    /// the text is a list of several commands (always rendered in braces)
    pub list: bool,
    pub doc: &'static str,
}

const fn i(cat: &'static str, builtin: &'static str, text: &'static str, doc: &'static str) -> Inv {
    Inv { cat, builtin, text, list: false, doc }
}

const SP_ERR: &str = "termination.md 'Errors in special built-in utilities'; XCU 2.8.1 special built-in utility error";
const SPR: &str = "termination.md 'This includes redirection errors for special built-ins'; XCU 2.8.1 redirection error with special built-in utilities";
const ASG: &str = "termination.md 'Variable assignment errors'; XCU 2.9.1.2 assignment to a readonly variable; 2.8.1 variable assignment error";
const EXP: &str = "termination.md 'expansion errors'; XCU 2.6.2 ${parameter?word} / 2.6.4 invalid expression; 2.8.1 expansion error";
const CMDSP: &str = "termination.md 'This does not apply to special built-ins run via the command built-in'; XCU command: 'the shell shall not exit'";
const REGR: &str = "termination.md 'Redirection errors (except for special built-ins)'; XCU 2.8.1 redirection error with other utilities";
const CMPR: &str = "termination.md 'Redirection errors (except for special built-ins)'; XCU 2.8.1 redirection error with compound commands";

pub const TABLE: &[Inv] = &[
    // ---- special built-in utility errors ("shall exit") -------------------
    i("sp", "set", "set -o nosuchoption", "set.md exit status 2: invalid options"),
    i("sp", "set", "set +o nosuchoption", "set.md exit status 2: invalid options"),
    i("sp", "set", "set --nosuchoption", "set.md exit status 2: invalid options"),
    i("sp", "set", "set -o cmdline", "set.md 'You cannot modify the following options with the set built-in'"),
    i("sp", "shift", "shift 99", "shift.md Errors: more than the number of positional parameters"),
    i("sp", "shift", "shift 3", "shift.md Errors (at most two positional parameters exist)"),
    i("sp", "shift", "shift x", "shift.md Operands: must be a non-negative decimal integer"),
    i("sp", "readonly", "readonly RO=2", "readonly.md Errors: the variable is already read-only"),
    i("sp", "readonly", "readonly -p NOSUCHVAR", "readonly.md Errors: an operand names a non-existing variable"),
    i("sp", "readonly", "readonly A=1 RO=3", "readonly.md Errors: the variable is already read-only"),
    i("sp", "export", "export RO=2", "export.md Errors: the variable is read-only"),
    i("sp", "export", "export -p NOSUCHVAR", "export.md Errors: an operand names a non-existing variable"),
    i("sp", "unset", "unset RO", "unset.md Errors: unsetting a read-only variable"),
    i("sp", "unset", "unset -v U RO", "unset.md Errors: unsetting a read-only variable"),
    i("sp", "unset", "unset -f -v x", "unset.md Compatibility: both -f and -v: 'this version errors out'"),
    i("sp", ".", ". @NX@", "source.md Errors: the file cannot be found or read"),
    i("sp", ".", ". ./nofile-yv", "source.md Errors: the file cannot be found or read"),
    i("sp", ".", ". nofile-yv", "source.md Errors: not found in PATH"),
    i("sp", "source", "source @NX@", "source.md Errors: the file cannot be found or read"),
    i("sp", ".", ".", "source.md Operands: the first operand file must be given"),
    i("sp", "break", "break 0", "break.md Operands: error if the value is not a positive decimal integer"),
    i("sp", "break", "break x", "break.md Operands: error if the value is not a positive decimal integer"),
    i("sp", "continue", "continue 0", "continue.md Operands: error if the value is not a positive decimal integer"),
    i("sp", "exit", "exit x1", "exit.md Errors: operand not a valid non-negative integer"),
    // ---- redirection error with a special built-in ("shall exit") ---------
    i("spr", ":", ": <@NX@", SPR),
    i("spr", ":", ": >@NW@", SPR),
    i("spr", ":", ": >>@NW@", SPR),
    i("spr", ":", ": 3<@NX@", SPR),
    i("spr", ":", ": >|@NW@", SPR),
    i("spr", ":", ": <>@NW@", SPR),
    i("spr", ":", "<@NX@ :", SPR),
    i("spr", ":", ": 2>@NW@", SPR),
    i("spr", "export", "export A=1 <@NX@", SPR),
    i("spr", "readonly", "readonly B=1 >@NW@", SPR),
    i("spr", "unset", "unset U <@NX@", SPR),
    i("spr", "eval", "eval @MK@ <@NX@", SPR),
    i("spr", "eval", "eval : >@NW@", SPR),
    i("spr", ".", ". ./nofile-yv <@NX@", SPR),
    i("spr", "shift", "shift 0 <@NX@", SPR),
    i("spr", "times", "times >@NW@", SPR),
    i("spr", "set", "set -o >@NW@", SPR),
    i("spr", "exec", "exec <@NX@", SPR),
    i("spr", "exec", "exec 3>@NW@", SPR),
    // ---- variable assignment error, no command name ("shall exit") --------
    i("asg", "", "RO=2", ASG),
    i("asg", "", "RO=", ASG),
    i("asg", "", "A=1 RO=2", ASG),
    i("asg", "", "RO=2 A=1", ASG),
    i("asg", "", "RO=$?", ASG),
    // ---- variable assignment error, with a command name ("shall exit") ----
    i("asgc", ":", "RO=2 :", ASG),
    i("asgc", "mk", "RO=2 @MK@", ASG),
    i("asgc", "cd", "RO=2 cd .", ASG),
    i("asgc", "true", "RO=2 true", ASG),
    i("asgc", "command", "RO=2 command :", ASG),
    i("asgc", "eval", "RO=2 eval @MK@", ASG),
    i("asgc", "export", "A=1 RO=2 export B", ASG),
    i("asgc", "mk", "A=1 RO=2 @MK@", ASG),
    // ---- expansion error ("shall exit") ------------------------------------
    i("exp", ":", ": ${U?}", EXP),
    i("exp", ":", ": ${U:?}", EXP),
    i("exp", ":", ": ${U?unset}", EXP),
    i("exp", ":", ": \"${U?}\"", EXP),
    i("exp", ":", ": x${U:?no value}y", EXP),
    i("exp", "mk", "@MK@ ${U?}", EXP),
    i("exp", "cd", "cd ${U?}", EXP),
    i("exp", "true", "true ${U:?}", EXP),
    i("exp", "", "A=${U?}", EXP),
    i("exp", "for", "for i in ${U?}; do @MK@; done", EXP),
    i("exp", "case", "case ${U?} in (*) @MK@;; esac", EXP),
    // ---- error of a utility that is not a special built-in -----------------
    i("reg", "cd", "cd /nx-yv/dir", "cd.md Errors: the operand does not resolve to an existing accessible directory"),
    i("reg", "cd", "cd ./nodir-yv", "cd.md Errors: the operand does not resolve to an existing accessible directory"),
    i("reg", "cd", "cd ''", "cd.md Errors: 'It is also an error if a given operand is an empty string'"),
    i("reg", "cd", "cd . .", "cd.md Exit Status: 'If the command arguments are invalid, the exit status is five'"),
    i("reg", "cd", "cd -Z", "cd.md Exit Status: 'If the command arguments are invalid, the exit status is five'"),
    i("reg", "alias", "alias nosuchalias_yv", "alias.md Errors: an operand without = refers to an alias that does not exist"),
    i("reg", "unalias", "unalias nosuchalias_yv", "unalias.md Errors: an operand names a non-existent alias"),
    i("reg", "umask", "umask 999", "umask.md Errors: not a valid file mode creation mask"),
    i("reg", "umask", "umask u=z", "umask.md Errors: not a valid file mode creation mask"),
    i("reg", "kill", "kill", "kill.md Errors: no target processes are specified"),
    i("reg", "kill", "kill -s NOSUCHSIG $$", "kill.md Errors: a specified signal is not supported by the shell"),
    i("reg", "kill", "kill -l NOSUCHSIG", "kill.md Errors: an operand specified with -l does not identify a supported signal"),
    i("reg", "type", "type nosuchcmd-yv", "type.md Errors: the name is not found"),
    i("reg", "command", "command nosuchcmd-yv", "command.md Errors / Exit status 127: the utility is not found"),
    i("reg", "command", "command -v nosuchcmd-yv", "command.md Exit status: with -v, 1 if not found"),
    i("reg", "command", "command -V nosuchcmd-yv", "command.md Exit status: with -V, 1 if not found"),
    i("reg", "read", "read -d xx v", "read.md Errors: the delimiter is not a single-byte character"),
    i("reg", "getopts", "getopts a", "getopts.md Errors: invoked with less than two operands"),
    i("reg", "getopts", "getopts a 1x", "getopts.md Errors: the second operand is not a valid variable name"),
    i("reg", "wait", "wait x1", "wait.md Errors: an operand is not a job ID or decimal process ID"),
    i("reg", "fg", "fg", "fg.md Errors: job control is off in the current shell environment"),
    i("reg", "bg", "bg", "bg.md Errors: job control is off in the current shell environment"),
    i("reg", "jobs", "jobs %nosuchjob", "jobs.md Errors: an operand does not specify a valid job"),
    i("reg", "jobs", "jobs -l -p", "jobs.md Errors: both the -l and -p options (since 3.3.5)"),
    i("reg", "ulimit", "ulimit -c -d", "ulimit.md Errors: more than one resource option is specified"),
    i("reg", "ulimit", "ulimit -n x", "ulimit.md Errors: the limit operand is out of range"),
    i("reg", "typeset", "typeset -p NOSUCHVAR", "typeset.md Errors: an operand names a non-existent variable"),
    i("reg", "typeset", "typeset -g RO=2", "typeset.md Errors: a read-only variable cannot be assigned"),
    i("reg", "typeset", "typeset -g +r RO", "typeset.md Errors: the read-only attribute cannot be removed"),
    i("reg", "typeset", "typeset -fr nosuchfn_yv", "typeset.md Errors: 'It is an error to modify a non-existent function'"),
    i("reg", "false", "false", "false.md Exit Status: 1"),
    i("reg", "nosuchcmd", "nosuchcmd-yv", "XCU 2.8.2 / 2.9.1.4: command not found, exit status 127; termination.md last paragraph"),
    // ---- special built-in error through `command` ("shall not exit") ------
    i("cmdsp", "set", "command set -o nosuchoption", CMDSP),
    i("cmdsp", "set", "command set --nosuchoption", CMDSP),
    i("cmdsp", "shift", "command shift 99", CMDSP),
    i("cmdsp", "shift", "command shift x", CMDSP),
    i("cmdsp", "readonly", "command readonly RO=2", CMDSP),
    i("cmdsp", "readonly", "command readonly -p NOSUCHVAR", CMDSP),
    i("cmdsp", "export", "command export RO=2", CMDSP),
    i("cmdsp", "export", "command export -p NOSUCHVAR", CMDSP),
    i("cmdsp", "unset", "command unset RO", CMDSP),
    i("cmdsp", ".", "command . @NX@", CMDSP),
    i("cmdsp", ".", "command . ./nofile-yv", CMDSP),
    i("cmdsp", "source", "command source @NX@", CMDSP),
    i("cmdsp", "break", "command break 0", CMDSP),
    i("cmdsp", "continue", "command continue 0", CMDSP),
    i("cmdsp", "set", "command command set +o nosuchoption", CMDSP),
    // ---- redirection error with a utility that is not a special built-in --
    i("regr", "cd", "cd . <@NX@", REGR),
    i("regr", "cd", "<@NX@ cd .", REGR),
    i("regr", "mk", "@MK@ <@NX@", REGR),
    i("regr", "mk", "@MK@ >@NW@", REGR),
    i("regr", "mk", "@MK@ >>@NW@", REGR),
    i("regr", "mk", "@MK@ 2>@NW@", REGR),
    i("regr", "mk", "@MK@ 3<@NX@", REGR),
    i("regr", "mk", "@MK@ <nofile-yv", REGR),
    i("regr", "true", "true <@NX@", REGR),
    i("regr", "false", "false >@NW@", REGR),
    i("regr", "pwd", "pwd >@NW@", REGR),
    i("regr", "alias", "alias <@NX@", REGR),
    i("regr", "unalias", "unalias -a <@NX@", REGR),
    i("regr", "umask", "umask >@NW@", REGR),
    i("regr", "type", "type : >@NW@", REGR),
    i("regr", "kill", "kill -l >@NW@", REGR),
    i("regr", "jobs", "jobs <@NX@", REGR),
    i("regr", "wait", "wait <@NX@", REGR),
    i("regr", "read", "read v <@NX@", REGR),
    i("regr", "getopts", "getopts a v <@NX@", REGR),
    i("regr", "ulimit", "ulimit >@NW@", REGR),
    i("regr", "typeset", "typeset V=1 <@NX@", REGR),
    i("regr", "command", "command : <@NX@", "XCU command: redirection error with a special built-in executed through command; termination.md"),
    i("regr", "command", "command eval @MK@ >@NW@", "XCU command: redirection error with a special built-in executed through command; termination.md"),
    Inv { cat: "regr", builtin: "function", text: "ff() { @MK@; }; ff <@NX@", list: true,
          doc: "XCU 2.8.1 redirection error with function execution: shall not exit; termination.md" },
    // ---- redirection error with a compound command -------------------------
    i("cmpr", "{", "{ @MK@; } <@NX@", CMPR),
    i("cmpr", "{", "{ @MK@; } >@NW@", CMPR),
    i("cmpr", "(", "( @MK@ ) <@NX@", CMPR),
    i("cmpr", "(", "( @MK@ ) 2>@NW@", CMPR),
    i("cmpr", "if", "if @MK@; then @MK@; fi <@NX@", CMPR),
    i("cmpr", "for", "for i in a; do @MK@; done >@NW@", CMPR),
    i("cmpr", "while", "while @MK@; do @MK@; done <@NX@", CMPR),
    i("cmpr", "until", "until @MK@; do @MK@; done >>@NW@", CMPR),
    i("cmpr", "case", "case a in (a) @MK@;; esac <@NX@", CMPR),
];


pub fn of_cat(cat: &str) -> Vec<usize> {
    TABLE.iter().enumerate().filter(|(_, e)| e.cat == cat).map(|(i, _)| i).collect()
}

pub const NX: &str = "/nx-yv/f";

/// The shell text of entry `idx` (`real`: the observation command is the helper executable).
pub fn text(idx: usize, real: bool) -> String {
    let e = &TABLE[idx];
    let mk = if real { "./mk 999 0 $?" } else { "mk 999 0" };
    let _ = (SP_ERR, e.doc);
    e.text.replace("@NX@", NX).replace("@NW@", if real { NX } else { "." }).replace("@MK@", mk)
}
