//! Thin adapters around the real `yash_fnmatch` API.
use serde_json::{Value, json};
use yash_fnmatch::{Config, Pattern, PatternChar, with_escape, without_escape};
use yvcommon::util::catch;

#[derive(Clone, Copy, Debug, PartialEq, Eq)]
pub struct Cfg {
    pub ab: bool,
    pub ae: bool,
    pub sh: bool,
    pub lp: bool,
}

impl Cfg {
    pub fn config(&self) -> Config {
        let mut c = Config::default();
        c.anchor_begin = self.ab;
        c.anchor_end = self.ae;
        c.shortest_match = self.sh;
        c.literal_period = self.lp;
        c
    }
    pub fn from_json(v: &Value) -> Cfg {
        Cfg {
            ab: v["ab"].as_bool().unwrap_or(false),
            ae: v["ae"].as_bool().unwrap_or(false),
            sh: v["sh"].as_bool().unwrap_or(false),
            lp: v["lp"].as_bool().unwrap_or(false),
        }
    }
}

/// How the pattern characters are handed to the parser.
#[derive(Clone, Copy, Debug, PartialEq, Eq)]
pub enum Mode {
    /// explicit `PatternChar`s (`c` = characters, `l` = quoted flags)
    Pc,
    /// `with_escape(text)`
    Esc,
    /// `without_escape(text)`
    Raw,
}

impl Mode {
    pub fn name(&self) -> &'static str {
        match self {
            Mode::Pc => "pc",
            Mode::Esc => "esc",
            Mode::Raw => "raw",
        }
    }
    pub fn from_name(s: &str) -> Mode {
        match s {
            "esc" => Mode::Esc,
            "raw" => Mode::Raw,
            _ => Mode::Pc,
        }
    }
}

pub fn strs(v: &Value) -> Vec<String> {
    v.as_array()
        .map(|a| a.iter().map(|x| x.as_str().unwrap_or("").to_string()).collect())
        .unwrap_or_default()
}

pub fn flags(v: &Value) -> Vec<bool> {
    v.as_array()
        .map(|a| a.iter().map(|x| x.as_i64().unwrap_or(0) != 0).collect())
        .unwrap_or_default()
}

pub fn chars_of(s: &str) -> Vec<String> {
    s.chars().map(|c| c.to_string()).collect()
}

pub fn pattern_chars(mode: Mode, c: &[String], l: &[bool]) -> Vec<PatternChar> {
    match mode {
        Mode::Pc => c
            .iter()
            .zip(l.iter().chain(std::iter::repeat(&false)))
            .map(|(c, &l)| {
                let ch = c.chars().next().unwrap_or('?');
                if l { PatternChar::Literal(ch) } else { PatternChar::Normal(ch) }
            })
            .collect(),
        Mode::Esc => with_escape(&c.concat()).collect(),
        Mode::Raw => without_escape(&c.concat()).collect(),
    }
}

/// `Ok(Ok(p))` compiled, `Ok(Err(()))` the parser reported an error (the
/// shell treats such a pattern as one that matches nothing), `Err(msg)` panic.
pub fn compile(pc: &[PatternChar], cfg: Cfg) -> Result<Result<Pattern, ()>, String> {
    catch(|| Pattern::parse_with_config(pc.iter().copied(), cfg.config()).map_err(|_| ()))
}

pub fn char_index(text: &str, byte: usize) -> i64 {
    text[..byte].chars().count() as i64
}

/// One observation of the three entry points on one text.
#[derive(Clone, Debug, PartialEq, Eq)]
pub struct Obs {
    pub pn: bool,
    pub e: bool,
    pub m: bool,
    pub f: (i64, i64),
    pub r: (i64, i64),
}

pub const NONE: (i64, i64) = (-1, -1);

pub fn observe_compiled(p: &Result<Pattern, ()>, text: &str) -> Obs {
    match p {
        Err(()) => Obs { pn: false, e: true, m: false, f: NONE, r: NONE },
        Ok(p) => {
            let r = catch(|| {
                let m = p.is_match(text);
                let f = p.find(text);
                let r = p.rfind(text);
                (m, f, r)
            });
            match r {
                Err(_) => Obs { pn: true, e: false, m: false, f: NONE, r: NONE },
                Ok((m, f, r)) => {
                    let conv = |x: Option<std::ops::Range<usize>>| match x {
                        None => NONE,
                        Some(r) => (char_index(text, r.start), char_index(text, r.end)),
                    };
                    Obs { pn: false, e: false, m, f: conv(f), r: conv(r) }
                }
            }
        }
    }
}

pub fn observe(pc: &[PatternChar], cfg: Cfg, text: &str) -> Obs {
    match compile(pc, cfg) {
        Err(_) => Obs { pn: true, e: false, m: false, f: NONE, r: NONE },
        Ok(p) => observe_compiled(&p, text),
    }
}

/// A trace record for Trace_Fnmatch.tla.
pub fn record(mode: Mode, c: &[String], l: &[bool], s: &str, cfg: Cfg, o: &Obs) -> Value {
    json!({
        "mode": mode.name(),
        "c": c,
        "l": l.iter().map(|&b| if b { 1 } else { 0 }).collect::<Vec<i32>>(),
        "s": chars_of(s),
        "ab": cfg.ab, "ae": cfg.ae, "sh": cfg.sh, "lp": cfg.lp,
        "pn": o.pn, "e": o.e, "m": o.m,
        "f": [o.f.0, o.f.1],
        "r": [o.r.0, o.r.1],
    })
}

/// JSON text with every non-ASCII character written as \uXXXX so that the
/// JVM's default charset cannot matter.
pub fn ascii_json(v: &Value) -> String {
    let s = v.to_string();
    if s.is_ascii() {
        return s;
    }
    let mut out = String::with_capacity(s.len() + 16);
    for ch in s.chars() {
        if ch.is_ascii() {
            out.push(ch);
        } else {
            let mut buf = [0u16; 2];
            for u in ch.encode_utf16(&mut buf) {
                out.push_str(&format!("\\u{:04x}", u));
            }
        }
    }
    out
}
