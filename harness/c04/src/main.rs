//! Conformance harness for property C04 (pattern matching), see
//! /verif/DESIGN.md section 6 and spec/Fnmatch.tla.
//!
//! * `enum`   spec -> impl: every pattern line printed by TLC (Gen_Fnmatch)
//!            is compiled by the real `yash_fnmatch` and `is_match` / `find` /
//!            `rfind` are compared with the match set / range tables that TLC
//!            printed (Gen_FnmatchFind).
//! * `random` impl -> spec: seeded random (pattern, string, configuration)
//!            cases beyond the exhaustive bounds are executed on the real code
//!            and recorded for validation by spec/Trace_Fnmatch.tla.
//! * `redo`   re-executes recorded cases (replay of a violation).
//! * `shell`  `${v#p}` `${v##p}` `${v%p}` `${v%%p}` and `case` through the
//!            whole shell for the cases printed by TLC (Gen_FnmatchShell).
mod fm;
mod random;
mod replay_enum;
mod shell;

fn main() {
    let args: Vec<String> = std::env::args().collect();
    if args.len() < 2 {
        eprintln!("usage: yv-c04 <enum|random|redo|shell> ...");
        std::process::exit(2);
    }
    yvcommon::util::quiet_panics();
    let rest = &args[2..];
    let code = match args[1].as_str() {
        "enum" => replay_enum::run(rest),
        "random" => random::run(rest),
        "redo" => random::redo(rest),
        "shell" => shell::run(rest),
        other => {
            eprintln!("unknown subcommand {other}");
            2
        }
    };
    std::process::exit(code);
}
