//! Conformance harness for property C04, see /verif/DESIGN.md.
fn main() {
    eprintln!("yv-c04: not implemented yet");
    std::process::exit(2);
}
