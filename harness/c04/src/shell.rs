//! `${v#p}` `${v##p}` `${v%p}` `${v%%p}` and `case` through the whole shell
//! (binds attr_fnmatch.rs, trim.rs, case.rs).  Expected values are read from
//! the lines TLC printed (Gen_Fnmatch with Kind = "shell"); this module only
//! renders each (pattern, string) as shell text, runs the real shell on the
//! simulated OS and compares the probe arguments.
//!
//! Two renderings of a pattern:
//!  * `var`:    the pattern text is stored in a variable and expanded
//!              unquoted (`${v#$p}`, `case .. in $p)`): characters resulting
//!              from the expansion are unquoted pattern characters and a
//!              backslash quotes the next one (XCU 2.14.1 / patterns.md);
//!  * `direct`: the pattern is written in the script, quoted characters
//!              written as `\c`, `'c'` or `"c"` in turn.
use crate::fm;
use serde_json::{Value, json};
use std::io::{BufRead, Write};
use yvcommon::shell::{ShellCfg, run_shell};
use yvcommon::util;

fn sq(s: &str) -> String {
    format!("'{}'", s.replace('\'', "'\\''"))
}

const SAFE: &str = "abcdefghijklmnopqrstuvwxyzABCDEFGHIJKLMNOPQRSTUVWXYZ0123456789.-*?[]!^:=,/+@%_";

fn render_var(c: &[String], l: &[bool]) -> Option<String> {
    let mut t = String::new();
    for (c, &l) in c.iter().zip(l) {
        if l {
            t.push('\\');
        } else if c == "\\" {
            return None;
        }
        t.push_str(c);
    }
    Some(t)
}

fn render_direct(c: &[String], l: &[bool]) -> Option<String> {
    let mut t = String::new();
    for (i, (c, &l)) in c.iter().zip(l).enumerate() {
        let ch = c.chars().next()?;
        if l {
            match i % 3 {
                _ if ch == '\'' => t.push_str("\\'"),
                0 if ch != '\n' => {
                    t.push('\\');
                    t.push(ch);
                }
                1 if !"$`\\\"".contains(ch) => {
                    t.push('"');
                    t.push(ch);
                    t.push('"');
                }
                _ => {
                    t.push('\'');
                    t.push(ch);
                    t.push('\'');
                }
            }
        } else if SAFE.contains(ch) {
            t.push(ch);
        } else {
            return None;
        }
    }
    // a leading "#" or "%" would change the operator; "esac" is reserved
    if t.starts_with('#') || t.starts_with('%') || t == "esac" || t.is_empty() {
        return None;
    }
    Some(t)
}

/// Runs of quoted characters written as ONE double-quoted segment; inside it
/// `"` `\` `$` and the backquote are written with the backslash that double
/// quotes require (XCU 2.2.3) - the spelling denotes the same literal characters.
fn render_dq(c: &[String], l: &[bool]) -> Option<String> {
    if !c.iter().zip(l).any(|(c, &l)| l && "\"\\$`".contains(c.as_str())) {
        return None;
    }
    let mut t = String::new();
    let mut open = false;
    for (c, &l) in c.iter().zip(l) {
        let ch = c.chars().next()?;
        if l {
            if !open {
                t.push('"');
                open = true;
            }
            if "\"\\$`".contains(ch) {
                t.push('\\');
            }
            t.push(ch);
        } else {
            if open {
                t.push('"');
                open = false;
            }
            if !SAFE.contains(ch) {
                return None;
            }
            t.push(ch);
        }
    }
    if open {
        t.push('"');
    }
    if t.starts_with('#') || t.starts_with('%') || t == "esac" {
        return None;
    }
    Some(t)
}

pub fn run(args: &[String]) -> i32 {
    let inp = util::open_in(args);
    let mut w = util::open_out(args);
    let mut case_rest: Vec<String> = vec![];
    let mut case_alt = String::new();
    let mut open_patterns = 0u64;
    let (mut patterns, mut cases, mut skipped, mut runs, mut mism) = (0u64, 0u64, 0u64, 0u64, 0u64);
    let (mut via_var, mut via_direct, mut via_dq) = (0u64, 0u64, 0u64);
    for line in inp.lines() {
        let line = line.unwrap();
        if line.trim().is_empty() {
            continue;
        }
        let v: Value = serde_json::from_str(&line).expect("json");
        if let Some(cr) = v.get("case_rest") {
            case_rest = cr
                .as_array()
                .unwrap()
                .iter()
                .map(|item| fm::strs(item).join("|"))
                .collect();
            case_alt = v["case_alt"].as_str().unwrap_or("").to_string();
            continue;
        }
        // a pattern whose meaning POSIX leaves open: only `case` is compared
        let open = v["u"].as_str().unwrap_or("") != "";
        if open {
            open_patterns += 1;
        }
        let c = fm::strs(&v["c"]);
        let l = fm::flags(&v["l"]);
        let rows: Vec<Vec<String>> = v["sh"].as_array().map(|a| a.iter().map(fm::strs).collect()).unwrap_or_default();
        if rows.is_empty() {
            skipped += 1;
            continue;
        }
        patterns += 1;
        let mut renderings: Vec<(&str, String, String)> = vec![]; // (route, prelude, pattern text in script)
        if let Some(t) = render_var(&c, &l) {
            renderings.push(("var", format!("p={}\n", sq(&t)), "$p".to_string()));
            via_var += 1;
        }
        if let Some(t) = render_direct(&c, &l) {
            renderings.push(("direct", String::new(), t));
            via_direct += 1;
        }
        if let Some(t) = render_dq(&c, &l) {
            renderings.push(("dq", String::new(), t));
            via_dq += 1;
        }
        for (route, prelude, pt) in renderings {
            let mut script = prelude.clone();
            for (i, row) in rows.iter().enumerate() {
                script.push_str(&format!(
                    "v={}\nprobe t{i} \"${{v#{pt}}}\" \"${{v##{pt}}}\" \"${{v%{pt}}}\" \"${{v%%{pt}}}\"\ncase \"$v\" in\n({pt}|{case_alt}) probe c{i} 1;;\n",
                    sq(&row[0])
                ));
                for (k, item) in case_rest.iter().enumerate() {
                    script.push_str(&format!("({item}) probe c{i} {};;\n", k + 2));
                }
                script.push_str("esac\n");
            }
            runs += 1;
            let r = run_shell(ShellCfg::command(&script));
            let outcome = r.outcome_str();
            let mut got_t: Vec<Option<Vec<String>>> = vec![None; rows.len()];
            let mut got_c: Vec<Option<String>> = vec![None; rows.len()];
            for e in &r.events {
                if e["ev"] != "probe" {
                    continue;
                }
                let a = fm::strs(&e["args"]);
                if a.is_empty() {
                    continue;
                }
                if let Some(i) = a[0].strip_prefix('t').and_then(|x| x.parse::<usize>().ok()) {
                    if i < rows.len() {
                        got_t[i] = Some(a[1..].to_vec());
                    }
                } else if let Some(i) = a[0].strip_prefix('c').and_then(|x| x.parse::<usize>().ok()) {
                    if i < rows.len() {
                        got_c[i] = a.get(1).cloned();
                    }
                }
            }
            for (i, row) in rows.iter().enumerate() {
                cases += 1;
                let want_t = &row[1..5];
                // the item selected must be row[5] or row[6]; "0": none (no probe)
                let got_item = got_c[i].clone().unwrap_or_else(|| "0".to_string());
                let ok_t = if open { got_t[i].is_some() } else { got_t[i].as_deref() == Some(want_t) };
                let ok_c = got_item == row[5] || got_item == row[6];
                if !(ok_t && ok_c) {
                    mism += 1;
                    if mism <= 200 {
                        let kind = if outcome != "completed" {
                            "shell-run"
                        } else if got_t[i].is_none() {
                            "shell-missing"
                        } else if !ok_t {
                            "shell-trim"
                        } else {
                            "shell-case"
                        };
                        writeln!(
                            w,
                            "{}",
                            json!({"kind": kind, "route": route, "c": c, "l": v["l"], "cs": v["cs"], "nt": v["nt"], "s": row[0],
                                   "want": {"trim": want_t, "case": [row[5], row[6]], "open": open},
                                   "got": {"trim": got_t[i], "case": got_c[i], "outcome": outcome,
                                           "stderr": r.stderr_str().chars().take(300).collect::<String>()},
                                   "pattern_text": pt})
                        )
                        .unwrap();
                    }
                }
            }
        }
    }
    writeln!(
        w,
        "{}",
        json!({"stats": {"patterns": patterns, "cases": cases, "skipped_unspecified": skipped, "open_patterns_case_only": open_patterns, "shell_runs": runs,
                          "via_var": via_var, "via_direct": via_direct, "via_dq": via_dq, "mismatches": mism}})
    )
    .unwrap();
    0
}
