//! impl -> spec: seeded random cases beyond the exhaustive bounds, executed on
//! the real code and recorded for validation by spec/Trace_Fnmatch.tla.
//! The generator only chooses inputs; it judges nothing.
use crate::fm::{self, Cfg, Mode};
use rand::rngs::StdRng;
use rand::{Rng, SeedableRng};
use serde_json::Value;
use std::io::{BufRead, Write};
use yvcommon::util;

/// Characters that are special in the regex language, in the pattern
/// language, or in neither; plus non-ASCII ones (1, 2, 3 and 4 bytes in UTF-8,
/// a combining mark) and control characters.
const SPECIALS: &[char] = &[
    '\\', '.', '+', '*', '?', '(', ')', '|', '[', ']', '{', '}', '^', '$', '-', '&', '~', '#', '!', ':', '=',
    ',', '/', '<', '>', '"', '\'', '`', '%', '@', ';', '_',
];
const PLAIN: &[char] = &['a', 'b', 'c', 'z', 'A', 'B', 'Z', '0', '1', '9', 'm', 'M', 'f', 'F', 'x'];
const WIDE: &[char] = &['é', 'ß', 'Ä', 'あ', '漢', '😀', '\u{301}', 'я', '\u{a0}', '\t', '\n', ' '];
const CLASSES: &[&str] = &[
    "alnum", "alpha", "blank", "cntrl", "digit", "graph", "lower", "print", "punct", "space", "upper", "xdigit",
];

fn any_char(r: &mut StdRng) -> char {
    match r.gen_range(0..10) {
        0..=3 => PLAIN[r.gen_range(0..PLAIN.len())],
        4..=7 => SPECIALS[r.gen_range(0..SPECIALS.len())],
        _ => WIDE[r.gen_range(0..WIDE.len())],
    }
}

fn ascii_char(r: &mut StdRng) -> char {
    if r.gen_bool(0.5) { PLAIN[r.gen_range(0..PLAIN.len())] } else { SPECIALS[r.gen_range(0..SPECIALS.len())] }
}

/// One piece of a pattern: its pattern characters (char, quoted) and a
/// sampler of a string piece that is likely (not certainly) matched by it.
struct Piece {
    pc: Vec<(char, bool)>,
    sample: Vec<char>,
}

fn quoted_maybe(r: &mut StdRng, c: char, p: f64) -> (char, bool) {
    (c, r.gen_bool(p))
}

fn bracket(r: &mut StdRng) -> Piece {
    let mut pc: Vec<(char, bool)> = vec![('[', false)];
    let mut members: Vec<char> = vec![];
    let neg = r.gen_range(0..4) == 0;
    if neg {
        pc.push((if r.gen_bool(0.6) { '!' } else { '^' }, false));
    }
    let n = r.gen_range(1..5);
    for i in 0..n {
        match r.gen_range(0..16) {
            0 if i == 0 => {
                pc.push((']', false));
                members.push(']');
            }
            1 if i == 0 || i == n - 1 => {
                pc.push(('-', false));
                members.push('-');
            }
            2 | 3 => {
                // range, usually in ascending order and inside ASCII
                let mut a = ascii_char(r);
                let mut b = ascii_char(r);
                if a > b && r.gen_range(0..10) != 0 {
                    std::mem::swap(&mut a, &mut b);
                }
                if r.gen_range(0..30) == 0 {
                    b = WIDE[r.gen_range(0..WIDE.len())];
                }
                let qa = r.gen_range(0..5) == 0;
                let qb = r.gen_range(0..5) == 0;
                if r.gen_range(0..6) == 0 {
                    pc.extend([('[', false), ('.', false), (a, false), ('.', false), (']', false)]);
                } else {
                    pc.push((a, qa || a == ']' || a == '-' && r.gen_bool(0.5)));
                }
                pc.push(('-', false));
                if r.gen_range(0..6) == 0 {
                    pc.extend([('[', false), ('.', false), (b, false), ('.', false), (']', false)]);
                } else {
                    pc.push((b, qb || b == ']'));
                }
                members.push(a);
                members.push(b);
                if a < b {
                    if let Some(mid) = char::from_u32((a as u32 + b as u32) / 2) {
                        members.push(mid);
                    }
                }
            }
            4 | 5 => {
                let name = if r.gen_range(0..12) == 0 { "foo" } else { CLASSES[r.gen_range(0..CLASSES.len())] };
                pc.extend([('[', false), (':', false)]);
                pc.extend(name.chars().map(|c| (c, false)));
                pc.extend([(':', false), (']', false)]);
                members.extend(['a', 'Z', '5', ' ', '.', '\t', 'f']);
            }
            6 | 7 => {
                // collating symbol / equivalence class
                let d = if r.gen_bool(0.5) { '.' } else { '=' };
                let c = any_char(r);
                pc.extend([('[', false), (d, false)]);
                pc.push((c, r.gen_range(0..8) == 0));
                if r.gen_range(0..10) == 0 {
                    let c2 = any_char(r);
                    pc.push((c2, false));
                }
                pc.extend([(d, false), (']', false)]);
                members.push(c);
            }
            8 => {
                // a quoted special member
                let c = [']', '-', '!', '^', '[', '\\'][r.gen_range(0..6)];
                pc.push((c, true));
                members.push(c);
            }
            _ => {
                let c = any_char(r);
                let q = matches!(c, ']') || r.gen_range(0..6) == 0;
                pc.push((c, q));
                members.push(c);
            }
        }
    }
    if r.gen_range(0..25) != 0 {
        pc.push((']', false));
    }
    let sample = if neg || members.is_empty() || r.gen_range(0..5) == 0 {
        vec![any_char(r)]
    } else {
        vec![members[r.gen_range(0..members.len())]]
    };
    Piece { pc, sample }
}

fn piece(r: &mut StdRng) -> Piece {
    match r.gen_range(0..20) {
        0..=3 => {
            let n = r.gen_range(0..4);
            Piece { pc: vec![('*', false)], sample: (0..n).map(|_| any_char(r)).collect() }
        }
        4..=5 => Piece { pc: vec![('?', false)], sample: vec![any_char(r)] },
        6..=11 => bracket(r),
        12 => {
            // a quoted special character
            let c = ['*', '?', '[', ']', '\\', '.'][r.gen_range(0..6)];
            Piece { pc: vec![(c, true)], sample: vec![c] }
        }
        _ => {
            let c = any_char(r);
            let (c, q) = quoted_maybe(r, c, 0.15);
            let q = q && c != '\n';
            // an unquoted special would be a different piece; keep it anyway
            // (it is then simply part of the character soup)
            Piece { pc: vec![(c, q)], sample: vec![c] }
        }
    }
}

pub struct Case {
    pub mode: Mode,
    pub c: Vec<String>,
    pub l: Vec<bool>,
    pub s: String,
    pub cfg: Cfg,
}

fn gen_case(r: &mut StdRng) -> Case {
    let n = r.gen_range(0..6);
    let pieces: Vec<Piece> = (0..n).map(|_| piece(r)).collect();
    let mut pcs: Vec<(char, bool)> = pieces.iter().flat_map(|p| p.pc.iter().copied()).collect();
    if pcs.len() > 40 {
        pcs.truncate(40);
    }
    // the subject string
    let mut s: Vec<char> = if r.gen_range(0..10) < 7 {
        pieces.iter().flat_map(|p| p.sample.iter().copied()).collect()
    } else {
        let n = r.gen_range(0..7);
        (0..n)
            .map(|_| {
                if !pcs.is_empty() && r.gen_bool(0.5) {
                    pcs[r.gen_range(0..pcs.len())].0
                } else {
                    any_char(r)
                }
            })
            .collect()
    };
    if r.gen_range(0..5) == 0 && !s.is_empty() {
        let i = r.gen_range(0..s.len());
        match r.gen_range(0..3) {
            0 => {
                s.remove(i);
            }
            1 => s[i] = any_char(r),
            _ => s.insert(i, any_char(r)),
        }
    }
    let cfg = {
        let ab = r.gen_bool(0.5);
        let ae = r.gen_bool(0.5);
        Cfg { ab, ae, sh: r.gen_bool(0.5), lp: ab && ae && r.gen_range(0..4) == 0 }
    };
    if !cfg.ab && r.gen_bool(0.7) {
        let n = r.gen_range(0..3);
        for _ in 0..n {
            let c = any_char(r);
            s.insert(0, c);
        }
    }
    if !cfg.ae && r.gen_bool(0.7) {
        let n = r.gen_range(0..3);
        for _ in 0..n {
            s.push(any_char(r));
        }
    }
    if cfg.lp && r.gen_bool(0.5) {
        s.insert(0, '.');
    }
    if s.len() > 9 {
        s.truncate(9);
    }
    // how the pattern reaches the parser
    let has_normal_backslash = pcs.iter().any(|&(c, q)| c == '\\' && !q);
    let has_quoted = pcs.iter().any(|&(_, q)| q);
    let mode = match r.gen_range(0..10) {
        0..=3 if !has_normal_backslash => Mode::Esc,
        4 if !has_quoted => Mode::Raw,
        5 => {
            // raw text with arbitrary backslashes through with_escape
            Mode::Esc
        }
        _ => Mode::Pc,
    };
    let (c, l): (Vec<String>, Vec<bool>) = match mode {
        Mode::Pc => (pcs.iter().map(|p| p.0.to_string()).collect(), pcs.iter().map(|p| p.1).collect()),
        Mode::Raw => (pcs.iter().map(|p| p.0.to_string()).collect(), vec![false; pcs.len()]),
        Mode::Esc => {
            let mut t: Vec<String> = vec![];
            for &(ch, q) in &pcs {
                if q {
                    t.push("\\".into());
                }
                t.push(ch.to_string());
            }
            let n = t.len();
            (t, vec![false; n])
        }
    };
    Case { mode, c, l, s: s.into_iter().collect(), cfg }
}

pub fn execute(case: &Case) -> Value {
    let pc = match util::catch(|| fm::pattern_chars(case.mode, &case.c, &case.l)) {
        Ok(pc) => pc,
        Err(_) => {
            let o = fm::Obs { pn: true, e: false, m: false, f: fm::NONE, r: fm::NONE };
            return fm::record(case.mode, &case.c, &case.l, &case.s, case.cfg, &o);
        }
    };
    let o = fm::observe(&pc, case.cfg, &case.s);
    fm::record(case.mode, &case.c, &case.l, &case.s, case.cfg, &o)
}

pub fn run(args: &[String]) -> i32 {
    let n = util::opt_usize(args, "--n", 1000);
    let mut r = StdRng::seed_from_u64(util::seed().wrapping_mul(0x9e37_79b9_7f4a_7c15) ^ 0xc04);
    let mut w = util::open_out(args);
    for _ in 0..n {
        let case = gen_case(&mut r);
        writeln!(w, "{}", fm::ascii_json(&execute(&case))).unwrap();
    }
    0
}

/// Re-executes recorded cases (only the inputs of each record are used).
pub fn redo(args: &[String]) -> i32 {
    let inp = util::open_in(args);
    let mut w = util::open_out(args);
    for line in inp.lines() {
        let line = line.unwrap();
        if line.trim().is_empty() {
            continue;
        }
        let v: Value = serde_json::from_str(&line).expect("json");
        let case = Case {
            mode: Mode::from_name(v["mode"].as_str().unwrap_or("pc")),
            c: fm::strs(&v["c"]),
            l: fm::flags(&v["l"]),
            s: fm::strs(&v["s"]).concat(),
            cfg: Cfg::from_json(&v),
        };
        writeln!(w, "{}", fm::ascii_json(&execute(&case))).unwrap();
    }
    0
}
