//! spec -> impl: compare the real matcher with the lines printed by TLC.
//!
//! `--lines F`   output of Gen_Fnmatch (header {dom}, then one line per pattern)
//! `--msets F`   the distinct match sets {k, m} given to Gen_FnmatchFind
//! `--tables F`  output of Gen_FnmatchFind (header {cfgs}, then {k, t})
//! `--out F`     one JSON line per (pattern, kind of disagreement) + a final {stats}
//!
//! No expected value is computed here: every expectation is read from TLC's
//! output; this module only executes the real code and compares.
use crate::fm::{self, Cfg, Mode, NONE, Obs};
use serde_json::{Value, json};
use std::collections::{BTreeMap, HashMap, HashSet};
use std::io::{BufRead, Write};
use yvcommon::util;

struct Tables {
    cfgs: Vec<Cfg>,
    /// canonical (sorted) match set -> id
    ids: HashMap<Vec<String>, i64>,
    /// id -> string -> row (4 integers per configuration: find, rfind)
    rows: HashMap<i64, HashMap<String, Vec<i64>>>,
}

#[derive(Default)]
struct Stats {
    patterns: u64,
    unspecified: BTreeMap<String, u64>,
    multi: u64,
    literal_path: u64,
    regex_path: u64,
    compile_errors: u64,
    nonempty: u64,
    match_evals: u64,
    find_evals: u64,
    alt_esc: u64,
    alt_raw: u64,
    mismatching_patterns: u64,
}

impl Stats {
    fn add(&mut self, o: &Stats) {
        self.patterns += o.patterns;
        for (k, v) in &o.unspecified {
            *self.unspecified.entry(k.clone()).or_default() += v;
        }
        self.multi += o.multi;
        self.literal_path += o.literal_path;
        self.regex_path += o.regex_path;
        self.compile_errors += o.compile_errors;
        self.nonempty += o.nonempty;
        self.match_evals += o.match_evals;
        self.find_evals += o.find_evals;
        self.alt_esc += o.alt_esc;
        self.alt_raw += o.alt_raw;
        self.mismatching_patterns += o.mismatching_patterns;
    }
    fn json(&self) -> Value {
        json!({"patterns": self.patterns, "unspecified": self.unspecified, "multi": self.multi,
               "literal_path": self.literal_path, "regex_path": self.regex_path,
               "compile_errors": self.compile_errors, "nonempty_match_set": self.nonempty,
               "match_evals": self.match_evals, "find_evals": self.find_evals,
               "via_with_escape": self.alt_esc, "via_without_escape": self.alt_raw,
               "mismatching_patterns": self.mismatching_patterns})
    }
}

const FULL: Cfg = Cfg { ab: true, ae: true, sh: false, lp: false };
const FULL_LP: Cfg = Cfg { ab: true, ae: true, sh: false, lp: true };

fn cfg_json(c: Cfg) -> Value {
    json!({"ab": c.ab, "ae": c.ae, "sh": c.sh, "lp": c.lp})
}

/// Compare `is_match` under `cfg` on every domain string with membership in `exp`.
fn compare_set(
    pc: &[yash_fnmatch::PatternChar],
    cfg: Cfg,
    dom: &[String],
    exp: &dyn Fn(&str) -> bool,
    st: &mut Stats,
) -> Option<Value> {
    let p = match fm::compile(pc, cfg) {
        Err(msg) => return Some(json!({"panic": msg, "cases": [{"s": "", "cfg": cfg_json(cfg)}]})),
        Ok(p) => p,
    };
    if p.is_err() {
        st.compile_errors += 1;
    }
    let mut cases = Vec::new();
    let mut n = 0u64;
    for s in dom {
        let got = match &p {
            Err(()) => Ok(false),
            Ok(p) => util::catch(|| p.is_match(s)),
        };
        st.match_evals += 1;
        let want = exp(s);
        match got {
            Ok(g) if g == want => {}
            Ok(g) => {
                n += 1;
                if cases.len() < 6 {
                    cases.push(json!({"s": s, "cfg": cfg_json(cfg), "want": want, "got": g}));
                }
            }
            Err(msg) => {
                n += 1;
                if cases.len() < 6 {
                    cases.push(json!({"s": s, "cfg": cfg_json(cfg), "want": want, "panic": msg}));
                }
            }
        }
    }
    if n == 0 {
        None
    } else {
        Some(json!({"compile_error": p.is_err(), "count": n, "cases": cases}))
    }
}

fn process(line: &Value, dom: &[String], tb: &Tables, st: &mut Stats, out: &mut Vec<String>) {
    let c = fm::strs(&line["c"]);
    let l = fm::flags(&line["l"]);
    let u = line["u"].as_str().unwrap_or("");
    let mc = line["mc"].as_bool().unwrap_or(false);
    st.patterns += 1;
    let pc = fm::pattern_chars(Mode::Pc, &c, &l);
    let mut reports: Vec<String> = Vec::new();
    let mut report = |kind: &str, detail: Value, st: &mut Stats| {
        let _ = st;
        reports.push(
            json!({"kind": kind, "c": c, "l": line["l"], "cs": line["cs"], "nt": line["nt"], "mc": mc, "u": u, "detail": detail})
                .to_string(),
        );
    };
    if !u.is_empty() {
        // POSIX leaves the meaning open: nothing is compared, but the code
        // must still not panic.
        *st.unspecified.entry(u.to_string()).or_default() += 1;
        for cfg in [FULL, Cfg { ab: false, ae: false, sh: true, lp: false }] {
            for s in dom.iter().take(12) {
                let o = fm::observe(&pc, cfg, s);
                if o.pn {
                    report("panic", json!({"cases": [{"s": s, "cfg": cfg_json(cfg)}]}), st);
                    out.append(&mut reports);
                    return;
                }
            }
        }
        return;
    }
    if mc {
        st.multi += 1;
    }
    let m: HashSet<String> = fm::strs(&line["m"]).into_iter().collect();
    let x: HashSet<String> = fm::strs(&line["x"]).into_iter().collect();
    if !m.is_empty() {
        st.nonempty += 1;
    }
    // which path of the implementation
    match fm::compile(&pc, FULL) {
        Ok(Ok(p)) => {
            if p.as_literal().is_some() {
                st.literal_path += 1
            } else {
                st.regex_path += 1
            }
        }
        _ => {}
    }
    // 1. whole-string matching (the `case` configuration)
    if let Some(d) = compare_set(&pc, FULL, dom, &|s| m.contains(s), st) {
        report("match", d, st);
    }
    // 1b. the same pattern handed over through with_escape / without_escape
    let has_normal_backslash = c.iter().zip(&l).any(|(c, &l)| c == "\\" && !l);
    if !has_normal_backslash {
        let text: String = c
            .iter()
            .zip(&l)
            .map(|(c, &l)| if l { format!("\\{c}") } else { c.clone() })
            .collect();
        let pc2: Vec<_> = yash_fnmatch::with_escape(&text).collect();
        st.alt_esc += 1;
        if let Some(d) = compare_set(&pc2, FULL, dom, &|s| m.contains(s), st) {
            report("match-with_escape", d, st);
        }
    }
    if !l.iter().any(|&b| b) {
        let text: String = c.concat();
        let pc2: Vec<_> = yash_fnmatch::without_escape(&text).collect();
        st.alt_raw += 1;
        if let Some(d) = compare_set(&pc2, FULL, dom, &|s| m.contains(s), st) {
            report("match-without_escape", d, st);
        }
    }
    // 2. literal_period (whole-string matching only)
    if let Some(d) = compare_set(&pc, FULL_LP, dom, &|s| m.contains(s) && !x.contains(s), st) {
        report("period", d, st);
    }
    // 3. find / rfind / is_match under the eight configurations
    if !mc {
        let mut key: Vec<String> = m.iter().cloned().collect();
        key.sort();
        let Some(id) = tb.ids.get(&key) else {
            report("tool", json!({"error": "match set without table"}), st);
            out.append(&mut reports);
            return;
        };
        let empty = HashMap::new();
        let rows = tb.rows.get(id).unwrap_or(&empty);
        let mut cases = Vec::new();
        let mut n = 0u64;
        for (ci, cfg) in tb.cfgs.iter().enumerate() {
            let p = match fm::compile(&pc, *cfg) {
                Err(msg) => {
                    report("panic", json!({"panic": msg, "cases": [{"s": "", "cfg": cfg_json(*cfg)}]}), st);
                    continue;
                }
                Ok(p) => p,
            };
            for s in dom {
                let (ef, er) = match rows.get(s) {
                    None => (NONE, NONE),
                    Some(r) => ((r[4 * ci], r[4 * ci + 1]), (r[4 * ci + 2], r[4 * ci + 3])),
                };
                let want = Obs { pn: false, e: false, m: ef != NONE, f: ef, r: er };
                let mut got = fm::observe_compiled(&p, s);
                got.e = false; // a parser error counts as "matches nothing"
                st.find_evals += 3;
                if got != want {
                    n += 1;
                    if cases.len() < 6 {
                        cases.push(json!({"s": s, "cfg": cfg_json(*cfg),
                            "want": {"m": want.m, "f": [want.f.0, want.f.1], "r": [want.r.0, want.r.1]},
                            "got": {"pn": got.pn, "m": got.m, "f": [got.f.0, got.f.1], "r": [got.r.0, got.r.1]}}));
                    }
                }
            }
        }
        if n > 0 {
            report("find", json!({"count": n, "cases": cases}), st);
        }
    }
    if !reports.is_empty() {
        st.mismatching_patterns += 1;
        out.append(&mut reports);
    }
}

pub fn run(args: &[String]) -> i32 {
    let lines_path = util::opt(args, "--lines").expect("--lines");
    let msets_path = util::opt(args, "--msets").expect("--msets");
    let tables_path = util::opt(args, "--tables").expect("--tables");
    let threads = util::opt_usize(args, "--threads", 8).max(1);
    let read = |p: &str| -> Vec<String> {
        std::io::BufReader::new(std::fs::File::open(p).unwrap_or_else(|e| panic!("{p}: {e}")))
            .lines()
            .map(|l| l.unwrap())
            .filter(|l| !l.trim().is_empty())
            .collect()
    };
    // tables
    let mut tb = Tables { cfgs: vec![], ids: HashMap::new(), rows: HashMap::new() };
    for l in read(msets_path) {
        let v: Value = serde_json::from_str(&l).expect("msets json");
        let mut key = fm::strs(&v["m"]);
        key.sort();
        tb.ids.insert(key, v["k"].as_i64().unwrap());
    }
    for l in read(tables_path) {
        let v: Value = serde_json::from_str(&l).expect("tables json");
        if let Some(cfgs) = v.get("cfgs") {
            tb.cfgs = cfgs.as_array().unwrap().iter().map(Cfg::from_json).collect();
            continue;
        }
        let k = v["k"].as_i64().unwrap();
        let mut rows = HashMap::new();
        if let Some(o) = v["t"].as_object() {
            for (s, r) in o {
                rows.insert(s.clone(), r.as_array().unwrap().iter().map(|x| x.as_i64().unwrap()).collect());
            }
        }
        tb.rows.insert(k, rows);
    }
    if tb.cfgs.len() != 8 || tb.rows.len() != tb.ids.len() {
        eprintln!("tables incomplete: {} cfgs, {} tables for {} match sets", tb.cfgs.len(), tb.rows.len(), tb.ids.len());
        return 2;
    }
    // pattern lines
    let mut dom: Vec<String> = vec![];
    let mut lines: Vec<String> = vec![];
    for l in read(lines_path) {
        if l.starts_with("{\"dom\"") {
            let v: Value = serde_json::from_str(&l).expect("dom json");
            dom = fm::strs(&v["dom"]);
        } else {
            lines.push(l);
        }
    }
    if dom.is_empty() {
        eprintln!("no string domain in {lines_path}");
        return 2;
    }
    dom.sort();
    let tb = &tb;
    let dom = &dom;
    let lines = &lines;
    let next = std::sync::atomic::AtomicUsize::new(0);
    let next = &next;
    const BATCH: usize = 64;
    let results: Vec<(Stats, Vec<String>)> = std::thread::scope(|sc| {
        let hs: Vec<_> = (0..threads)
            .map(|_| {
                sc.spawn(move || {
                    let mut st = Stats::default();
                    let mut out = Vec::new();
                    loop {
                        let a = next.fetch_add(BATCH, std::sync::atomic::Ordering::Relaxed);
                        if a >= lines.len() {
                            break;
                        }
                        for l in &lines[a..(a + BATCH).min(lines.len())] {
                            let v: Value = serde_json::from_str(l).expect("line json");
                            process(&v, dom, tb, &mut st, &mut out);
                        }
                    }
                    (st, out)
                })
            })
            .collect();
        hs.into_iter().map(|h| h.join().expect("worker")).collect()
    });
    let mut w = util::open_out(args);
    let mut total = Stats::default();
    for (st, out) in &results {
        total.add(st);
        for l in out {
            writeln!(w, "{l}").unwrap();
        }
    }
    writeln!(w, "{}", json!({"stats": total.json(), "domain": dom.len()})).unwrap();
    0
}
