//! Conformance harness for property C12 (job table), see /verif/DESIGN.md.
mod joblist;

fn main() {
    let args: Vec<String> = std::env::args().collect();
    if args.len() < 2 {
        eprintln!("usage: yv-c12 <replay|random|redo> ...");
        std::process::exit(2);
    }
    let rest = &args[2..];
    let code = match args[1].as_str() {
        "replay" => joblist::replay(rest),
        "random" => joblist::random(rest),
        "redo" => joblist::redo(rest),
        other => {
            eprintln!("unknown subcommand {other}");
            2
        }
    };
    std::process::exit(code);
}
