//! C12: JobList.  Replays every (state, operation) pair of the TLC state graph
//! of spec/JobList.tla on a real `yash_env::job::JobList` and records the
//! observed `{pre, op, res, post}` for validation against spec/JobListAbs.tla.
use yvcommon::util;
use rand::{Rng, SeedableRng};
use serde_json::{Value, json};
use std::collections::HashSet;
use std::io::{BufRead, Write};
use std::num::NonZero;
use yash_env::job::{Job, JobList, Pid, ProcessResult, ProcessState};
use yash_env::semantics::ExitStatus;
use yash_env::signal;

fn sig(n: i32) -> signal::Number {
    signal::Number::from_raw_unchecked(NonZero::new(n).unwrap())
}

fn state_of(s: &str) -> ProcessState {
    match s {
        "R" => ProcessState::Running,
        "S" => ProcessState::stopped(sig(19)),
        "E" => ProcessState::exited(ExitStatus(0)),
        "K" => ProcessState::Halted(ProcessResult::Signaled {
            signal: sig(15),
            core_dump: false,
        }),
        _ => panic!("bad state {s}"),
    }
}

fn state_name(s: &ProcessState) -> &'static str {
    match s {
        ProcessState::Running => "R",
        ProcessState::Halted(ProcessResult::Stopped(_)) => "S",
        ProcessState::Halted(ProcessResult::Exited(_)) => "E",
        ProcessState::Halted(ProcessResult::Signaled { .. }) => "K",
    }
}

/// Name given to the job of process `pid` (so that `%name` / `%?name` job IDs
/// have unique, ambiguous and non-matching cases).
pub fn name_of(pid: i32) -> &'static str {
    match pid % 4 {
        1 => "ab x",
        2 => "abc",
        3 => "b ab",
        _ => "cab",
    }
}

/// Job IDs resolved in every observed state (mirrored by `JobIds` in
/// spec/JobListAbs.tla, in the same order).
const JOB_IDS: &[&str] = &[
    "%", "%%", "%+", "%-", "%1", "%2", "%3", "%4", "%5", "%0", "%ab", "%abc", "%b", "%c", "%?ab", "%?c", "%?x",
    "%?zz", "%z", "ab",
];

fn chars(s: &str) -> Vec<String> {
    s.chars().map(|c| c.to_string()).collect()
}

/// Resolves every job ID of `JOB_IDS` with the real parser and `JobId::find`.
fn resolve_ids(l: &JobList) -> Vec<Value> {
    use yash_env::job::id::{FindError, parse};
    JOB_IDS
        .iter()
        .map(|id| {
            let r: i64 = match parse(id) {
                Err(_) => -4,
                Ok(j) => match j.find(l) {
                    Ok(i) => i as i64,
                    Err(FindError::NotFound) => -2,
                    Err(FindError::Ambiguous) => -3,
                },
            };
            json!(r)
        })
        .collect()
}

/// Projection of the public API of a `JobList` (what `%+ %- %n $!`, `jobs`,
/// `wait` and `fg`/`bg` can observe).
pub fn project(l: &JobList, pids: &[i32]) -> Value {
    project_opt(l, pids, true)
}

/// `with_ids`: also resolve the job IDs (done for post-states only; a pre-state is
/// the post-state of an earlier record).
pub fn project_opt(l: &JobList, pids: &[i32], with_ids: bool) -> Value {
    let jobs: Vec<Value> = l
        .iter()
        .map(|(i, j)| {
            json!({"i": i, "pid": j.pid.0, "st": state_name(&j.state), "ch": j.state_changed,
                   "ex": j.expected_state.as_ref().map(state_name).unwrap_or("N"), "own": j.is_owned,
                   "name": chars(&j.name)})
        })
        .collect();
    let by: Vec<Value> = pids
        .iter()
        .map(|&p| json!(l.find_by_pid(Pid(p)).map(|i| i as i64).unwrap_or(-1)))
        .collect();
    json!({
        "len": l.len(),
        "jobs": jobs,
        "cur": l.current_job().map(|i| i as i64).unwrap_or(-1),
        "prev": l.previous_job().map(|i| i as i64).unwrap_or(-1),
        "by": by,
        "last": l.last_async_pid().0,
        "ids": if with_ids { resolve_ids(l) } else { vec![] },
    })
}

/// Applies one operation; returns the result as an integer/string value.
pub fn apply(l: &mut JobList, op: &Value) -> Value {
    let name = op["op"].as_str().unwrap();
    let p = op["p"].as_i64().unwrap_or(0) as i32;
    let i = op["i"].as_i64().unwrap_or(0) as usize;
    let s = op["s"].as_str().unwrap_or("");
    match name {
        "insert" => {
            let mut j = Job::new(Pid(p));
            j.state = state_of(s);
            j.name = name_of(p).to_string();
            json!(l.insert(j))
        }
        "update" => json!(l.update_status(Pid(p), state_of(s)).map(|i| i as i64).unwrap_or(-1)),
        "set_current" => match l.set_current_job(i) {
            Ok(()) => json!("ok"),
            Err(yash_env::job::SetCurrentJobError::NoSuchJob) => json!("nosuch"),
            Err(yash_env::job::SetCurrentJobError::NotSuspended) => json!("notsusp"),
        },
        "remove" => json!(l.remove(i).map(|j| j.pid.0 as i64).unwrap_or(-1)),
        "remove_if" => {
            let set: Vec<usize> = op["set"]
                .as_array()
                .map(|a| a.iter().map(|v| v.as_u64().unwrap() as usize).collect())
                .unwrap_or_default();
            let mut removed = vec![];
            for (i, _) in l.extract_if(|i, _| set.contains(&i)) {
                removed.push(i);
            }
            json!(removed)
        }
        "remove_finished" => {
            let mut removed = vec![];
            for (i, _) in l.extract_if(|_, j| !j.state.is_alive()) {
                removed.push(i);
            }
            json!(removed)
        }
        "report" => {
            if let Some(mut j) = l.get_mut(i) {
                j.state_reported();
                json!("ok")
            } else {
                json!("nosuch")
            }
        }
        "expect" => {
            if let Some(mut j) = l.get_mut(i) {
                if s == "N" {
                    j.expect(None);
                } else {
                    j.expect(state_of(s));
                }
                json!("ok")
            } else {
                json!("nosuch")
            }
        }
        "disown_all" => {
            l.disown_all();
            json!("ok")
        }
        "set_last_async" => {
            l.set_last_async_pid(Pid(p));
            json!("ok")
        }
        _ => panic!("unknown op {name}"),
    }
}

fn mkop(name: &str, p: i32, s: &str, i: usize, set: Vec<usize>) -> Value {
    json!({"op": name, "p": p, "s": s, "i": i, "set": set})
}

/// The operation alphabet of spec/JobList.tla for `n` slots and `pids`.
fn alphabet(n: usize, pids: &[i32], flags: bool) -> Vec<Value> {
    let mut v = vec![];
    for &p in pids {
        for s in ["R", "S"] {
            v.push(mkop("insert", p, s, 0, vec![]));
        }
        for s in ["R", "S", "E", "K"] {
            v.push(mkop("update", p, s, 0, vec![]));
        }
        if flags {
            v.push(mkop("set_last_async", p, "", 0, vec![]));
        }
    }
    for i in 0..n {
        v.push(mkop("set_current", 0, "", i, vec![]));
        v.push(mkop("remove", 0, "", i, vec![]));
        if flags {
            v.push(mkop("report", 0, "", i, vec![]));
            for s in ["R", "S", "N"] {
                v.push(mkop("expect", 0, s, i, vec![]));
            }
        }
    }
    for mask in 1..(1usize << n) {
        let set: Vec<usize> = (0..n).filter(|i| mask & (1 << i) != 0).collect();
        v.push(mkop("remove_if", 0, "", 0, set));
    }
    v.push(mkop("remove_finished", 0, "", 0, vec![]));
    if flags {
        v.push(mkop("disown_all", 0, "", 0, vec![]));
    }
    v
}

/// Quantifier of the property: a job is inserted with a fresh pid or the pid
/// of a finished job (a live pid cannot be handed out again by an OS).
fn insert_allowed(l: &JobList, op: &Value) -> bool {
    if op["op"] != "insert" {
        return true;
    }
    let p = op["p"].as_i64().unwrap() as i32;
    match l.find_by_pid(Pid(p)) {
        None => true,
        Some(i) => !l[i].state.is_alive(),
    }
}

fn step_record(l: &JobList, op: &Value, pids: &[i32]) -> (Value, Option<JobList>) {
    let pre = project_opt(l, pids, false);
    let mut l2 = l.clone();
    match util::catch(|| {
        let r = apply(&mut l2, op);
        (r, l2)
    }) {
        Ok((res, l2)) => {
            let post = project(&l2, pids);
            (json!({"ev": "step", "pre": pre, "op": op, "res": res, "post": post, "pn": false}), Some(l2))
        }
        Err(msg) => (
            json!({"ev": "step", "pre": pre, "op": op, "res": "panic", "post": pre, "pn": true, "panic": msg}),
            None,
        ),
    }
}

/// `joblist-replay --n N --pids K [--flags] < states.ndjson > trace.ndjson`
pub fn replay(args: &[String]) -> i32 {
    util::quiet_panics();
    let n = util::opt_usize(args, "--n", 3);
    let k = util::opt_usize(args, "--pids", 3);
    let flags = args.iter().any(|a| a == "--flags");
    let pids: Vec<i32> = (1..=k as i32).collect();
    let ops = alphabet(n, &pids, flags);
    let mut out = util::open_out(args);
    let mut seen: HashSet<String> = HashSet::new();
    let (mut states, mut steps, mut written) = (0u64, 0u64, 0u64);
    for line in util::open_in(args).lines() {
        let line = line.unwrap();
        if line.trim().is_empty() {
            continue;
        }
        let v: Value = serde_json::from_str(&line).expect("json");
        let mut l = JobList::new();
        let mut broken = false;
        for op in v["h"].as_array().unwrap() {
            // a panic while rebuilding the state is recorded as a step of its own
            let (rec, next) = step_record(&l, op, &pids);
            match next {
                Some(l2) => l = l2,
                None => {
                    let key = format!("{}|{}", rec["pre"], rec["op"]);
                    if seen.insert(key) {
                        writeln!(out, "{rec}").unwrap();
                        written += 1;
                    }
                    broken = true;
                    break;
                }
            }
        }
        if broken {
            continue;
        }
        states += 1;
        for op in &ops {
            if !insert_allowed(&l, op) {
                continue;
            }
            steps += 1;
            let (rec, _) = step_record(&l, op, &pids);
            let key = format!("{}|{}", rec["pre"], rec["op"]);
            if seen.insert(key) {
                writeln!(out, "{rec}").unwrap();
                written += 1;
            }
        }
    }
    out.flush().unwrap();
    eprintln!("{}", json!({"states": states, "steps": steps, "records": written}));
    0
}

/// `joblist-random --n N --pids K --steps S --runs R > trace.ndjson`
/// Long random histories, beyond the exhaustive bounds.
pub fn random(args: &[String]) -> i32 {
    util::quiet_panics();
    let n = util::opt_usize(args, "--n", 8);
    let k = util::opt_usize(args, "--pids", 12);
    let steps = util::opt_usize(args, "--steps", 1000);
    let runs = util::opt_usize(args, "--runs", 10);
    let pids: Vec<i32> = (1..=k as i32).collect();
    let ops = alphabet(n.min(6), &pids, true);
    let mut rng = rand::rngs::StdRng::seed_from_u64(util::seed());
    let mut out = util::open_out(args);
    let mut written = 0u64;
    for _ in 0..runs {
        let mut l = JobList::new();
        for _ in 0..steps {
            let mut op = ops[rng.gen_range(0..ops.len())].clone();
            // let indices range over the whole table, not only the first 6
            if matches!(op["op"].as_str().unwrap(), "set_current" | "remove" | "report" | "expect") {
                op["i"] = json!(rng.gen_range(0..n));
            }
            if op["op"] == "insert" && (l.len() >= n || !insert_allowed(&l, &op)) {
                continue;
            }
            let (rec, next) = step_record(&l, &op, &pids);
            writeln!(out, "{rec}").unwrap();
            written += 1;
            match next {
                Some(l2) => l = l2,
                None => break,
            }
        }
    }
    out.flush().unwrap();
    eprintln!("{}", json!({"records": written}));
    0
}

/// `joblist-redo`: re-executes recorded steps (pre-state rebuilt through the
/// public API) on the current tree; used by `./check C12 --replay`.
pub fn redo(args: &[String]) -> i32 {
    util::quiet_panics();
    let mut out = util::open_out(args);
    for line in util::open_in(args).lines() {
        let line = line.unwrap();
        if line.trim().is_empty() {
            continue;
        }
        let v: Value = serde_json::from_str(&line).expect("json");
        let pre = &v["pre"];
        let pids: Vec<i32> = (1..=pre["by"].as_array().unwrap().len() as i32).collect();
        // Rebuild an equivalent list: occupy indices in order, then remove fillers.
        let mut l = JobList::new();
        let jobs = pre["jobs"].as_array().unwrap();
        let max = jobs.iter().map(|j| j["i"].as_u64().unwrap()).max();
        let mut fillers = vec![];
        if let Some(max) = max {
            for i in 0..=max {
                match jobs.iter().find(|j| j["i"].as_u64().unwrap() == i) {
                    Some(j) => {
                        let pid = j["pid"].as_i64().unwrap() as i32;
                        let mut job = Job::new(Pid(pid));
                        job.state = state_of(j["st"].as_str().unwrap());
                        job.name = name_of(pid).to_string();
                        l.insert(job);
                    }
                    None => fillers.push(l.insert(Job::new(Pid(1000 + i as i32)))),
                }
            }
        }
        for f in fillers {
            l.remove(f);
        }
        let cur = pre["cur"].as_i64().unwrap();
        let prev = pre["prev"].as_i64().unwrap();
        if prev >= 0 {
            let _ = l.set_current_job(prev as usize);
        }
        if cur >= 0 {
            let _ = l.set_current_job(cur as usize);
        }
        let (rec, _) = step_record(&l, &v["op"], &pids);
        writeln!(out, "{rec}").unwrap();
    }
    out.flush().unwrap();
    0
}
