//! Word and command ASTs of spec/ArrayVars.tla (as JSON values), their
//! rendering to shell text, and seeded random generators.
//!
//! Words (identical to the TLA+ records of Expand.tla):
//!   {"t":"lit","c":"a"}  {"t":"bs","c":" "}  {"t":"sq","s":"a b"}  {"t":"dq","u":[..]}
//!   {"t":"par","p":"a","m":"none"}  {"t":"par","p":"a","m":"len"}
//!   {"t":"par","p":"a","m":"sw","colon":true,"act":"-","w":[..]}
//!   {"t":"par","p":"a","m":"trim","side":"#","long":false,"w":[..]}
//! Commands: {"c":"probe","ws":[w..]} {"c":"for","ws"} {"c":"set","ws"} {"c":"arr","n","ws"}
//!   {"c":"sca","n","w"} {"c":"case","w"} {"c":"here","w"} {"c":"redir","w"} {"c":"unset","n"}
//!   {"c":"ro","n"} {"c":"export","n"} {"c":"read","n","line"} {"c":"print","how","n"}
//!   {"c":"env"} {"c":"tmpenv","n","ws"} {"c":"nounset","on"}
use rand::Rng;
use rand::rngs::StdRng;
use serde_json::{Value, json};

/// The enumeration direction writes the abstract character `e` of the model
/// as a two-byte character (so that "number of characters" and "number of
/// bytes" differ).
#[derive(Clone, Copy)]
pub struct Render {
    pub multibyte_e: bool,
    /// prefer `$a` over `${a}` where both mean the same
    pub raw_params: bool,
}

impl Render {
    pub fn ch(&self, c: &str) -> String {
        if self.multibyte_e && c == "e" { "\u{e9}".to_string() } else { c.to_string() }
    }
    pub fn text(&self, s: &str) -> String {
        if self.multibyte_e { s.replace('e', "\u{e9}") } else { s.to_string() }
    }
    pub fn untext(&self, s: &str) -> String {
        if self.multibyte_e { s.replace('\u{e9}', "e") } else { s.to_string() }
    }

    /// A value as a single-quoted shell string.
    pub fn quote_value(&self, v: &str) -> String {
        format!("'{}'", self.text(v).replace('\'', "'\\''"))
    }

    pub fn word(&self, units: &[Value]) -> String {
        let mut out = String::new();
        for (i, u) in units.iter().enumerate() {
            self.unit(u, units.get(i + 1), &mut out);
        }
        out
    }

    pub fn words(&self, ws: &Value) -> String {
        ws.as_array().unwrap().iter().map(|w| self.word_or_empty(w.as_array().unwrap())).collect::<Vec<_>>().join(" ")
    }

    /// A word in a word list: the word without units cannot be written (it is
    /// only meaningful as the value of an assignment or as `word` of a modifier).
    fn word_or_empty(&self, units: &[Value]) -> String {
        if units.is_empty() { "''".to_string() } else { self.word(units) }
    }

    fn starts_with_name_char(&self, next: Option<&Value>) -> bool {
        match next {
            None => false,
            Some(n) => match n["t"].as_str().unwrap() {
                "lit" => {
                    let c = n["c"].as_str().unwrap().chars().next().unwrap();
                    c.is_alphanumeric() || c == '_'
                }
                _ => false,
            },
        }
    }

    fn unit(&self, u: &Value, next: Option<&Value>, out: &mut String) {
        match u["t"].as_str().unwrap() {
            "lit" => out.push_str(&self.ch(u["c"].as_str().unwrap())),
            "bs" => {
                out.push('\\');
                out.push_str(&self.ch(u["c"].as_str().unwrap()));
            }
            "sq" => {
                out.push('\'');
                out.push_str(&self.text(u["s"].as_str().unwrap()));
                out.push('\'');
            }
            "dq" => {
                out.push('"');
                out.push_str(&self.word(u["u"].as_array().unwrap()));
                out.push('"');
            }
            "par" => {
                let p = u["p"].as_str().unwrap();
                match u["m"].as_str().unwrap() {
                    "none" => {
                        let special = matches!(p, "@" | "*" | "#" | "?");
                        let raw_ok = if special { true } else { !self.starts_with_name_char(next) };
                        if self.raw_params && raw_ok {
                            out.push('$');
                            out.push_str(p);
                        } else {
                            out.push_str(&format!("${{{p}}}"));
                        }
                    }
                    "len" => out.push_str(&format!("${{#{p}}}")),
                    "sw" => {
                        out.push_str("${");
                        out.push_str(p);
                        if u["colon"].as_bool().unwrap() {
                            out.push(':');
                        }
                        out.push_str(u["act"].as_str().unwrap());
                        out.push_str(&self.word(u["w"].as_array().unwrap()));
                        out.push('}');
                    }
                    "trim" => {
                        out.push_str("${");
                        out.push_str(p);
                        let side = u["side"].as_str().unwrap();
                        out.push_str(side);
                        if u["long"].as_bool().unwrap() {
                            out.push_str(side);
                        }
                        out.push_str(&self.word(u["w"].as_array().unwrap()));
                        out.push('}');
                    }
                    m => panic!("bad modifier {m}"),
                }
            }
            t => panic!("bad unit type {t}"),
        }
    }

    /// Shell text of command `cmd`; `id` makes scratch names unique;
    /// `case_pat` is the text the `case` subject is matched against (None:
    /// the subject is first assigned to `r` by the shell itself, see run.rs).
    pub fn command(&self, cmd: &Value, id: usize, case_pat: Option<&str>) -> String {
        let n = || cmd["n"].as_str().unwrap().to_string();
        match cmd["c"].as_str().unwrap() {
            "probe" => format!("probe {}", self.words(&cmd["ws"])),
            "for" => format!("for i in {}; do probe \"$i\"; done", self.words(&cmd["ws"])),
            "set" => format!("set -- {}", self.words(&cmd["ws"])),
            "arr" => format!("{}=({})", n(), self.words(&cmd["ws"])),
            "sca" => format!("{}={}", n(), self.word(cmd["w"].as_array().unwrap())),
            "case" => {
                let w = self.word_or_empty(cmd["w"].as_array().unwrap());
                match case_pat {
                    Some(p) => format!("case {w} in ({}) probe yes;; (*) probe no;; esac", self.quote_value(p)),
                    None => format!("r={w}; case {w} in (\"$r\") probe yes;; (*) probe no;; esac"),
                }
            }
            "here" => format!("cat >/tmp/h.{id} <<E_O_F\n{}\nE_O_F\nhd /tmp/h.{id}", self.word(cmd["w"].as_array().unwrap())),
            "redir" => format!(": >{}; lsd", self.word_or_empty(cmd["w"].as_array().unwrap())),
            "unset" => format!("unset {}", n()),
            "ro" => format!("readonly {}", n()),
            "export" => format!("export {}", n()),
            "read" => format!("read {} <<'E_O_F'\n{}\nE_O_F\n", n(), self.text(cmd["line"].as_str().unwrap())),
            "print" => format!("{} -p {} >/tmp/p.{id}", cmd["how"].as_str().unwrap(), n()),
            "env" => format!("envx {id} 2>/dev/null || :"),
            "tmpenv" => format!("{}=({}) envx {id} 2>/dev/null || :", n(), self.words(&cmd["ws"])),
            "nounset" => (if cmd["on"].as_bool().unwrap() { "set -u" } else { "set +u" }).to_string(),
            c => panic!("bad command {c}"),
        }
    }
}

// ---------------------------------------------------------------------------
// random generation (impl -> spec direction)
// ---------------------------------------------------------------------------

const VALUE_CHARS: &[&str] = &["x", "y", "z", " ", " ", ":", "*", "?", "'", "\"", "\\", "\t", "e", "-"];

pub fn random_value(rng: &mut StdRng, max: usize) -> String {
    let n = rng.gen_range(0..=max);
    (0..n).map(|_| VALUE_CHARS[rng.gen_range(0..VALUE_CHARS.len())]).collect()
}

fn lit(s: &str) -> Vec<Value> {
    s.chars().map(|c| json!({"t": "lit", "c": c.to_string()})).collect()
}
fn par(p: &str) -> Value {
    json!({"t": "par", "p": p, "m": "none"})
}

const PARAMS: &[&str] = &["a", "a", "a", "b", "b", "c", "@", "*", "1", "#", "IFS"];

fn random_param(rng: &mut StdRng) -> &'static str {
    PARAMS[rng.gen_range(0..PARAMS.len())]
}

/// A word of up to `budget` units; `dq`: lexically inside double quotes;
/// `pat`: the word is a trim pattern; `noassign`: no `=` switches.
pub fn random_word(rng: &mut StdRng, budget: &mut i32, dq: bool, depth: u32, noassign: bool) -> Vec<Value> {
    let mut out = vec![];
    let n = rng.gen_range(if depth == 0 { 1 } else { 0 }..=3);
    for _ in 0..n {
        if *budget <= 0 {
            break;
        }
        *budget -= 1;
        let k = rng.gen_range(0..20);
        match k {
            0..=2 => {
                let pool = ["x", "y", ":", "-", "e", "v"];
                out.push(json!({"t": "lit", "c": pool[rng.gen_range(0..pool.len())]}));
            }
            3 => {
                let pool = if dq { vec!["$", "\\", "\"", "x"] } else { vec![" ", "*", "x", "\\", "'", ":"] };
                out.push(json!({"t": "bs", "c": pool[rng.gen_range(0..pool.len())]}));
            }
            4 if !dq => {
                let pool = ["", " x", "*", "y z", ":"];
                out.push(json!({"t": "sq", "s": pool[rng.gen_range(0..pool.len())]}));
            }
            5 | 6 if !dq && depth < 2 => {
                let inner = random_word(rng, budget, true, depth + 1, noassign);
                out.push(json!({"t": "dq", "u": inner}));
            }
            7..=11 => out.push(par(random_param(rng))),
            12 | 13 => out.push(json!({"t": "par", "p": random_param(rng), "m": "len"})),
            14..=16 if depth < 2 => {
                let acts = if noassign { vec!["-", "+", "?"] } else { vec!["-", "+", "=", "?", "-", "+", "="] };
                let act = acts[rng.gen_range(0..acts.len())];
                let w = if rng.gen_range(0..5) == 0 { vec![] } else { random_word(rng, budget, dq, depth + 1, noassign) };
                out.push(json!({"t": "par", "p": random_param(rng), "m": "sw", "colon": rng.gen_bool(0.5), "act": act, "w": w}));
            }
            17 | 18 if depth < 2 => {
                let w = match rng.gen_range(0..8) {
                    0 => vec![],
                    1 => lit("x"),
                    2 => lit("*"),
                    3 => lit("?"),
                    4 => lit("x*"),
                    5 => lit("*x"),
                    6 => vec![par("b")],
                    _ => random_word(rng, budget, false, depth + 1, true),
                };
                let side = if rng.gen_bool(0.5) { "#" } else { "%" };
                out.push(json!({"t": "par", "p": random_param(rng), "m": "trim", "side": side, "long": rng.gen_bool(0.5), "w": w}));
            }
            _ => out.push(par(random_param(rng))),
        }
    }
    out
}

fn random_words(rng: &mut StdRng, max: usize, noassign: bool) -> Vec<Value> {
    let n = rng.gen_range(0..=max);
    (0..n)
        .map(|_| {
            let mut budget = rng.gen_range(1..=6);
            let mut w = random_word(rng, &mut budget, false, 0, noassign);
            if w.is_empty() {
                w = vec![json!({"t": "sq", "s": ""})];
            }
            json!(w)
        })
        .collect()
}

fn here_word(rng: &mut StdRng) -> Vec<Value> {
    let n = rng.gen_range(1..=4);
    (0..n)
        .map(|_| match rng.gen_range(0..5) {
            0 => {
                let c = ["x", ":", " ", "-", "*"][rng.gen_range(0..5)];
                json!({"t": "lit", "c": c})
            }
            1 => json!({"t": "par", "p": random_param(rng), "m": "len"}),
            _ => par(random_param(rng)),
        })
        .collect()
}

pub fn random_command(rng: &mut StdRng) -> Value {
    let name = |rng: &mut StdRng| ["a", "a", "b", "c"][rng.gen_range(0..4)];
    match rng.gen_range(0..40) {
        0..=6 => json!({"c": "arr", "n": name(rng), "ws": random_words(rng, 3, false)}),
        7..=10 => {
            let mut budget = rng.gen_range(1..=6);
            json!({"c": "sca", "n": name(rng), "w": random_word(rng, &mut budget, false, 1, false)})
        }
        11..=15 => json!({"c": "probe", "ws": random_words(rng, 3, false)}),
        16 | 17 => json!({"c": "for", "ws": random_words(rng, 2, false)}),
        18..=20 => json!({"c": "set", "ws": random_words(rng, 3, false)}),
        21 | 22 => {
            let mut budget = rng.gen_range(1..=5);
            let mut w = random_word(rng, &mut budget, false, 0, true);
            if w.is_empty() {
                w = vec![par("a")];
            }
            json!({"c": "case", "w": w})
        }
        23 | 24 => json!({"c": "here", "w": here_word(rng)}),
        25 => {
            let p = par(["a", "b", "@"][rng.gen_range(0..3)]);
            json!({"c": "redir", "w": [{"t": "lit", "c": "x"}, p]})
        }
        26 | 27 => json!({"c": "unset", "n": name(rng)}),
        28 => json!({"c": "ro", "n": name(rng)}),
        29 | 30 => json!({"c": "export", "n": name(rng)}),
        31 | 32 => {
            let pool = ["r", "s", " ", " ", ":", "t"];
            let n = rng.gen_range(0..=5);
            let line: String = (0..n).map(|_| pool[rng.gen_range(0..pool.len())]).collect();
            json!({"c": "read", "n": name(rng), "line": line})
        }
        33..=35 => {
            let how = ["typeset", "typeset", "export", "readonly"][rng.gen_range(0..4)];
            json!({"c": "print", "how": how, "n": name(rng)})
        }
        36 => json!({"c": "env"}),
        37 => json!({"c": "tmpenv", "n": name(rng), "ws": random_words(rng, 2, false)}),
        38 => {
            let v = ["", ":", " ", " :", "x", ": "][rng.gen_range(0..6)];
            if rng.gen_range(0..4) == 0 { json!({"c": "unset", "n": "IFS"}) } else { json!({"c": "sca", "n": "IFS", "w": [{"t": "sq", "s": v}]}) }
        }
        _ => json!({"c": "nounset", "on": rng.gen_bool(0.5)}),
    }
}

pub fn random_var(rng: &mut StdRng) -> Value {
    let (k, s, e): (&str, String, Vec<String>) = match rng.gen_range(0..10) {
        0 | 1 => ("u", String::new(), vec![]),
        2 => ("s", String::new(), vec![]),
        3 | 4 => ("s", random_value(rng, 6), vec![]),
        5 => ("a", String::new(), vec![]),
        6 => ("a", String::new(), vec![String::new()]),
        _ => {
            let n = rng.gen_range(1..=4);
            ("a", String::new(), (0..n).map(|_| if rng.gen_range(0..5) == 0 { String::new() } else { random_value(rng, 5) }).collect())
        }
    };
    json!({"k": k, "s": s, "e": e, "ro": false, "ex": k != "u" && rng.gen_range(0..5) == 0})
}

pub fn random_state(rng: &mut StdRng) -> Value {
    let npos = [0, 0, 1, 1, 2, 3][rng.gen_range(0..6)];
    let pos: Vec<String> = (0..npos).map(|_| if rng.gen_range(0..5) == 0 { String::new() } else { random_value(rng, 5) }).collect();
    let ifs = match rng.gen_range(0..8) {
        0 => json!({"k": "u", "s": "", "e": [], "ro": false, "ex": false}),
        1 => json!({"k": "s", "s": "", "e": [], "ro": false, "ex": false}),
        2 | 3 => json!({"k": "s", "s": " \t\n", "e": [], "ro": false, "ex": false}),
        4 => json!({"k": "s", "s": ":", "e": [], "ro": false, "ex": false}),
        5 => json!({"k": "s", "s": " :", "e": [], "ro": false, "ex": false}),
        _ => {
            let pool = ["x", " ", ":", "\t", "-", "*", "y", "\\", "?"];
            let n = rng.gen_range(1..=3);
            let v: String = (0..n).map(|_| pool[rng.gen_range(0..pool.len())]).collect();
            json!({"k": "s", "s": v, "e": [], "ro": false, "ex": false})
        }
    };
    json!({"a": random_var(rng), "b": random_var(rng), "c": random_var(rng), "IFS": ifs, "pos": pos,
           "nounset": rng.gen_range(0..6) == 0})
}
