//! Running commands of spec/ArrayVars.tla in the real shell on the simulated
//! OS and collecting observations of the shape the specification judges:
//!   {"k": "ok" | "fail" | "exit" | <abnormal>, "f": [...], "j": "...", "st": {state}, "x": [...]}
use crate::ast::Render;
use serde_json::{Value, json};
use std::cell::RefCell;
use std::collections::BTreeMap;
use std::pin::Pin;
use std::rc::Rc;
use yash_env::builtin::{Builtin, Result as BResult, Type};
use yash_env::semantics::{ExitStatus, Field};
use yash_env::system::r#virtual::{FileBody, Inode, SystemState};
use yvcommon::sched::Outcome;
use yvcommon::shell::{self, FileSpec, ShellCfg, VEnv, push_event, run_shell};

thread_local! {
    static SYS: RefCell<Option<Rc<RefCell<SystemState>>>> = const { RefCell::new(None) };
    static ERR_POS: RefCell<usize> = const { RefCell::new(0) };
}

pub const NAMES: [&str; 4] = ["a", "b", "c", "IFS"];
const SCRATCH: &str = "/tmp/w";

fn var_json(env: &VEnv, name: &str) -> Value {
    match env.variables.get(name) {
        None => json!({"k": "u", "s": "", "e": [], "ro": false, "ex": false}),
        Some(var) => {
            let (k, s, e): (&str, String, Vec<String>) = match &var.value {
                None => ("u", String::new(), vec![]),
                Some(yash_env::variable::Value::Scalar(s)) => ("s", s.clone(), vec![]),
                Some(yash_env::variable::Value::Array(a)) => ("a", String::new(), a.clone()),
            };
            json!({"k": k, "s": s, "e": e, "ro": var.is_read_only(), "ex": var.is_exported})
        }
    }
}

fn state_json(env: &VEnv) -> Value {
    let mut m = serde_json::Map::new();
    for n in NAMES {
        m.insert(n.to_string(), var_json(env, n));
    }
    m.insert("pos".into(), json!(env.variables.positional_params().values.clone()));
    let nounset = env.options.get(yash_env::option::Option::Unset) == yash_env::option::State::Off;
    m.insert("nounset".into(), json!(nounset));
    Value::Object(m)
}

/// `vs ID`: records `$?` and the state (a, b, c, IFS with attributes, the
/// positional parameters, nounset); leaves `$?` unchanged.
fn vs_main(env: &mut VEnv, args: Vec<Field>) -> Pin<Box<dyn Future<Output = BResult> + '_>> {
    Box::pin(async move {
        let id = args.first().map(|f| f.value.clone()).unwrap_or_default();
        push_event(json!({"ev": "vs", "id": id, "st": env.exit_status.0, "state": state_json(env),
                          "r": var_json(env, "r")}));
        BResult::new(env.exit_status)
    })
}

/// `mk ID`: end of case ID: records `$?` and what was written to standard
/// error since the previous mark; status 0.
fn mk_main(env: &mut VEnv, args: Vec<Field>) -> Pin<Box<dyn Future<Output = BResult> + '_>> {
    Box::pin(async move {
        let id = args.first().map(|f| f.value.clone()).unwrap_or_default();
        let err = SYS.with(|s| s.borrow().as_ref().and_then(|st| shell::file_content(st, "/dev/stderr"))).unwrap_or_default();
        let from = ERR_POS.with(|p| std::mem::replace(&mut *p.borrow_mut(), err.len()));
        let new = String::from_utf8_lossy(&err[from.min(err.len())..]).into_owned();
        push_event(json!({"ev": "mk", "id": id, "st": env.exit_status.0, "err": new}));
        BResult::new(ExitStatus(0))
    })
}

/// `hd FILE`: records the content of FILE (what a here-document delivered).
fn hd_main(env: &mut VEnv, args: Vec<Field>) -> Pin<Box<dyn Future<Output = BResult> + '_>> {
    Box::pin(async move {
        let path = args.first().map(|f| f.value.clone()).unwrap_or_default();
        let content = SYS.with(|s| s.borrow().as_ref().and_then(|st| shell::file_content(st, &path)));
        let text = content.map(|c| String::from_utf8_lossy(&c).into_owned());
        push_event(json!({"ev": "hd", "ok": text.is_some(), "text": text.unwrap_or_default()}));
        BResult::new(env.exit_status)
    })
}

/// `lsd`: records the names in the scratch directory and empties it.
fn lsd_main(env: &mut VEnv, _args: Vec<Field>) -> Pin<Box<dyn Future<Output = BResult> + '_>> {
    Box::pin(async move {
        let mut names: Vec<String> = vec![];
        SYS.with(|s| {
            if let Some(st) = s.borrow().as_ref() {
                let st = st.borrow();
                if let Ok(inode) = st.file_system.get(SCRATCH) {
                    if let FileBody::Directory { files } = &mut inode.borrow_mut().body {
                        names = files.keys().map(|k| String::from_utf8_lossy(k.as_bytes()).into_owned()).collect();
                        files.clear();
                    }
                }
            }
        });
        names.sort();
        push_event(json!({"ev": "lsd", "names": names}));
        BResult::new(env.exit_status)
    })
}

fn cfg_for(script: &str) -> ShellCfg {
    let mut cfg = ShellCfg::command(script);
    cfg.step_limit = 20_000_000;
    cfg.cwd = Some(SCRATCH.to_string());
    cfg.files.push(FileSpec::Dir { path: SCRATCH.to_string() });
    cfg.setup = Some(Box::new(|env: &mut VEnv, st: &Rc<RefCell<SystemState>>| {
        SYS.with(|s| *s.borrow_mut() = Some(Rc::clone(st)));
        ERR_POS.with(|p| *p.borrow_mut() = 0);
        env.builtins.insert("vs", Builtin::new(Type::Mandatory, vs_main));
        env.builtins.insert("mk", Builtin::new(Type::Mandatory, mk_main));
        env.builtins.insert("hd", Builtin::new(Type::Mandatory, hd_main));
        env.builtins.insert("lsd", Builtin::new(Type::Mandatory, lsd_main));
        // the external utility `envx`: a native executable found through PATH
        let mut inode = Inode::new(Vec::<u8>::new());
        inode.permissions = yash_env::system::Mode::from_bits_truncate(0o755);
        if let FileBody::Regular { is_native_executable, .. } = &mut inode.body {
            *is_native_executable = true;
        }
        st.borrow_mut().file_system.save("/bin/envx", Rc::new(RefCell::new(inode))).unwrap();
    }));
    cfg
}

/// Shell text that establishes state `st`.
pub fn state_setup(r: &Render, st: &Value) -> String {
    let mut s = String::from("set -f\n");
    for name in NAMES {
        let v = &st[name];
        match v["k"].as_str().unwrap() {
            "u" => s.push_str(&format!("unset {name}\n")),
            "s" => s.push_str(&format!("{name}={}\n", r.quote_value(v["s"].as_str().unwrap()))),
            _ => {
                let items: Vec<String> = v["e"].as_array().unwrap().iter().map(|x| r.quote_value(x.as_str().unwrap())).collect();
                s.push_str(&format!("{name}=({})\n", items.join(" ")));
            }
        }
        if v["ex"].as_bool().unwrap() {
            s.push_str(&format!("export {name}\n"));
        }
    }
    for name in NAMES {
        if st[name]["ro"].as_bool().unwrap() {
            s.push_str(&format!("readonly {name}\n"));
        }
    }
    s.push_str("set --");
    for p in st["pos"].as_array().unwrap() {
        s.push(' ');
        s.push_str(&r.quote_value(p.as_str().unwrap()));
    }
    s.push('\n');
    if st["nounset"].as_bool().unwrap() {
        s.push_str("set -u\n");
    }
    s
}

fn untext_state(r: &Render, st: &Value) -> Value {
    let mut m = st.as_object().unwrap().clone();
    for n in NAMES {
        let v = &st[n];
        let e: Vec<Value> = v["e"].as_array().unwrap().iter().map(|x| json!(r.untext(x.as_str().unwrap()))).collect();
        m.insert(n.to_string(), json!({"k": v["k"], "s": r.untext(v["s"].as_str().unwrap()), "e": e, "ro": v["ro"], "ex": v["ex"]}));
    }
    let pos: Vec<Value> = st["pos"].as_array().unwrap().iter().map(|x| json!(r.untext(x.as_str().unwrap()))).collect();
    m.insert("pos".into(), json!(pos));
    Value::Object(m)
}

/// One command to run: the command, and (for `case`) the text to match against.
pub struct Item<'a> {
    pub cmd: &'a Value,
    pub case_pat: Option<String>,
}

/// What one `run_fans` job is: state, witness path, items each run in a
/// subshell of its own after the path.
pub struct Job<'a> {
    pub st0: &'a Value,
    pub path: Vec<&'a Value>,
    pub items: Vec<Item<'a>>,
}

pub struct JobObs {
    /// state after the path (None: the path did not complete)
    pub path_state: Option<Value>,
    pub obs: Vec<Value>,
    pub stderr: Vec<String>,
}

fn empty_state() -> Value {
    let u = json!({"k": "u", "s": "", "e": [], "ro": false, "ex": false});
    json!({"a": u, "b": u, "c": u, "IFS": u, "pos": [], "nounset": false})
}

fn abnormal(kind: &str) -> Value {
    json!({"k": kind, "f": [], "j": "", "st": empty_state(), "x": []})
}

/// Parses the text `typeset -p` etc. printed (with the shell's own parser)
/// into the shape the specification uses: "asg" for the simple command
/// `NAME=(...)`, otherwise the invocation with its options (`typeset -r -x`),
/// the operand being NAME or the assignment word NAME=value.
fn print_shape(text: &str, name: &str) -> Vec<String> {
    use yash_syntax::syntax::{Command, List};
    let list: List = match text.parse() {
        Ok(l) => l,
        Err(_) => return vec!["?unparsable".to_string()],
    };
    let mut shape = vec![];
    for item in &list.0 {
        let ao = &item.and_or;
        if item.async_flag.is_some() || !ao.rest.is_empty() || ao.first.commands.len() != 1 || ao.first.negation {
            shape.push(format!("?{item}"));
            continue;
        }
        let Command::Simple(sc) = &*ao.first.commands[0] else {
            shape.push(format!("?{item}"));
            continue;
        };
        if !sc.redirs.is_empty() {
            shape.push(format!("?{item}"));
            continue;
        }
        if sc.words.is_empty() {
            let is_arr = sc.assigns.len() == 1
                && sc.assigns[0].name == name
                && matches!(sc.assigns[0].value, yash_syntax::syntax::Value::Array(_));
            shape.push(if is_arr { "asg".to_string() } else { format!("?{item}") });
            continue;
        }
        if !sc.assigns.is_empty() {
            shape.push(format!("?{item}"));
            continue;
        }
        let words: Vec<String> = sc.words.iter().map(|(w, _)| w.to_string()).collect();
        let head = words[0].clone();
        let mut opts: Vec<char> = vec![];
        let mut operands: Vec<&String> = vec![];
        let mut no_more_opts = false;
        for w in &words[1..] {
            if !no_more_opts && w == "--" {
                no_more_opts = true;
            } else if !no_more_opts && w.starts_with('-') && w.len() > 1 {
                opts.extend(w.chars().skip(1));
            } else {
                operands.push(w);
            }
        }
        let names_var = operands.len() == 1 && (operands[0] == name || operands[0].starts_with(&format!("{name}=")));
        if !matches!(head.as_str(), "typeset" | "export" | "readonly") || !names_var {
            shape.push(format!("?{item}"));
            continue;
        }
        opts.sort();
        opts.dedup();
        let mut t = head;
        for o in opts {
            t.push_str(&format!(" -{o}"));
        }
        shape.push(t);
    }
    shape
}

/// Runs the jobs one after another in ONE shell (each job in a subshell of
/// its own, each item in a subshell of the job's subshell).
pub fn run_jobs(r: &Render, jobs: &[Job]) -> Result<Vec<JobObs>, String> {
    let mut script = String::new();
    let mut id = 0usize;
    let mut ids: Vec<(usize, Vec<usize>)> = vec![]; // per job: path id, item ids
    for job in jobs {
        script.push_str("(\n");
        script.push_str(&state_setup(r, job.st0));
        for c in &job.path {
            script.push_str(&r.command(c, id, None));
            script.push('\n');
            id += 1;
        }
        let pid = id;
        id += 1;
        script.push_str(&format!("vs {pid}\n"));
        let mut item_ids = vec![];
        for it in &job.items {
            script.push_str(&format!("(\n{}\nvs {id}\n)\nmk {id}\n", r.command(it.cmd, id, it.case_pat.as_deref())));
            item_ids.push(id);
            id += 1;
        }
        script.push_str(&format!(")\nmk {pid}\n"));
        ids.push((pid, item_ids));
    }
    let res = run_shell(cfg_for(&script));
    if !matches!(res.outcome, Outcome::Completed) {
        return Err(format!("batch did not complete: {}", res.outcome_str()));
    }
    // collect events per id
    #[derive(Default)]
    struct Acc {
        probes: Vec<Vec<String>>,
        hd: Option<Value>,
        lsd: Option<Vec<String>>,
        vs: Option<Value>,
        mk: Option<Value>,
    }
    let mut accs: BTreeMap<usize, Acc> = BTreeMap::new();
    let mut cur = Acc::default();
    for e in &res.events {
        match e["ev"].as_str().unwrap_or("") {
            "probe" => cur.probes.push(e["args"].as_array().unwrap().iter().map(|a| a.as_str().unwrap().to_string()).collect()),
            "hd" => cur.hd = Some(e.clone()),
            "lsd" => cur.lsd = Some(e["names"].as_array().unwrap().iter().map(|a| a.as_str().unwrap().to_string()).collect()),
            "vs" => {
                let id: usize = e["id"].as_str().unwrap().parse().map_err(|_| "bad vs id".to_string())?;
                // the vs of a job's path: everything so far belongs to the path
                let a = accs.entry(id).or_default();
                a.vs = Some(e.clone());
                a.probes = std::mem::take(&mut cur.probes);
                a.hd = cur.hd.take();
                a.lsd = cur.lsd.take();
            }
            "mk" => {
                let id: usize = e["id"].as_str().unwrap().parse().map_err(|_| "bad mk id".to_string())?;
                let a = accs.entry(id).or_default();
                a.mk = Some(e.clone());
                if a.vs.is_none() {
                    a.probes = std::mem::take(&mut cur.probes);
                    a.hd = cur.hd.take();
                    a.lsd = cur.lsd.take();
                } else {
                    cur = Acc::default();
                }
            }
            _ => {}
        }
    }
    // environment shown to envx, by id
    let mut envs: BTreeMap<usize, Vec<String>> = BTreeMap::new();
    {
        let st = res.state.borrow();
        for (_pid, p) in st.processes.iter() {
            if let Some((path, args, vars)) = p.last_exec() {
                if path.to_string_lossy() == "/bin/envx" {
                    if let Some(id) = args.get(1).and_then(|a| a.to_string_lossy().parse::<usize>().ok()) {
                        let mut v: Vec<String> = vars
                            .iter()
                            .map(|c| c.to_string_lossy().into_owned())
                            .filter(|s| s.starts_with("a=") || s.starts_with("b=") || s.starts_with("c="))
                            .map(|s| r.untext(&s))
                            .collect();
                        v.sort();
                        envs.insert(id, v);
                    }
                }
            }
        }
    }
    let mut out = vec![];
    let mut reread: Vec<(usize, usize, String, String)> = vec![]; // (job, item, name, text)
    for (j, job) in jobs.iter().enumerate() {
        let (pid, item_ids) = &ids[j];
        let pacc = accs.get(pid);
        if pacc.and_then(|a| a.mk.as_ref()).is_none() {
            return Err(format!("job {j}: no mark for the job\nscript:\n{}", script.chars().take(3000).collect::<String>()));
        }
        let path_state = pacc.and_then(|a| a.vs.as_ref()).map(|v| untext_state(r, &v["state"]));
        let mut obs = vec![];
        let mut errs = vec![];
        for (k, it) in job.items.iter().enumerate() {
            let id = item_ids[k];
            let Some(acc) = accs.get(&id) else {
                // the job's shell exited before this item (path error): nothing observed
                obs.push(abnormal("notrun"));
                errs.push(String::new());
                continue;
            };
            let Some(mk) = &acc.mk else {
                obs.push(abnormal("notrun"));
                errs.push(String::new());
                continue;
            };
            errs.push(r.untext(mk["err"].as_str().unwrap_or("")));
            let c = it.cmd["c"].as_str().unwrap();
            let o = match &acc.vs {
                None => {
                    let st = mk["st"].as_i64().unwrap_or(0);
                    json!({"k": if st != 0 { "exit" } else { "odd-exit0" }, "f": [], "j": "", "st": empty_state(), "x": []})
                }
                Some(vs) => {
                    let status = vs["st"].as_i64().unwrap_or(-1);
                    let mut f: Vec<String> = vec![];
                    let mut jtxt = String::new();
                    let mut x: Vec<Value> = vec![];
                    match c {
                        "probe" => {
                            if acc.probes.len() == 1 {
                                f = acc.probes[0].iter().map(|s| r.untext(s)).collect();
                            } else {
                                f = vec![format!("?{} probe events", acc.probes.len())];
                            }
                        }
                        "for" => {
                            for p in &acc.probes {
                                if p.len() == 1 {
                                    f.push(r.untext(&p[0]));
                                } else {
                                    f.push(format!("?{} args", p.len()));
                                }
                            }
                        }
                        "case" => {
                            let yes = acc.probes.len() == 1 && acc.probes[0] == ["yes"];
                            jtxt = if yes {
                                match &it.case_pat {
                                    Some(p) => p.clone(),
                                    None => r.untext(vs["r"]["s"].as_str().unwrap_or("")),
                                }
                            } else {
                                "?nomatch".to_string()
                            };
                        }
                        "here" => {
                            jtxt = match &acc.hd {
                                Some(h) if h["ok"].as_bool().unwrap() => {
                                    let t = h["text"].as_str().unwrap();
                                    match t.strip_suffix('\n') {
                                        Some(t) => r.untext(t),
                                        None => format!("?no final newline: {t}"),
                                    }
                                }
                                _ => "?no here-document".to_string(),
                            };
                        }
                        "redir" => {
                            jtxt = match &acc.lsd {
                                Some(n) if n.len() == 1 => r.untext(&n[0]),
                                Some(n) => format!("?files {n:?}"),
                                None => "?no listing".to_string(),
                            };
                        }
                        "print" => {
                            let text = shell::file_content(&res.state, &format!("/tmp/p.{id}"));
                            let text = String::from_utf8_lossy(&text.unwrap_or_default()).into_owned();
                            let name = it.cmd["n"].as_str().unwrap();
                            f = print_shape(&text, name);
                            reread.push((j, k, name.to_string(), text));
                        }
                        "env" | "tmpenv" => {
                            x = match envs.get(&id) {
                                Some(v) => v.iter().map(|s| json!(s)).collect(),
                                None => vec![json!("?utility not executed")],
                            };
                        }
                        _ => {}
                    }
                    json!({"k": if status == 0 { "ok" } else { "fail" }, "f": f, "j": jtxt,
                           "st": untext_state(r, &vs["state"]), "x": x})
                }
            };
            obs.push(o);
        }
        out.push(JobObs { path_state, obs, stderr: errs });
    }
    // re-evaluate what the print commands wrote, each in a fresh shell environment
    if !reread.is_empty() {
        let mut script = String::from("set -f\nunset IFS\n");
        for (n, (_j, _k, _name, text)) in reread.iter().enumerate() {
            script.push_str(&format!("(\neval '{}'\nvs {n}\n)\nmk {n}\n", text.replace('\'', "'\\''")));
        }
        let res2 = run_shell(cfg_for(&script));
        let mut seen: BTreeMap<usize, Value> = BTreeMap::new();
        for e in &res2.events {
            if e["ev"] == "vs" {
                if let Ok(n) = e["id"].as_str().unwrap().parse::<usize>() {
                    seen.insert(n, e.clone());
                }
            }
        }
        for (n, (j, k, name, _text)) in reread.iter().enumerate() {
            let x = match seen.get(&n) {
                Some(vs) => untext_state(r, &vs["state"])[name.as_str()].clone(),
                None => json!({"k": "?not re-read", "s": "", "e": [], "ro": false, "ex": false}),
            };
            out[*j].obs[*k]["x"] = json!([x]);
        }
    }
    Ok(out)
}

/// Runs a script of commands one after another in the main shell
/// (impl -> spec direction): per command the state before it and the
/// observation.  Stops at the command at which the shell exits.
pub fn run_sequence(r: &Render, st0: &Value, cmds: &[Value]) -> Result<Vec<(Value, Value)>, String> {
    run_sequence_with(r, st0, "", cmds)
}

/// The same with `pre` (e.g. `set -o portable`) on a line of its own between
/// the set-up and the commands.
pub fn run_sequence_with(r: &Render, st0: &Value, pre: &str, cmds: &[Value]) -> Result<Vec<(Value, Value)>, String> {
    let mut script = state_setup(r, st0);
    script.push_str("vs start\n");
    if !pre.is_empty() {
        script.push_str(pre);
        script.push('\n');
    }
    for (i, c) in cmds.iter().enumerate() {
        script.push_str(&format!("{}\nvs {i}\nmk {i}\n", r.command(c, i, None)));
    }
    let res = run_shell(cfg_for(&script));
    let abnormal_kind = match &res.outcome {
        Outcome::Completed => None,
        Outcome::Panic(m) => Some(format!("panic: {m}")),
        Outcome::Deadlock => Some("deadlock".to_string()),
        Outcome::StepLimit => Some("steplimit".to_string()),
    };
    let mut probes: Vec<Vec<String>> = vec![];
    let mut hd: Option<Value> = None;
    let mut lsd: Option<Vec<String>> = None;
    let mut prev: Option<Value> = None;
    let mut out: Vec<(Value, Value)> = vec![];
    let mut envs: BTreeMap<usize, Vec<String>> = BTreeMap::new();
    {
        let st = res.state.borrow();
        for (_pid, p) in st.processes.iter() {
            if let Some((path, args, vars)) = p.last_exec() {
                if path.to_string_lossy() == "/bin/envx" {
                    if let Some(id) = args.get(1).and_then(|a| a.to_string_lossy().parse::<usize>().ok()) {
                        let mut v: Vec<String> = vars
                            .iter()
                            .map(|c| c.to_string_lossy().into_owned())
                            .filter(|s| s.starts_with("a=") || s.starts_with("b=") || s.starts_with("c="))
                            .collect();
                        v.sort();
                        envs.insert(id, v);
                    }
                }
            }
        }
    }
    let mut reread: Vec<(usize, String, String)> = vec![];
    for e in &res.events {
        match e["ev"].as_str().unwrap_or("") {
            "probe" => probes.push(e["args"].as_array().unwrap().iter().map(|a| a.as_str().unwrap().to_string()).collect()),
            "hd" => hd = Some(e.clone()),
            "lsd" => lsd = Some(e["names"].as_array().unwrap().iter().map(|a| a.as_str().unwrap().to_string()).collect()),
            "vs" => {
                let id = e["id"].as_str().unwrap();
                if id == "start" {
                    prev = Some(e["state"].clone());
                    probes.clear();
                    continue;
                }
                let i: usize = id.parse().map_err(|_| "bad vs id".to_string())?;
                if i != out.len() {
                    return Err(format!("vs out of order: {i} vs {}", out.len()));
                }
                let cmd = &cmds[i];
                let c = cmd["c"].as_str().unwrap();
                let status = e["st"].as_i64().unwrap_or(-1);
                let mut f: Vec<String> = vec![];
                let mut jtxt = String::new();
                let mut x: Vec<Value> = vec![];
                match c {
                    "probe" => {
                        f = if probes.len() == 1 { probes[0].clone() } else { vec![format!("?{} probe events", probes.len())] };
                    }
                    "for" => {
                        for p in &probes {
                            f.push(if p.len() == 1 { p[0].clone() } else { format!("?{} args", p.len()) });
                        }
                    }
                    "case" => {
                        let yes = probes.len() == 1 && probes[0] == ["yes"];
                        jtxt = if yes { e["r"]["s"].as_str().unwrap_or("").to_string() } else { "?nomatch".to_string() };
                    }
                    "here" => {
                        jtxt = match &hd {
                            Some(h) if h["ok"].as_bool().unwrap() => {
                                let t = h["text"].as_str().unwrap();
                                t.strip_suffix('\n').map(|t| t.to_string()).unwrap_or_else(|| format!("?no final newline: {t}"))
                            }
                            _ => "?no here-document".to_string(),
                        };
                    }
                    "redir" => {
                        jtxt = match &lsd {
                            Some(n) if n.len() == 1 => n[0].clone(),
                            Some(n) => format!("?files {n:?}"),
                            None => "?no listing".to_string(),
                        };
                    }
                    "print" => {
                        let text = shell::file_content(&res.state, &format!("/tmp/p.{i}"));
                        let text = String::from_utf8_lossy(&text.unwrap_or_default()).into_owned();
                        let name = cmd["n"].as_str().unwrap();
                        f = print_shape(&text, name);
                        reread.push((i, name.to_string(), text));
                    }
                    "env" | "tmpenv" => {
                        x = match envs.get(&i) {
                            Some(v) => v.iter().map(|s| json!(s)).collect(),
                            None => vec![json!("?utility not executed")],
                        };
                    }
                    _ => {}
                }
                let obs = json!({"k": if status == 0 { "ok" } else { "fail" }, "f": f, "j": jtxt, "st": e["state"], "x": x});
                out.push((prev.clone().unwrap_or_else(empty_state), obs));
                prev = Some(e["state"].clone());
                probes.clear();
                hd = None;
                lsd = None;
            }
            _ => {}
        }
    }
    // the command at which the shell stopped
    if out.len() < cmds.len() {
        let kind = match &abnormal_kind {
            Some(k) => k.clone(),
            None => if res.status != 0 { "exit".to_string() } else { "odd-exit0".to_string() },
        };
        let mut o = abnormal(&kind);
        o["j"] = json!("");
        out.push((prev.clone().unwrap_or_else(empty_state), o));
    }
    if !reread.is_empty() {
        let mut script = String::from("set -f\nunset IFS\n");
        for (n, (_i, _name, text)) in reread.iter().enumerate() {
            script.push_str(&format!("(\neval '{}'\nvs {n}\n)\nmk {n}\n", text.replace('\'', "'\\''")));
        }
        let res2 = run_shell(cfg_for(&script));
        let mut seen: BTreeMap<usize, Value> = BTreeMap::new();
        for e in &res2.events {
            if e["ev"] == "vs" {
                if let Ok(n) = e["id"].as_str().unwrap().parse::<usize>() {
                    seen.insert(n, e.clone());
                }
            }
        }
        for (n, (i, name, _text)) in reread.iter().enumerate() {
            let x = match seen.get(&n) {
                Some(vs) => vs["state"][name.as_str()].clone(),
                None => json!({"k": "?not re-read", "s": "", "e": [], "ro": false, "ex": false}),
            };
            out[*i].1["x"] = json!([x]);
        }
    }
    Ok(out)
}
