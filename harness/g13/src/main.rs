//! Conformance harness for specification-growth module g13 (see /verif/DESIGN.md 12.6).
fn main() {
    eprintln!("yv-g13: not implemented yet");
    std::process::exit(2);
}
