//! Conformance harness for specification-growth module G13 (array variables
//! and multi-valued parameters), see spec/ArrayVars.tla.
//!
//! spec -> impl:  `replay` takes the lines TLC printed from spec/Gen_ArrayVars.tla
//!                (family "w": state, word, allowed outcomes; family "s": state,
//!                witness path, fan of commands with allowed results), runs them on
//!                the real shell and reports every disagreement;
//! impl -> spec:  `random` records what the real shell does on seeded random
//!                command sequences; spec/Trace_ArrayVars.tla judges every step;
//! `one`          re-executes one recorded case (replay of a violation).
mod ast;
mod run;

use ast::Render;
use rand::SeedableRng;
use rand::rngs::StdRng;
use run::{Item, Job};
use serde_json::{Value, json};
use std::collections::BTreeMap;
use std::io::{BufRead, Write};
use std::sync::Mutex;
use std::sync::atomic::{AtomicUsize, Ordering};
use yvcommon::util;

/// Mirror of AgreesR of ArrayVars.tla (plus: the message of ${n?word} must be shown).
fn agrees(cmd: &Value, obs: &Value, exp: &Value, stderr: &str) -> bool {
    let c = cmd["c"].as_str().unwrap();
    match exp["k"].as_str().unwrap() {
        "ok" => {
            obs["k"] == "ok"
                && obs["st"] == exp["st"]
                && (!matches!(c, "probe" | "for" | "print") || obs["f"] == exp["f"])
                && (!matches!(c, "case" | "here" | "redir") || obs["j"] == exp["j"])
                && (!matches!(c, "env" | "tmpenv" | "print") || obs["x"] == exp["x"])
        }
        "fail" => obs["k"] == "fail" && obs["st"] == exp["st"],
        "skip" => true,
        kind => {
            (obs["k"] == "exit" || (matches!(c, "here" | "redir") && obs["k"] == "fail" && obs["st"] == exp["st"]))
                && (kind != "vacant" || exp["j"].as_str().unwrap_or("").is_empty() || stderr.contains(exp["j"].as_str().unwrap()))
        }
    }
}

fn threads(args: &[String]) -> usize {
    util::opt_usize(args, "--threads", 8)
}

fn word_cmd(c: &str, w: &Value) -> Value {
    match c {
        "probe" | "for" | "set" => json!({"c": c, "ws": [w]}),
        "arr" => json!({"c": "arr", "n": "c", "ws": [w]}),
        "sca" => json!({"c": "sca", "n": "c", "w": w}),
        _ => json!({"c": c, "w": w}),
    }
}

/// What the outcome `o` of a word (family "w") means for the command that
/// uses the word in context `c` (ContextsAgree of Gen_ArrayVars.tla checks
/// this derivation against Step).
fn derive(c: &str, o: &Value) -> Value {
    let k = o["k"].as_str().unwrap();
    if k != "ok" {
        return json!({"k": k, "f": [], "j": o["j"], "st": o["st"], "x": []});
    }
    let mut st = o["st"].clone();
    match c {
        "set" => st["pos"] = o["f"].clone(),
        "arr" => st["c"] = json!({"k": "a", "s": "", "e": o["f"], "ro": st["c"]["ro"], "ex": st["c"]["ex"]}),
        "sca" => st["c"] = json!({"k": "s", "s": o["j"], "e": [], "ro": st["c"]["ro"], "ex": st["c"]["ex"]}),
        _ => {}
    }
    json!({"k": "ok", "f": o["f"], "j": o["j"], "st": st, "x": []})
}

fn safe_name(j: &str) -> bool {
    !j.is_empty() && j != "." && j != ".." && j.chars().all(|c| "xyzvwpq: -*?".contains(c))
}

fn first_ok_j(outs: &[Value]) -> Option<String> {
    outs.iter().find(|o| o["k"] == "ok").map(|o| o["j"].as_str().unwrap().to_string())
}

#[derive(Default)]
struct Summary {
    lines: usize,
    cases: usize,
    skipped: usize,
    ambiguous: usize,
    errors_expected: usize,
    mismatches: usize,
    runs: usize,
    tags: BTreeMap<String, usize>,
    samples: Vec<Value>,
}

struct Prepared {
    line: Value,
    /// commands of the items (owned), expectations per item
    cmds: Vec<Value>,
    exps: Vec<Vec<Value>>,
}

fn prepare(line: Value, every_ctx: bool, salt: usize) -> Prepared {
    let mut cmds = vec![];
    let mut exps = vec![];
    if line["fam"] == "w" {
        let outs = line["out"].as_array().unwrap();
        let w = &line["w"];
        let mut ctxs: Vec<&str> = vec!["probe", "for", "set", "arr", "sca", "case"];
        if line["here"].as_bool().unwrap() {
            ctxs.push("here");
        }
        if outs.iter().all(|o| o["k"] != "ok" || safe_name(o["j"].as_str().unwrap())) {
            ctxs.push("redir");
        }
        // one j per case command: skip the context if the allowed outcomes differ in j
        let js: Vec<&str> = outs.iter().filter(|o| o["k"] == "ok").map(|o| o["j"].as_str().unwrap()).collect();
        if js.windows(2).any(|p| p[0] != p[1]) {
            ctxs.retain(|c| *c != "case");
        }
        for (i, c) in ctxs.iter().enumerate() {
            // `probe` and `arr` always; the others all (every_ctx) or two per line in rotation
            if !every_ctx && i >= 1 && *c != "arr" && (i + salt) % 3 != 0 {
                continue;
            }
            cmds.push(word_cmd(c, w));
            exps.push(outs.iter().map(|o| derive(c, o)).collect());
        }
    } else {
        for e in line["fan"].as_array().unwrap() {
            cmds.push(e["cmd"].clone());
            exps.push(e["out"].as_array().unwrap().clone());
        }
    }
    Prepared { line, cmds, exps }
}

fn state_str(st: &Value) -> String {
    let var = |v: &Value| -> String {
        let mut s = match v["k"].as_str().unwrap() {
            "u" => "unset".to_string(),
            "s" => format!("{:?}", v["s"].as_str().unwrap()),
            _ => format!("({})", v["e"].as_array().unwrap().iter().map(|e| format!("{:?}", e.as_str().unwrap())).collect::<Vec<_>>().join(" ")),
        };
        if v["ro"].as_bool().unwrap() {
            s.push_str(" ro");
        }
        if v["ex"].as_bool().unwrap() {
            s.push_str(" exported");
        }
        s
    };
    format!(
        "a={} b={} c={} IFS={} pos={}{}",
        var(&st["a"]),
        var(&st["b"]),
        var(&st["c"]),
        var(&st["IFS"]),
        st["pos"],
        if st["nounset"].as_bool().unwrap() { " nounset" } else { "" }
    )
}

/// spec -> impl
fn replay(args: &[String]) -> i32 {
    let input = util::open_in(args);
    let chunk = util::opt_usize(args, "--chunk", 24);
    let every_ctx = args.iter().any(|a| a == "--all-contexts");
    let mut lines: Vec<String> = vec![];
    for line in input.lines() {
        let line = line.expect("read");
        if !line.trim().is_empty() {
            lines.push(line);
        }
    }
    // family s lines are big (a fan each): one per run; family w lines: `chunk` per run;
    // family p lines: one shell per line, run at top level with `portable` on
    let mut jobs: Vec<Vec<usize>> = vec![];
    let mut cur: Vec<usize> = vec![];
    for (i, l) in lines.iter().enumerate() {
        if l.contains("\"fam\":\"s\"") || l.contains("\"fam\":\"p\"") {
            jobs.push(vec![i]);
        } else {
            cur.push(i);
            if cur.len() >= chunk {
                jobs.push(std::mem::take(&mut cur));
            }
        }
    }
    if !cur.is_empty() {
        jobs.push(cur);
    }
    let next = AtomicUsize::new(0);
    let out: Mutex<Vec<String>> = Mutex::new(vec![]);
    let sum = Mutex::new(Summary::default());
    let failed: Mutex<Option<String>> = Mutex::new(None);
    std::thread::scope(|s| {
        for _ in 0..threads(args) {
            s.spawn(|| {
                loop {
                    let j = next.fetch_add(1, Ordering::SeqCst);
                    if j >= jobs.len() || failed.lock().unwrap().is_some() {
                        break;
                    }
                    let render = Render { multibyte_e: true, raw_params: j % 2 == 0 };
                    let prepared: Vec<Prepared> = jobs[j]
                        .iter()
                        .map(|&i| prepare(serde_json::from_str(&lines[i]).expect("json"), every_ctx, i))
                        .collect();
                    let mut local = Summary::default();
                    if prepared.len() == 1 && prepared[0].line["fam"] == "p" {
                        let line = &prepared[0].line;
                        let render = Render { multibyte_e: false, raw_params: j % 2 == 0 };
                        let cmd = &line["cmd"];
                        let exps = line["out"].as_array().unwrap();
                        let steps = match run::run_sequence_with(&render, &line["st0"], "set -o portable", std::slice::from_ref(cmd)) {
                            Ok(s) => s,
                            Err(e) => {
                                *failed.lock().unwrap() = Some(e);
                                return;
                            }
                        };
                        let obs = &steps[0].1;
                        let kind = exps[0]["k"].as_str().unwrap();
                        let c = cmd["c"].as_str().unwrap();
                        let mut s = sum.lock().unwrap();
                        s.lines += 1;
                        s.runs += 1;
                        if exps.iter().all(|e| e["k"] == "skip") {
                            s.skipped += 1;
                            continue;
                        }
                        s.cases += 1;
                        *s.tags.entry(format!("portable/{c}/{kind}")).or_insert(0) += 1;
                        let good = if kind == "syntax" { obs["k"] == "exit" } else { exps.iter().any(|e| agrees(cmd, obs, e, "")) };
                        if !good {
                            s.mismatches += 1;
                            drop(s);
                            out.lock().unwrap().push(
                                json!({"fam": "p", "what": "case", "st0": line["st0"], "path": [], "cmd": cmd, "exp": exps, "obs": obs,
                                       "text": format!("set -o portable; {}", render.command(cmd, 0, None)),
                                       "state": state_str(&line["st0"]), "stderr": ""})
                                .to_string(),
                            );
                        }
                        continue;
                    }
                    let mut todo: Vec<&Prepared> = vec![];
                    for p in &prepared {
                        local.lines += 1;
                        todo.push(p);
                    }
                    // text each `case` subject is matched against: the j of the first allowed ok outcome
                    let pats: Vec<Vec<String>> = todo
                        .iter()
                        .map(|p| p.exps.iter().map(|e| first_ok_j(e).unwrap_or_else(|| "x".to_string())).collect())
                        .collect();
                    let jobs_rs: Vec<Job> = todo
                        .iter()
                        .zip(pats.iter())
                        .map(|(p, pt)| Job {
                            st0: if p.line["fam"] == "w" { &p.line["st"] } else { &p.line["st0"] },
                            path: if p.line["fam"] == "w" { vec![] } else { p.line["path"].as_array().unwrap().iter().collect() },
                            items: p
                                .cmds
                                .iter()
                                .zip(pt.iter())
                                .map(|(c, pat)| Item { cmd: c, case_pat: if c["c"] == "case" { Some(pat.clone()) } else { None } })
                                .collect(),
                        })
                        .collect();
                    let res = match run::run_jobs(&render, &jobs_rs) {
                        Ok(r) => r,
                        Err(e) => {
                            *failed.lock().unwrap() = Some(e);
                            return;
                        }
                    };
                    local.runs += 1;
                    let mut mism = vec![];
                    for (p, jo) in todo.iter().zip(res.iter()) {
                        let fam = p.line["fam"].as_str().unwrap();
                        if fam == "s" {
                            // the witness must lead to the state the model is in
                            if jo.path_state.as_ref() != Some(&p.line["st"]) {
                                mism.push(json!({"fam": fam, "what": "witness", "st0": p.line["st0"], "path": p.line["path"],
                                                 "exp": [{"k": "ok", "st": p.line["st"]}],
                                                 "obs": {"st": jo.path_state},
                                                 "text": p.line["path"].as_array().unwrap().iter().enumerate().map(|(i, c)| render.command(c, i, None)).collect::<Vec<_>>().join("; "),
                                                 "state": state_str(&p.line["st0"])}));
                                continue;
                            }
                        }
                        for (k, cmd) in p.cmds.iter().enumerate() {
                            let exps = &p.exps[k];
                            let obs = &jo.obs[k];
                            let c = cmd["c"].as_str().unwrap();
                            if exps.iter().all(|e| e["k"] == "skip") {
                                local.skipped += 1;
                                *local.tags.entry(format!("skip/{c}")).or_insert(0) += 1;
                                continue;
                            }
                            local.cases += 1;
                            if exps.len() > 1 {
                                local.ambiguous += 1;
                            }
                            let kind = exps[0]["k"].as_str().unwrap();
                            if !matches!(kind, "ok" | "fail") {
                                local.errors_expected += 1;
                            }
                            *local.tags.entry(format!("{c}/{kind}")).or_insert(0) += 1;
                            let good = exps.iter().any(|e| agrees(cmd, obs, e, &jo.stderr[k]));
                            let text = render.command(cmd, 0, first_ok_j(exps).as_deref());
                            let st_before = if fam == "w" { &p.line["st"] } else { &p.line["st"] };
                            if !good {
                                mism.push(json!({"fam": fam, "what": "case", "st0": if fam == "w" { &p.line["st"] } else { &p.line["st0"] },
                                                 "path": if fam == "w" { json!([]) } else { p.line["path"].clone() },
                                                 "cmd": cmd, "exp": exps, "obs": obs, "text": text, "state": state_str(st_before),
                                                 "stderr": jo.stderr[k].chars().take(300).collect::<String>()}));
                            } else if local.samples.len() < 2 && (local.cases % 211 == 7) {
                                local.samples.push(json!({"state": state_str(st_before), "command": text, "observed": {"k": obs["k"], "f": obs["f"], "j": obs["j"]}}));
                            }
                        }
                    }
                    local.mismatches = mism.len();
                    {
                        let mut s = sum.lock().unwrap();
                        s.lines += local.lines;
                        s.cases += local.cases;
                        s.skipped += local.skipped;
                        s.ambiguous += local.ambiguous;
                        s.errors_expected += local.errors_expected;
                        s.mismatches += local.mismatches;
                        s.runs += local.runs;
                        for (k, v) in local.tags {
                            *s.tags.entry(k).or_insert(0) += v;
                        }
                        if s.samples.len() < 8 {
                            s.samples.extend(local.samples);
                        }
                    }
                    if !mism.is_empty() {
                        let mut w = out.lock().unwrap();
                        for m in mism {
                            w.push(m.to_string());
                        }
                    }
                }
            });
        }
    });
    if let Some(e) = failed.into_inner().unwrap() {
        eprintln!("yv-g13 replay: tool error: {e}");
        return 2;
    }
    let mut w = util::open_out(args);
    for l in out.into_inner().unwrap() {
        writeln!(w, "{l}").unwrap();
    }
    w.flush().unwrap();
    let s = sum.into_inner().unwrap();
    println!(
        "{}",
        json!({"lines": s.lines, "cases": s.cases, "skipped": s.skipped, "ambiguous": s.ambiguous,
               "errors_expected": s.errors_expected, "mismatches": s.mismatches, "runs": s.runs,
               "tags": s.tags, "samples": s.samples})
    );
    0
}

/// impl -> spec: records {st, cmd, obs, text} (one per executed command).
fn random(args: &[String]) -> i32 {
    let n = util::opt_usize(args, "--n", 1000);
    let len = util::opt_usize(args, "--len", 6);
    let seed = util::seed();
    let next = AtomicUsize::new(0);
    let out: Mutex<Vec<String>> = Mutex::new(vec![]);
    let failed: Mutex<Option<String>> = Mutex::new(None);
    let total = AtomicUsize::new(0);
    std::thread::scope(|s| {
        for _ in 0..threads(args) {
            s.spawn(|| {
                loop {
                    let j = next.fetch_add(1, Ordering::SeqCst);
                    if j >= n || failed.lock().unwrap().is_some() {
                        break;
                    }
                    let mut rng = StdRng::seed_from_u64(seed.wrapping_mul(1_000_003).wrapping_add(j as u64));
                    let st0 = ast::random_state(&mut rng);
                    let cmds: Vec<Value> = (0..len).map(|_| ast::random_command(&mut rng)).collect();
                    let render = Render { multibyte_e: false, raw_params: j % 2 == 0 };
                    match run::run_sequence(&render, &st0, &cmds) {
                        Ok(steps) => {
                            let mut recs = vec![];
                            for (i, (pre, obs)) in steps.iter().enumerate() {
                                recs.push(json!({"seq": j, "i": i, "st": pre, "cmd": cmds[i], "obs": obs,
                                                 "text": render.command(&cmds[i], i, None)}).to_string());
                            }
                            total.fetch_add(recs.len(), Ordering::SeqCst);
                            out.lock().unwrap().extend(recs);
                        }
                        Err(e) => {
                            *failed.lock().unwrap() = Some(e);
                            return;
                        }
                    }
                }
            });
        }
    });
    if let Some(e) = failed.into_inner().unwrap() {
        eprintln!("yv-g13 random: tool error: {e}");
        return 2;
    }
    let mut w = util::open_out(args);
    for l in out.into_inner().unwrap() {
        writeln!(w, "{l}").unwrap();
    }
    w.flush().unwrap();
    println!("{}", json!({"records": total.load(Ordering::SeqCst), "sequences": n}));
    0
}

/// Re-executes one recorded case {st0, path, cmd} as a sequence in the main
/// shell and writes the step records (judged by Trace_ArrayVars).
fn one(args: &[String]) -> i32 {
    let input = util::open_in(args);
    let mut out = util::open_out(args);
    for line in input.lines() {
        let line = line.expect("read");
        if line.trim().is_empty() {
            continue;
        }
        let v: Value = serde_json::from_str(&line).expect("json");
        let mut cmds: Vec<Value> = v["path"].as_array().cloned().unwrap_or_default();
        if v.get("cmd").is_some() && !v["cmd"].is_null() {
            cmds.push(v["cmd"].clone());
        }
        let render = Render { multibyte_e: false, raw_params: true };
        match run::run_sequence(&render, &v["st0"], &cmds) {
            Ok(steps) => {
                for (i, (pre, obs)) in steps.iter().enumerate() {
                    writeln!(out, "{}", json!({"seq": 0, "i": i, "st": pre, "cmd": cmds[i], "obs": obs, "text": render.command(&cmds[i], i, None)})).unwrap();
                }
            }
            Err(e) => {
                eprintln!("tool error: {e}");
                return 2;
            }
        }
    }
    out.flush().unwrap();
    0
}

fn main() {
    util::quiet_panics();
    let args: Vec<String> = std::env::args().collect();
    if args.len() < 2 {
        eprintln!("usage: yv-g13 <replay|random|one> [--in F] [--out F] ...");
        std::process::exit(2);
    }
    let rest = &args[2..];
    let code = match args[1].as_str() {
        "replay" => replay(rest),
        "random" => random(rest),
        "one" => one(rest),
        other => {
            eprintln!("unknown subcommand {other}");
            2
        }
    };
    std::process::exit(code);
}
