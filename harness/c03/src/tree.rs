//! Expression trees for the impl -> spec direction: random generation,
//! unparsing (must produce exactly the text spec/Arith.tla's `Text` gives for
//! the same tree; Trace_Arith.tla re-checks that), JSON form; and the soup
//! generators for the totality check.
use crate::MapEnv;
use rand::Rng;
use rand::rngs::StdRng;
use rand::seq::SliceRandom;
use serde_json::{Value, json};

#[derive(Clone, Debug)]
pub enum T {
    /// non-negative constant and the radix it is written in: 'd' 'o' 'x' 'X'
    C(i64, char),
    V(String),
    /// prefix operator
    U(&'static str, Box<T>),
    /// postfix operator
    P(&'static str, Box<T>),
    B(&'static str, Box<T>, Box<T>),
    Q(Box<T>, Box<T>, Box<T>),
    /// redundant parentheses
    G(Box<T>),
}

pub const ARITH_OPS: &[&str] = &["*", "/", "%", "+", "-", "<<", ">>", "<", "<=", ">", ">=", "==", "!=", "&", "^", "|"];
pub const LOGIC_OPS: &[&str] = &["&&", "||"];
pub const ASSIGN_OPS: &[&str] = &["=", "*=", "/=", "%=", "+=", "-=", "<<=", ">>=", "&=", "^=", "|="];
pub const PREFIX_OPS: &[&str] = &["+", "-", "~", "!", "++", "--"];
pub const POSTFIX_OPS: &[&str] = &["++", "--"];
const VARS: &[&str] = &["x", "y", "z", "w", "\u{e9}t\u{e9}_1"];

fn bin_prec(op: &str) -> u8 {
    match op {
        "*" | "/" | "%" => 12,
        "+" | "-" => 11,
        "<<" | ">>" => 10,
        "<" | "<=" | ">" | ">=" => 9,
        "==" | "!=" => 8,
        "&" => 7,
        "^" => 6,
        "|" => 5,
        "&&" => 4,
        "||" => 3,
        _ => 1,
    }
}

fn prec(t: &T) -> u8 {
    match t {
        T::C(..) | T::V(_) | T::G(_) => 15,
        T::P(..) => 14,
        T::U(..) => 13,
        T::B(op, ..) => bin_prec(op),
        T::Q(..) => 2,
    }
}

pub fn const_text(v: i64, radix: char) -> String {
    match radix {
        'o' => format!("0{v:o}"),
        'x' => format!("0x{v:x}"),
        'X' => format!("0X{v:X}"),
        _ => format!("{v}"),
    }
}

fn wrap(t: &T, min: u8, out: &mut Vec<String>) {
    if prec(t) >= min {
        toks(t, out);
    } else {
        out.push("(".into());
        toks(t, out);
        out.push(")".into());
    }
}

fn toks(t: &T, out: &mut Vec<String>) {
    match t {
        T::C(v, r) => out.push(const_text(*v, *r)),
        T::V(n) => out.push(n.clone()),
        T::G(a) => {
            out.push("(".into());
            toks(a, out);
            out.push(")".into());
        }
        T::U(op, a) => {
            out.push(op.to_string());
            wrap(a, 13, out);
        }
        T::P(op, a) => {
            wrap(a, 14, out);
            out.push(op.to_string());
        }
        T::Q(c, t1, e) => {
            wrap(c, 3, out);
            out.push("?".into());
            wrap(t1, 1, out);
            out.push(":".into());
            wrap(e, 2, out);
        }
        T::B(op, l, r) => {
            if ASSIGN_OPS.contains(op) {
                wrap(l, 13, out);
                out.push(op.to_string());
                wrap(r, 1, out);
            } else {
                let p = bin_prec(op);
                wrap(l, p, out);
                out.push(op.to_string());
                wrap(r, p + 1, out);
            }
        }
    }
}

fn is_operator_tok(t: &str) -> bool {
    t == "?" || t == ":" || PREFIX_OPS.contains(&t) || ARITH_OPS.contains(&t) || LOGIC_OPS.contains(&t) || ASSIGN_OPS.contains(&t)
}

/// mode "s": one space between tokens; "t": spaces only between adjacent
/// operators; "w": tabs, newlines and runs of blanks (Arith.tla JoinFrom)
pub fn text(t: &T, mode: &str) -> String {
    const WS: [&str; 4] = ["\t", "\n", "  ", " \t "];
    let mut ts = vec![];
    toks(t, &mut ts);
    let mut s = String::new();
    if mode == "w" {
        s.push_str(" \t");
    }
    for (i, tok) in ts.iter().enumerate() {
        if i > 0 {
            if mode == "w" {
                // 1-based position of this token is i + 1
                s.push_str(WS[(i + 1) % 4]);
            } else if mode == "s" || (is_operator_tok(&ts[i - 1]) && is_operator_tok(tok)) {
                s.push(' ');
            }
        }
        s.push_str(tok);
    }
    if mode == "w" {
        s.push_str("\n ");
    }
    s
}

pub fn names(t: &T) -> Vec<String> {
    fn go(t: &T, out: &mut Vec<String>) {
        match t {
            T::C(..) => {}
            T::V(n) => out.push(n.clone()),
            T::U(_, a) | T::P(_, a) | T::G(a) => go(a, out),
            T::B(_, l, r) => {
                go(l, out);
                go(r, out);
            }
            T::Q(c, t1, e) => {
                go(c, out);
                go(t1, out);
                go(e, out);
            }
        }
    }
    let mut v = vec![];
    go(t, &mut v);
    v.sort();
    v.dedup();
    v
}

pub fn to_json(t: &T) -> Value {
    match t {
        T::C(v, r) => json!({"k": "c", "v": crate::num_json(*v), "r": r.to_string()}),
        T::V(n) => json!({"k": "v", "n": n}),
        T::G(a) => json!({"k": "g", "a": to_json(a)}),
        T::U(op, a) => json!({"k": "u", "op": op, "a": to_json(a)}),
        T::P(op, a) => json!({"k": "p", "op": op, "a": to_json(a)}),
        T::B(op, l, r) => json!({"k": "b", "op": op, "l": to_json(l), "r": to_json(r)}),
        T::Q(c, t1, e) => json!({"k": "q", "c": to_json(c), "t": to_json(t1), "e": to_json(e)}),
    }
}

// ---------------------------------------------------------------------------
// random generation
// ---------------------------------------------------------------------------

const BOUNDARY: &[i64] = &[
    0, 1, -1, 2, 3, 7, -7, 10, 62, 63, 64, 65, 127, 255, 32767, 32768, 65535, 65536,
    1 << 31, (1 << 31) - 1, -(1 << 31), 1 << 32, (1 << 32) + 1, 3037000499, 3037000500, 1 << 62, (1 << 62) - 1,
    i64::MAX, i64::MAX - 1, i64::MIN, i64::MIN + 1, -(1 << 62),
];

fn random_number(rng: &mut StdRng) -> i64 {
    match rng.gen_range(0..10) {
        0..=3 => *BOUNDARY.choose(rng).unwrap(),
        4..=6 => rng.gen_range(-70..=70),
        7 => rng.gen_range(-100000..=100000),
        8 => rng.r#gen::<i64>() >> rng.gen_range(0..63),
        _ => rng.r#gen::<i64>(),
    }
}

fn random_radix(rng: &mut StdRng) -> char {
    match rng.gen_range(0..20) {
        0..=11 => 'd',
        12..=14 => 'o',
        15..=17 => 'x',
        _ => 'X',
    }
}

fn leaf(rng: &mut StdRng) -> T {
    if rng.gen_bool(0.45) {
        let mut v = random_number(rng);
        if v == i64::MIN {
            v = i64::MAX;
        }
        let c = T::C(v.abs(), random_radix(rng));
        if v < 0 { T::U("-", Box::new(c)) } else { c }
    } else {
        T::V(VARS.choose(rng).unwrap().to_string())
    }
}

fn var(rng: &mut StdRng) -> T {
    T::V(VARS.choose(rng).unwrap().to_string())
}

pub fn random_tree(rng: &mut StdRng, depth: usize) -> T {
    if depth == 0 {
        return leaf(rng);
    }
    let sub = |rng: &mut StdRng| {
        let d = if rng.gen_bool(0.6) { depth - 1 } else { rng.gen_range(0..depth) };
        random_tree(rng, d)
    };
    if rng.gen_bool(0.06) {
        let inner = if rng.gen_bool(0.5) { var(rng) } else { sub(rng) };
        return T::G(Box::new(inner));
    }
    match rng.gen_range(0..100) {
        0..=54 => {
            let op = ARITH_OPS.choose(rng).unwrap();
            T::B(op, Box::new(sub(rng)), Box::new(sub(rng)))
        }
        55..=64 => {
            let op = LOGIC_OPS.choose(rng).unwrap();
            T::B(op, Box::new(sub(rng)), Box::new(sub(rng)))
        }
        65..=73 => {
            let op = ASSIGN_OPS.choose(rng).unwrap();
            let l = if rng.gen_bool(0.9) { var(rng) } else { sub(rng) };
            T::B(op, Box::new(l), Box::new(sub(rng)))
        }
        74..=85 => {
            let op = PREFIX_OPS.choose(rng).unwrap();
            let a = if (*op == "++" || *op == "--") && rng.gen_bool(0.85) { var(rng) } else { sub(rng) };
            T::U(op, Box::new(a))
        }
        86..=89 => {
            let op = POSTFIX_OPS.choose(rng).unwrap();
            let a = if rng.gen_bool(0.85) { var(rng) } else { sub(rng) };
            T::P(op, Box::new(a))
        }
        _ => T::Q(Box::new(sub(rng)), Box::new(sub(rng)), Box::new(sub(rng))),
    }
}

const ODD_VALUES: &[&str] = &[
    "", "foo", "*", "-", "08", "0x", "1a", " 1", "1 ", "1.5", "3 + 4", "x", "1e3", "\u{0663}", "9223372036854775808",
    "-9223372036854775809", "0x8000000000000000", "01000000000000000000000", "+", "--1", "１２",
];

pub fn random_env(rng: &mut StdRng, names: &[String]) -> MapEnv {
    let mut env = MapEnv::default();
    for n in names {
        let s = match rng.gen_range(0..100) {
            0..=9 => continue, // unset
            10..=84 => random_number(rng).to_string(),
            85..=87 => format!("+{}", random_number(rng).unsigned_abs() >> 1),
            88..=91 => {
                // a constant written in radix 8 or 16, optionally signed
                let v = random_number(rng);
                let m = v.unsigned_abs();
                let sign = if v < 0 { "-" } else if rng.gen_bool(0.1) { "+" } else { "" };
                match rng.gen_range(0..3) {
                    0 => format!("{sign}0{m:o}"),
                    1 => format!("{sign}0x{m:x}"),
                    _ => format!("{sign}0X{m:X}"),
                }
            }
            _ => ODD_VALUES.choose(rng).unwrap().to_string(),
        };
        env.vars.insert(n.clone(), s);
    }
    env
}

// ---------------------------------------------------------------------------
// soup
// ---------------------------------------------------------------------------

const LEXEMES: &[&str] = &[
    "?", ":", "|=", "||", "|", "^=", "^", "&=", "&&", "&", "==", "=", "!=", "<=", "<<=", "<<", "<", ">=", ">>=", ">>",
    ">", "+=", "++", "+", "-=", "--", "-", "*=", "*", "/=", "/", "%=", "%", "~", "!", "(", ")",
];
const OPERANDS: &[&str] = &[
    "0", "1", "2", "63", "64", "x", "y", "u", "_", "08", "0x", "0X1f", "017", "1a", "9223372036854775807",
    "9223372036854775808", "0x7fffffffffffffff", "0xffffffffffffffff", "01777777777777777777777", "é", "\u{0661}",
    "x1", "_9", "0_", "00", "0b1", "1e9", "1.5", ".5", "１", "变量",
];
const SPACES: &[&str] = &["", "", " ", "  ", "\t", "\n", "\r", "\u{0b}", "\u{0c}", "\u{a0}", "\u{2003}", "\u{3000}", "\u{feff}", "\u{200b}"];
const ODD_CHARS: &[char] = &[
    '\0', '\u{1}', '\u{7f}', '\u{80}', '\u{a0}', '\u{ad}', '\u{300}', '\u{301}', '\u{661}', '\u{6f1}', '\u{966}', '\u{2028}',
    '\u{2029}', '\u{202e}', '\u{2212}', '\u{ff0b}', '\u{ff11}', '\u{ff08}', '\u{fffd}', '\u{ffff}', '\u{1d7d8}', '\u{1f600}',
    '\u{10ffff}', '$', '`', '\\', '\'', '"', '#', '@', '[', ']', '{', '}', ',', ';', '.', '€', 'ß', 'İ', 'ǅ', '¼', '²', 'Ⅷ',
];

pub fn soup_env() -> MapEnv {
    let mut env = MapEnv::default();
    env.vars.insert("x".into(), "5".into());
    env.vars.insert("y".into(), "".into());
    env.vars.insert("é".into(), "-3".into());
    env
}

fn random_char(rng: &mut StdRng) -> char {
    match rng.gen_range(0..10) {
        0..=3 => rng.gen_range(0x20u8..0x7f) as char,
        4..=5 => *ODD_CHARS.choose(rng).unwrap(),
        6 => char::from_u32(rng.gen_range(0..0x300)).unwrap_or('?'),
        7 => char::from_u32(rng.gen_range(0x300..0x3000)).unwrap_or('?'),
        8 => char::from_u32(rng.gen_range(0x3000..0x10000)).unwrap_or('\u{fffd}'),
        _ => char::from_u32(rng.gen_range(0x10000..0x110000)).unwrap_or('\u{fffd}'),
    }
}

/// i-th soup text: token soup, character soup, or a mutated valid expression
pub fn random_soup(rng: &mut StdRng, i: usize) -> String {
    match i % 4 {
        0 | 1 => {
            // token soup
            let n = rng.gen_range(0..=12);
            let mut s = String::new();
            for _ in 0..n {
                s.push_str(SPACES.choose(rng).unwrap());
                if rng.gen_bool(0.55) {
                    s.push_str(LEXEMES.choose(rng).unwrap());
                } else {
                    s.push_str(OPERANDS.choose(rng).unwrap());
                }
            }
            s.push_str(SPACES.choose(rng).unwrap());
            s
        }
        2 => {
            // character soup
            let n = rng.gen_range(0..=16);
            (0..n).map(|_| random_char(rng)).collect()
        }
        _ => {
            // a valid expression with a few characters deleted, replaced or inserted
            let t = random_tree(rng, 3);
            let mode = if rng.gen_bool(0.5) { "s" } else { "t" };
            let mut cs: Vec<char> = text(&t, mode).chars().collect();
            for _ in 0..rng.gen_range(1..=3) {
                if cs.is_empty() {
                    break;
                }
                let p = rng.gen_range(0..cs.len());
                match rng.gen_range(0..3) {
                    0 => {
                        cs.remove(p);
                    }
                    1 => cs[p] = random_char(rng),
                    _ => cs.insert(p, random_char(rng)),
                }
            }
            cs.into_iter().collect()
        }
    }
}
