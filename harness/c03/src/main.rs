//! Conformance harness for property C03 (arithmetic expansion), see
//! /verif/DESIGN.md section 6 and spec/Arith.tla.
//!
//! Sub-commands
//!   replay --in gen.ndjson --out obs.ndjson
//!       evaluate every TLC-generated case (`text`, `env`) with the real
//!       `yash_arith::eval`; one observation per input line, same order.
//!   random --n N --depth D --out trace.ndjson
//!       seeded random expression trees (deeper than the enumeration), real
//!       evaluation, one record {k:"tree", tree, sp, text, env, out} per case
//!       for validation by spec/Trace_Arith.tla.
//!   soup --n N --out trace.ndjson
//!       token soup, Unicode text and mutated expressions; records
//!       {k:"soup", cp, out} (only totality is judged).
//!   shell --in gen.ndjson --every K --out obs.ndjson
//!       the same cases through the whole shell: `x=..; echo "$(( text ))"`.
//!   shellsoup --n N --out trace.ndjson
//!       soup through the whole shell (`e=<text>; echo $(($e))`).
//!   redo --in case.json
//!       re-evaluate one case (replay of a violation).
mod tree;

use serde_json::{Value, json};
use std::collections::BTreeMap;
use std::convert::Infallible;
use std::io::{BufRead, Write};
use std::ops::Range;
use yvcommon::util::{catch, open_in, open_out, opt, opt_usize, quiet_panics};

/// The environment given to `yash_arith::eval`: a plain map, never failing
/// (unset variables are reported as unset, i.e. the `nounset` option is off).
#[derive(Clone, Debug, Default, PartialEq, Eq)]
pub struct MapEnv {
    pub vars: BTreeMap<String, String>,
    /// number of assignments performed
    pub assigns: usize,
}

impl yash_arith::Env for MapEnv {
    type GetVariableError = Infallible;
    type AssignVariableError = Infallible;
    fn get_variable(&self, name: &str) -> Result<Option<&str>, Infallible> {
        Ok(self.vars.get(name).map(String::as_str))
    }
    fn assign_variable(&mut self, name: &str, value: String, _location: Range<usize>) -> Result<(), Infallible> {
        self.assigns += 1;
        self.vars.insert(name.to_owned(), value);
        Ok(())
    }
}

/// What the real code did with one expression.
#[derive(Clone, Debug)]
pub struct Obs {
    /// "v" value, "e" evaluation error, "s" syntax error, "p" panic
    pub t: &'static str,
    pub v: i64,
    /// error variant / panic message
    pub c: String,
    /// error location lies inside the text, on character boundaries
    pub loc_ok: bool,
    pub env: MapEnv,
}

pub fn evaluate(text: &str, env0: &MapEnv) -> Obs {
    let mut env = env0.clone();
    let r = catch(|| yash_arith::eval(text, &mut env));
    let mut obs = Obs { t: "p", v: 0, c: String::new(), loc_ok: true, env: MapEnv::default() };
    match r {
        Err(msg) => {
            obs.c = msg;
        }
        Ok(Ok(yash_arith::Value::Integer(i))) => {
            obs.t = "v";
            obs.v = i;
        }
        Ok(Ok(other)) => {
            // Value is non-exhaustive; a non-integer result is outside the specification
            obs.t = "e";
            obs.c = format!("NonInteger:{other:?}");
        }
        Ok(Err(e)) => {
            let l = &e.location;
            obs.loc_ok = l.start <= l.end
                && l.end <= text.len()
                && text.is_char_boundary(l.start)
                && text.is_char_boundary(l.end);
            use yash_arith::ErrorCause as EC;
            match &e.cause {
                EC::SyntaxError(s) => {
                    obs.t = "s";
                    let d = format!("{s:?}");
                    obs.c = d.split(|c: char| !c.is_alphanumeric()).next().unwrap_or("").to_string();
                    if let yash_arith::SyntaxError::TokenError(t) = s {
                        obs.c = format!("{t:?}");
                    }
                }
                EC::EvalError(x) => {
                    obs.t = "e";
                    let d = format!("{x:?}");
                    obs.c = d.split(|c: char| !c.is_alphanumeric()).next().unwrap_or("").to_string();
                }
                other => {
                    obs.t = "s";
                    obs.c = format!("{other:?}");
                }
            }
        }
    }
    obs.env = env;
    obs
}

// ---------------------------------------------------------------------------
// JSON forms
// ---------------------------------------------------------------------------

/// Int64.tla number: sign + little-endian limbs in base 2^15
pub fn num_json(v: i64) -> Value {
    let mut m = v.unsigned_abs();
    let mut limbs = vec![];
    while m > 0 {
        limbs.push(m % 32768);
        m /= 32768;
    }
    json!({"n": v < 0, "m": limbs})
}

fn chars_json(s: &str) -> Value {
    Value::Array(s.chars().map(|c| Value::String(c.to_string())).collect())
}

/// environment for the TLA+ side: every name in `names` gets a cell
fn env_tla(env: &MapEnv, names: &[String]) -> Value {
    let mut o = serde_json::Map::new();
    for n in names {
        let cell = match env.vars.get(n) {
            Some(s) => json!({"set": true, "s": chars_json(s)}),
            None => json!({"set": false, "s": []}),
        };
        o.insert(n.clone(), cell);
    }
    Value::Object(o)
}

/// environment in the form of the generator's lines (strings)
fn env_plain(env: &MapEnv, names: &[String]) -> Value {
    let mut o = serde_json::Map::new();
    for n in names {
        let cell = match env.vars.get(n) {
            Some(s) => json!({"set": true, "s": s}),
            None => json!({"set": false, "s": ""}),
        };
        o.insert(n.clone(), cell);
    }
    Value::Object(o)
}

fn env_from_plain(v: &Value) -> (MapEnv, Vec<String>) {
    let mut env = MapEnv::default();
    let mut names = vec![];
    for (n, cell) in v.as_object().expect("env object") {
        names.push(n.clone());
        if cell["set"].as_bool().unwrap_or(false) {
            env.vars.insert(n.clone(), cell["s"].as_str().unwrap_or("").to_string());
        }
    }
    (env, names)
}

fn names_of(env0: &MapEnv, obs: &Obs, extra: &[String]) -> Vec<String> {
    let mut names: Vec<String> = env0.vars.keys().chain(obs.env.vars.keys()).chain(extra.iter()).cloned().collect();
    names.sort();
    names.dedup();
    names
}

fn obs_plain(obs: &Obs, names: &[String]) -> Value {
    json!({"t": obs.t, "v": obs.v.to_string(), "c": obs.c, "lok": obs.loc_ok, "env": env_plain(&obs.env, names)})
}

fn obs_tla(obs: &Obs, names: &[String]) -> Value {
    json!({"t": obs.t, "v": num_json(obs.v), "c": obs.c, "lok": obs.loc_ok, "env": env_tla(&obs.env, names)})
}

// ---------------------------------------------------------------------------
// replay of generated cases
// ---------------------------------------------------------------------------

fn replay(args: &[String]) -> i32 {
    let input = open_in(args);
    let mut out = open_out(args);
    let mut n = 0usize;
    for line in input.lines() {
        let line = line.expect("read");
        if line.trim().is_empty() {
            continue;
        }
        let case: Value = serde_json::from_str(&line).expect("json");
        let text = case["text"].as_str().expect("text");
        let (env0, names) = env_from_plain(&case["env"]);
        let obs = evaluate(text, &env0);
        let names = names_of(&env0, &obs, &names);
        writeln!(out, "{}", json!({"i": n, "out": obs_plain(&obs, &names)})).unwrap();
        n += 1;
    }
    out.flush().unwrap();
    eprintln!("replayed {n} cases");
    0
}

fn env_from_tla(v: &Value) -> (MapEnv, Vec<String>) {
    let mut env = MapEnv::default();
    let mut names = vec![];
    for (n, cell) in v.as_object().expect("env object") {
        names.push(n.clone());
        if cell["set"].as_bool().unwrap_or(false) {
            let s: String = cell["s"].as_array().map(|a| a.iter().filter_map(|c| c.as_str()).collect()).unwrap_or_default();
            env.vars.insert(n.clone(), s);
        }
    }
    (env, names)
}

fn cp_text(v: &Value) -> String {
    v.as_array().map(|a| a.iter().filter_map(|c| char::from_u32(c.as_u64().unwrap_or(0) as u32)).collect()).unwrap_or_default()
}

/// Re-executes the case of a replay file (the `replay` object written by
/// lib/checks/c03.py) on the current tree.
fn redo(args: &[String]) -> i32 {
    let path = opt(args, "--in").expect("--in");
    let rp: Value = serde_json::from_str(&std::fs::read_to_string(path).expect("read")).expect("json");
    let mut out = open_out(args);
    let rec = match rp["dir"].as_str().unwrap_or("gen") {
        "gen" => {
            let (env0, names) = env_from_plain(&rp["env"]);
            let obs = evaluate(rp["text"].as_str().expect("text"), &env0);
            let names = names_of(&env0, &obs, &names);
            json!({"out": obs_plain(&obs, &names)})
        }
        "shell" => {
            let (_, names) = env_from_plain(&rp["env"]);
            let obs = shell_eval(rp["script"].as_str().expect("script"), &names);
            json!({"out": obs_plain(&obs, &names)})
        }
        "random" => {
            let mut rec = rp["rec"].clone();
            let (env0, names) = env_from_tla(&rec["env"]);
            let obs = evaluate(rec["text"].as_str().expect("text"), &env0);
            let names = names_of(&env0, &obs, &names);
            rec["out"] = obs_tla(&obs, &names);
            rec
        }
        "soup" => {
            let text = cp_text(&rp["rec"]["cp"]);
            soup_record("soup", &text, &evaluate(&text, &tree::soup_env()))
        }
        "shellsoup" => {
            let text = cp_text(&rp["rec"]["cp"]);
            soup_record("shellsoup", &text, &shell_eval(&shellsoup_script(&text), &[]))
        }
        other => {
            eprintln!("unknown direction {other}");
            return 2;
        }
    };
    writeln!(out, "{rec}").unwrap();
    out.flush().unwrap();
    0
}

// ---------------------------------------------------------------------------
// random trees (impl -> spec)
// ---------------------------------------------------------------------------

fn random(args: &[String]) -> i32 {
    use rand::SeedableRng;
    let n = opt_usize(args, "--n", 1000);
    let depth = opt_usize(args, "--depth", 4);
    let mut rng = rand::rngs::StdRng::seed_from_u64(yvcommon::util::seed().wrapping_mul(0x9E37_79B9).wrapping_add(3));
    let mut out = open_out(args);
    for _ in 0..n {
        let d = 1 + (rand::Rng::gen_range(&mut rng, 0..depth));
        let t = tree::random_tree(&mut rng, d);
        let sp = ["s", "t", "w"][rand::Rng::gen_range(&mut rng, 0..3)];
        let text = tree::text(&t, sp);
        let mut names = tree::names(&t);
        let env0 = tree::random_env(&mut rng, &names);
        let obs = evaluate(&text, &env0);
        names = names_of(&env0, &obs, &names);
        let rec = json!({
            "k": "tree", "dir": "random", "tree": tree::to_json(&t), "sp": sp, "text": text,
            "env": env_tla(&env0, &names), "out": obs_tla(&obs, &names),
        });
        writeln!(out, "{rec}").unwrap();
    }
    out.flush().unwrap();
    0
}

// ---------------------------------------------------------------------------
// soup (totality)
// ---------------------------------------------------------------------------

fn soup_record(dir: &str, text: &str, obs: &Obs) -> Value {
    let cps: Vec<u32> = text.chars().map(|c| c as u32).collect();
    json!({"k": "soup", "dir": dir, "cp": cps, "out": {"t": obs.t, "c": obs.c, "lok": obs.loc_ok}})
}

fn soup(args: &[String]) -> i32 {
    use rand::SeedableRng;
    let n = opt_usize(args, "--n", 1000);
    let mut rng = rand::rngs::StdRng::seed_from_u64(yvcommon::util::seed().wrapping_mul(0x9E37_79B9).wrapping_add(7));
    let mut out = open_out(args);
    let env0 = tree::soup_env();
    for i in 0..n {
        let text = tree::random_soup(&mut rng, i);
        let obs = evaluate(&text, &env0);
        writeln!(out, "{}", soup_record("soup", &text, &obs)).unwrap();
    }
    out.flush().unwrap();
    0
}

// ---------------------------------------------------------------------------
// through the whole shell
// ---------------------------------------------------------------------------

fn sh_quote(s: &str) -> String {
    format!("'{}'", s.replace('\'', "'\\''"))
}

/// Runs `script` in the real shell on the simulated OS; classifies the result
/// of the one arithmetic expansion it contains.
fn shell_eval(script: &str, names: &[String]) -> Obs {
    use yvcommon::sched::Outcome;
    use yvcommon::shell::{ShellCfg, run_shell};
    let mut cfg = ShellCfg::command(script);
    cfg.step_limit = 200_000;
    let r = run_shell(cfg);
    let mut obs = Obs { t: "p", v: 0, c: String::new(), loc_ok: true, env: MapEnv::default() };
    match &r.outcome {
        Outcome::Completed => {}
        other => {
            obs.c = format!("{other:?}");
            return obs;
        }
    }
    let so = r.stdout_str();
    let se = r.stderr_str();
    if let Some(rest) = so.strip_prefix("R|") {
        let parts: Vec<&str> = rest.trim_end_matches('\n').split('|').collect();
        if parts.len() == names.len() + 2 {
            if let Ok(v) = parts[0].parse::<i64>() {
                obs.t = "v";
                obs.v = v;
                for (n, p) in names.iter().zip(&parts[1..]) {
                    if *p != "<unset>" {
                        obs.env.vars.insert(n.clone(), p.to_string());
                    }
                }
                return obs;
            }
        }
        obs.t = "e";
        obs.c = format!("unparsable output {so:?}");
        return obs;
    }
    // no output: the expansion failed; the diagnostic is on stderr
    obs.t = "e";
    obs.c = format!("status={} {}", r.status, se.lines().filter(|l| l.contains('^') || l.starts_with("error")).collect::<Vec<_>>().join(" / "));
    if r.status == 0 || se.is_empty() {
        obs.c = format!("no output, status={}, stderr={se:?}", r.status);
    }
    obs
}

fn shell_script(text: &str, env0: &MapEnv, names: &[String]) -> String {
    let mut s = String::new();
    for n in names {
        match env0.vars.get(n) {
            Some(v) => s.push_str(&format!("{n}={}; ", sh_quote(v))),
            None => s.push_str(&format!("unset {n}; ")),
        }
    }
    s.push_str(&format!("echo \"R|$(( {text} ))"));
    for n in names {
        s.push_str(&format!("|${{{n}-<unset>}}"));
    }
    s.push_str("|\"");
    s
}

fn shell(args: &[String]) -> i32 {
    let input = open_in(args);
    let mut out = open_out(args);
    let every = opt_usize(args, "--every", 1).max(1);
    let offset = yvcommon::util::seed() as usize % every;
    let mut n = 0usize;
    let mut done = 0usize;
    for line in input.lines() {
        let line = line.expect("read");
        if line.trim().is_empty() {
            continue;
        }
        let i = n;
        n += 1;
        let case: Value = serde_json::from_str(&line).expect("json");
        // family 5 (variable values, `$x` forms) is always run
        let fam = case["id"][0].as_u64().unwrap_or(0);
        if fam != 5 && i % every != offset {
            continue;
        }
        let text = match case.get("dtext").and_then(|d| d.as_str()) {
            Some(d) if !d.is_empty() => d,
            _ => case["text"].as_str().expect("text"),
        };
        let (env0, names) = env_from_plain(&case["env"]);
        let script = shell_script(text, &env0, &names);
        let obs = shell_eval(&script, &names);
        writeln!(out, "{}", json!({"i": i, "script": script, "out": obs_plain(&obs, &names)})).unwrap();
        done += 1;
    }
    out.flush().unwrap();
    eprintln!("ran {done} of {n} cases through the shell");
    0
}

fn shellsoup_script(text: &str) -> String {
    format!("x=5; y=; e={}; echo \"R|$(($e))|\"", sh_quote(text))
}

fn shellsoup(args: &[String]) -> i32 {
    use rand::SeedableRng;
    let n = opt_usize(args, "--n", 200);
    let mut rng = rand::rngs::StdRng::seed_from_u64(yvcommon::util::seed().wrapping_mul(0x9E37_79B9).wrapping_add(11));
    let mut out = open_out(args);
    for i in 0..n {
        let mut text = tree::random_soup(&mut rng, i);
        text.retain(|c| c != '\0');
        let obs = shell_eval(&shellsoup_script(&text), &[]);
        writeln!(out, "{}", soup_record("shellsoup", &text, &obs)).unwrap();
    }
    out.flush().unwrap();
    0
}

fn main() {
    let args: Vec<String> = std::env::args().collect();
    if args.len() < 2 {
        eprintln!("usage: yv-c03 <replay|random|soup|shell|shellsoup|redo> ...");
        std::process::exit(2);
    }
    quiet_panics();
    let rest: Vec<String> = args[2..].to_vec();
    let sub = args[1].clone();
    // deep recursion of the code under test on long inputs: give it room
    let child = std::thread::Builder::new()
        .stack_size(256 << 20)
        .spawn(move || match sub.as_str() {
            "replay" => replay(&rest),
            "random" => random(&rest),
            "soup" => soup(&rest),
            "shell" => shell(&rest),
            "shellsoup" => shellsoup(&rest),
            "redo" => redo(&rest),
            other => {
                eprintln!("unknown subcommand {other}");
                2
            }
        })
        .expect("spawn");
    let code = child.join().unwrap_or(2);
    std::process::exit(code);
}
