//! Conformance harness for property C03, see /verif/DESIGN.md.
fn main() {
    eprintln!("yv-c03: not implemented yet");
    std::process::exit(2);
}
