//! Scenarios: the JSON shape shared with spec/HereDoc.tla, the renderer used
//! for randomly generated scenarios (Trace_HereDoc checks its output against
//! the specification's own `Script`), and the random generator.
use rand::Rng;
use rand::rngs::StdRng;
use serde_json::{Value, json};

#[derive(Clone, Debug)]
pub struct Op {
    pub strip: bool,
    pub word: String,
    pub fd: u32,
    pub sp: bool,
}

#[derive(Clone, Debug)]
pub struct Scen {
    pub place: String,
    pub shape: String,
    pub ops: Vec<Op>,
    pub lines: Vec<String>,
    pub nl: bool,
}

impl Scen {
    pub fn from_json(v: &Value) -> Scen {
        Scen {
            place: v["place"].as_str().unwrap().to_string(),
            shape: v["shape"].as_str().unwrap().to_string(),
            ops: v["ops"]
                .as_array()
                .unwrap()
                .iter()
                .map(|o| Op {
                    strip: o["strip"].as_bool().unwrap(),
                    word: o["word"].as_str().unwrap().to_string(),
                    fd: o["fd"].as_u64().unwrap() as u32,
                    sp: o["sp"].as_bool().unwrap(),
                })
                .collect(),
            lines: v["lines"].as_array().unwrap().iter().map(|l| l.as_str().unwrap().to_string()).collect(),
            nl: v["nl"].as_bool().unwrap(),
        }
    }
    pub fn to_json(&self) -> Value {
        json!({
            "place": self.place, "shape": self.shape,
            "ops": self.ops.iter().map(|o| json!({"strip": o.strip, "word": o.word, "fd": o.fd, "sp": o.sp})).collect::<Vec<_>>(),
            "lines": self.lines, "nl": self.nl,
        })
    }
}

pub const PRELUDE: &str = "x=vx y='a  b' n=5 e= t='\tT' d=E";
const TAGS: [&str; 3] = ["a", "b", "c"];

fn op_text(o: &Op) -> String {
    let fd = if o.fd == 0 { String::new() } else { o.fd.to_string() };
    format!("{fd}{}{}{}", if o.strip { "<<-" } else { "<<" }, if o.sp { " " } else { "" }, o.word)
}

fn ops_text(ops: &[Op]) -> String {
    ops.iter().map(op_text).collect::<Vec<_>>().join(" ")
}

fn fds_text(ops: &[Op]) -> String {
    let mut seen: Vec<u32> = vec![];
    for o in ops {
        if !seen.contains(&o.fd) {
            seen.push(o.fd);
        }
    }
    seen.iter().map(|f| f.to_string()).collect::<Vec<_>>().join(" ")
}

fn header_text(s: &Scen) -> String {
    let ops = &s.ops;
    match s.shape.as_str() {
        "post" => format!("rd a {} {}", fds_text(ops), ops_text(ops)),
        "pre" => format!("{} rd a {}", ops_text(ops), fds_text(ops)),
        "mid" => format!("rd a {} {}", ops_text(ops), fds_text(ops)),
        "cat" => format!(
            "cat {}{}",
            ops_text(ops),
            if ops[0].fd == 0 { String::new() } else { format!(" <&{}", ops[0].fd) }
        ),
        sh => {
            let conn = match sh {
                "semi" => "; ",
                "and" => " && ",
                "pipe" => " | ",
                _ => "",
            };
            ops.iter()
                .enumerate()
                .map(|(i, o)| format!("rd {} {} {}", TAGS[i], o.fd, op_text(o)))
                .collect::<Vec<_>>()
                .join(conn)
        }
    }
}

pub fn script(s: &Scen) -> Vec<String> {
    let h = header_text(s);
    let op = &s.ops[0];
    let f = op.fd;
    let head = match s.place.as_str() {
        "top" | "bare" | "top2" => h,
        "seq" => format!("probe b; {h}; probe c"),
        "comment" => format!("{h} # <<X"),
        "brace" => format!("{{ {h}"),
        "sub" => format!("( {h}"),
        "func" => format!("f() {{ {h}"),
        "for" => format!("for i in 1 2; do {h}"),
        "subst" => format!("probe s \"$({h}"),
        "pipeL" => format!("{h} | rd p 0"),
        "pipeR" => format!("echo zz | {h}"),
        "pipeNL" => format!("{h} |"),
        "andNL" => format!("{h} &&"),
        "forin" => format!("{h} | for i in a"),
        "if" => format!("if {h}"),
        "case" => format!("case x in x) {h}"),
        "while" => format!("while {h}"),
        "bang" => format!("! {h}"),
        "never" => format!("status 1 && {h}"),
        "alias" => "h".to_string(),
        "eval" => format!("eval '{h}"),
        "exec" => format!("exec {}", op_text(op)),
        "bredir" => format!("{{ rd a {f}; rd b {f}; }} {}", op_text(op)),
        "fredir" => format!("f() {{ rd a {f}; }} {}", op_text(op)),
        p => panic!("unknown place {p}"),
    };
    let exec_tail = format!("rd a {f}");
    let tail: Vec<&str> = match s.place.as_str() {
        "eval" => vec!["'", "probe end"],
        "exec" => vec![&exec_tail, "probe end"],
        "bare" => vec![],
        "top2" => vec!["rd k 0 <<'Q'", "q$x", "Q", "probe end"],
        "brace" => vec!["}", "probe end"],
        "sub" => vec![")", "probe end"],
        "func" => vec!["}", "f", "x=wx", "f", "probe end"],
        "for" => vec!["done", "probe end"],
        "subst" => vec![")\"", "probe end"],
        "pipeNL" | "andNL" => vec!["probe p", "probe end"],
        "forin" => vec!["do probe $i; done", "probe end"],
        "if" => vec!["status 0", "then probe t; fi", "probe end"],
        "case" => vec![";; esac", "probe end"],
        "while" => vec!["do break; done", "probe end"],
        "fredir" => vec!["f", "x=wx", "f", "probe end"],
        _ => vec!["probe end"],
    };
    let mut v = vec![PRELUDE.to_string()];
    if s.place == "alias" {
        v.push(format!("alias h=\"{}\"", header_text(s)));
    }
    v.push(head);
    v.extend(s.lines.iter().cloned());
    v.extend(tail.iter().map(|t| t.to_string()));
    v
}

// ---------------------------------------------------------------------------
// random scenarios
// ---------------------------------------------------------------------------

const PLACES: [&str; 25] = [
    "alias", "eval", "exec",
    "top", "top", "top2", "seq", "comment", "brace", "sub", "func", "for", "subst", "pipeL", "pipeR", "pipeNL",
    "andNL", "forin", "if", "case", "bredir", "fredir", "while", "bang", "never",
];

/// (word as written, delimiter after quote removal)
const WORDS: [(&str, &str); 24] = [
    ("''", ""),
    ("\"\"", ""),
    ("E", "E"),
    ("E", "E"),
    ("F", "F"),
    ("EOF", "EOF"),
    ("'E'", "E"),
    ("\\E", "E"),
    ("\"E\"", "E"),
    ("E''", "E"),
    ("'F'", "F"),
    ("\"EOF\"", "EOF"),
    ("E\\OF", "EOF"),
    ("'E F'", "E F"),
    ("E\\ F", "E F"),
    ("$x", "$x"),
    ("\"$x\"", "$x"),
    ("'$x'", "$x"),
    ("-E", "-E"),
    ("E\\\tF", "E\tF"),
    ("\"a\\\\b\"", "a\\b"),
    ("\"\\a\"", "\\a"),
    ("E\\\\", "E\\"),
    ("e_1", "e_1"),
];

const ATOMS: [&str; 40] = [
    "a", "b c", "\t", " ", "$x", "${y}", "$n", "$i", "$t", "$e", "$u", "$d", "\\$", "\\\\", "\\`", "\\a", "\\\"", "\"",
    "'", "$((n+1))", "$((2+3))", "$(echo s)", "`echo s t`", "E", "F", "-", "#", ";", ")", "<<F", "EOF", "x", "$xy",
    "${x}y", "$((n+n+1))", "\t\t", "q", "_", "0", "\\E",
];

/// atoms that may appear in a command line of the modelled fragment
const SAFE_ATOMS: [&str; 22] = [
    "a", "b c", "\t", " ", "$x", "${y}", "$n", "$i", "$t", "$e", "$u", "$d", "\\$", "\\\\", "\\a", "$((n+1))",
    "$(echo s)", "`echo s t`", "E", "F", "-", "0",
];

fn pick<'a, T>(rng: &mut StdRng, xs: &'a [T]) -> &'a T {
    &xs[rng.gen_range(0..xs.len())]
}

fn body_line(rng: &mut StdRng, delims: &[String]) -> String {
    let mut s = String::new();
    // leading tabs are frequent: they are what <<- is about
    for _ in 0..[0, 0, 0, 1, 1, 2][rng.gen_range(0..6)] {
        s.push('\t');
    }
    match rng.gen_range(0..20) {
        0 => {
            // something that looks almost like a delimiter
            let d = pick(rng, delims);
            match rng.gen_range(0..5) {
                0 => s.push_str(&format!("{d} ")),
                1 => s.push_str(&format!(" {d}")),
                2 => s.push_str(&format!("{d}{d}")),
                3 => s.push_str(&format!("\\{d}")),
                _ => s = format!(" \t{d}"),
            }
        }
        1 => {}
        _ => {
            for _ in 0..rng.gen_range(1..5) {
                s.push_str(pick(rng, &ATOMS));
            }
        }
    }
    if rng.gen_range(0..12) == 0 {
        s.push('\\');
    }
    s
}

fn rest_line(rng: &mut StdRng) -> String {
    match rng.gen_range(0..8) {
        0 | 1 => "probe k".to_string(),
        2 | 3 => "probe $i".to_string(),
        4 => String::new(),
        5 => "\tprobe k".to_string(),
        _ => {
            let mut s = String::new();
            for _ in 0..rng.gen_range(1..4) {
                s.push_str(pick(rng, &SAFE_ATOMS));
            }
            s
        }
    }
}

pub fn random_scen(rng: &mut StdRng) -> Scen {
    let place = PLACES[rng.gen_range(0..PLACES.len())].to_string();
    let place = if rng.gen_range(0..12) == 0 { "bare".to_string() } else { place };
    let single = matches!(place.as_str(), "bredir" | "fredir" | "exec");
    let shape = if single {
        "post"
    } else if place == "top" || place == "bare" || place == "top2" {
        *pick(rng, &["post", "post", "pre", "mid", "cat", "semi", "and", "pipe"])
    } else {
        *pick(rng, &["post", "post", "pre", "mid", "cat"])
    }
    .to_string();
    let nops = if single || shape == "cat" { 1 } else { [1, 1, 2, 2, 3][rng.gen_range(0..5)] };
    let mut ops = Vec::new();
    let mut delims = Vec::new();
    for _ in 0..nops {
        let (w, d) = if place == "alias" || place == "eval" {
            // spellings that survive the quoting of the alias value / the eval operand
            *pick(rng, &[("E", "E"), ("F", "F"), ("EOF", "EOF"), ("'E'", "E"), ("\"E\"", "E"), ("-E", "-E")])
        } else {
            *pick(rng, &WORDS)
        };
        let strip = rng.gen_bool(0.5);
        let mut sp = rng.gen_range(0..4) == 0;
        if w.starts_with('-') && !strip {
            sp = true;
        }
        let fd = if place == "exec" { *pick(rng, &[3u32, 4, 5]) } else { *pick(rng, &[0u32, 0, 3, 4, 5]) };
        ops.push(Op { strip, word: w.to_string(), fd, sp });
        delims.push(d.to_string());
    }
    let mut lines = Vec::new();
    let r = rng.gen_range(0..20);
    for (i, o) in ops.iter().enumerate() {
        for _ in 0..[0, 1, 1, 2, 2, 3, 4][rng.gen_range(0..7)] {
            lines.push(body_line(rng, &delims));
        }
        // the delimiter line; now and then it is missing or not quite right
        if r == 0 && i + 1 == ops.len() {
            continue;
        }
        let mut l = String::new();
        if o.strip && rng.gen_bool(0.5) {
            for _ in 0..rng.gen_range(1..3) {
                l.push('\t');
            }
        } else if !o.strip && r == 1 {
            l.push('\t');
        }
        l.push_str(&delims[i]);
        lines.push(l);
    }
    for _ in 0..[0, 0, 1, 1, 2, 3][rng.gen_range(0..6)] {
        lines.push(rest_line(rng));
    }
    let nl = if place == "bare" { rng.gen_bool(0.6) } else { true };
    Scen { place, shape, ops, lines, nl }
}
