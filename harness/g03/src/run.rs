//! Running one here-document script in the REAL shell on the simulated OS,
//! and parsing it with the real parser.
//!
//! `rd TAG FD...` is the reader probe: for every FD it reads the descriptor
//! to end of file and records `{"ev":"rd","tag":TAG,"fd":"FD","data":BYTES}`.
use futures_util::FutureExt as _;
use serde_json::{Value, json};
use std::cell::Cell;
use std::pin::Pin;
use std::rc::Rc;
use yash_env::builtin::{Builtin, Result as BResult, Type};
use yash_env::input::{Context, Input};
use yash_env::io::Fd;
use yash_env::semantics::{ExitStatus, Field};
use yash_env::system::concurrency::ReadAll as _;
use yash_syntax::parser::Parser;
use yash_syntax::parser::lex::Lexer;
use yash_syntax::syntax::*;
use yvcommon::sched::Outcome;
use yvcommon::shell::{ShellCfg, VEnv, push_event, run_shell};
use yvcommon::util::catch;

fn rd_main(env: &mut VEnv, args: Vec<Field>) -> Pin<Box<dyn Future<Output = BResult> + '_>> {
    Box::pin(async move {
        let tag = args.first().map(|f| f.value.clone()).unwrap_or_default();
        for a in args.iter().skip(1) {
            let Ok(n) = a.value.parse::<i32>() else {
                push_event(json!({"ev": "rd", "tag": tag, "fd": a.value, "data": "!BADARG"}));
                continue;
            };
            match env.system.read_all(Fd(n)).await {
                Ok(d) => push_event(json!({"ev": "rd", "tag": tag, "fd": n.to_string(),
                                           "data": String::from_utf8_lossy(&d)})),
                Err(e) => push_event(json!({"ev": "rd", "tag": tag, "fd": n.to_string(), "data": format!("!{e:?}")})),
            }
        }
        BResult::new(ExitStatus(0))
    })
}

#[derive(Clone, Copy, Debug, PartialEq, Eq)]
pub enum Mode {
    /// `yash -c SCRIPT`
    CmdString,
    /// `yash` reading the script from descriptor 0 (a regular file)
    Stdin,
}

impl Mode {
    pub fn name(self) -> &'static str {
        match self {
            Mode::CmdString => "-c",
            Mode::Stdin => "stdin",
        }
    }
}

pub const MODES: [Mode; 2] = [Mode::CmdString, Mode::Stdin];

#[derive(Clone, Debug, PartialEq, Eq)]
pub struct Obs {
    /// completed | deadlock | steplimit | panic: MSG
    pub outcome: String,
    /// events in execution order: ["rd", tag, fd, data] / ["probe", args...]
    pub ev: Vec<Vec<String>>,
    pub out: String,
    pub status: i32,
    pub stderr: String,
}

pub fn script_text(lines: &[String], nl: bool) -> String {
    let mut s = lines.join("\n");
    if nl {
        s.push('\n');
    }
    s
}

pub fn run_mode(text: &str, mode: Mode) -> Obs {
    let mut cfg = match mode {
        Mode::CmdString => ShellCfg::command(text),
        Mode::Stdin => ShellCfg::stdin_script(text.as_bytes()),
    };
    cfg.step_limit = 200_000;
    cfg.setup = Some(Box::new(|env: &mut VEnv, _st| {
        env.builtins.insert("rd", Builtin::new(Type::Mandatory, rd_main));
    }));
    let res = match catch(|| run_shell(cfg)) {
        Ok(r) => r,
        Err(msg) => {
            return Obs { outcome: format!("panic: {msg}"), ev: vec![], out: String::new(), status: -1, stderr: String::new() };
        }
    };
    let outcome = match &res.outcome {
        Outcome::Completed => "completed".to_string(),
        Outcome::Deadlock => "deadlock".to_string(),
        Outcome::StepLimit => "steplimit".to_string(),
        Outcome::Panic(m) => format!("panic: {m}"),
    };
    let mut ev = Vec::new();
    for e in &res.events {
        match e["ev"].as_str() {
            Some("rd") => ev.push(vec![
                "rd".to_string(),
                e["tag"].as_str().unwrap_or("").to_string(),
                e["fd"].as_str().unwrap_or("").to_string(),
                e["data"].as_str().unwrap_or("").to_string(),
            ]),
            Some("probe") => {
                let mut v = vec!["probe".to_string()];
                for a in e["args"].as_array().into_iter().flatten() {
                    v.push(a.as_str().unwrap_or("").to_string());
                }
                ev.push(v);
            }
            _ => {}
        }
    }
    Obs {
        outcome,
        ev,
        out: String::from_utf8_lossy(&res.stdout).into_owned(),
        status: res.status,
        stderr: String::from_utf8_lossy(&res.stderr).into_owned(),
    }
}

// ---------------------------------------------------------------------------
// parse level
// ---------------------------------------------------------------------------

struct Lines {
    lines: Vec<String>,
    next: usize,
    polls: Rc<Cell<usize>>,
}

impl Input for Lines {
    async fn next_line(&mut self, _c: &Context) -> yash_env::input::Result {
        self.polls.set(self.polls.get() + 1);
        if self.polls.get() > self.lines.len() + 1000 {
            panic!("input polled {} times after end of input", self.polls.get() - self.lines.len());
        }
        match self.lines.get(self.next) {
            Some(l) => {
                self.next += 1;
                Ok(l.clone())
            }
            None => Ok(String::new()),
        }
    }
}

/// A here-document node of the syntax tree.
#[derive(Clone, Debug, PartialEq, Eq)]
pub struct Doc {
    /// delimiter after quote removal
    pub d: String,
    /// `<<-`
    pub s: bool,
    /// some part of the delimiter word is quoted
    pub q: bool,
    /// content as printed by Display
    pub raw: String,
}

#[derive(Clone, Debug, Default)]
pub struct Parsed {
    /// ok | err: CAUSE | panic: MSG
    pub res: String,
    pub docs: Vec<Doc>,
    /// one-line printed form of every command that carries a here-document operator
    pub printed: Vec<String>,
}

fn redirs(rs: &[Redir], docs: &mut Vec<Doc>) -> bool {
    let mut any = false;
    for r in rs {
        if let RedirBody::HereDoc(h) = &r.body {
            let (d, q) = h.delimiter.unquote();
            let raw = h.content.get().map(|t| t.to_string()).unwrap_or_else(|| "!NOCONTENT".to_string());
            docs.push(Doc { d, s: h.remove_tabs, q, raw });
            any = true;
        }
    }
    any
}

fn walk_compound(c: &CompoundCommand, p: &mut Parsed) {
    use CompoundCommand::*;
    match c {
        Grouping(l) => walk_list(l, p),
        Subshell { body, .. } => walk_list(body, p),
        For { body, .. } => walk_list(body, p),
        While { condition, body } | Until { condition, body } => {
            walk_list(condition, p);
            walk_list(body, p)
        }
        If { condition, body, elifs, r#else } => {
            walk_list(condition, p);
            walk_list(body, p);
            for e in elifs {
                walk_list(&e.condition, p);
                walk_list(&e.body, p);
            }
            if let Some(e) = r#else {
                walk_list(e, p)
            }
        }
        Case { items, .. } => {
            for i in items {
                walk_list(&i.body, p)
            }
        }
    }
}

fn walk_full(f: &FullCompoundCommand, p: &mut Parsed) {
    walk_compound(&f.command, p);
    if redirs(&f.redirs, &mut p.docs) {
        p.printed.push(f.to_string());
    }
}

fn walk_list(l: &List, p: &mut Parsed) {
    for i in &l.0 {
        let ao = &i.and_or;
        for pl in std::iter::once(&ao.first).chain(ao.rest.iter().map(|x| &x.1)) {
            for c in &pl.commands {
                match &**c {
                    Command::Simple(s) => {
                        if redirs(&s.redirs, &mut p.docs) {
                            p.printed.push(s.to_string());
                        }
                    }
                    Command::Compound(f) => walk_full(f, p),
                    Command::Function(f) => walk_full(&f.body, p),
                }
            }
        }
    }
}

/// Parses `text` the way the read-eval loop does (one command line at a time).
pub fn parse(text: &str) -> Parsed {
    let r = catch(|| {
        let lines: Vec<String> = text.split_inclusive('\n').map(str::to_owned).collect();
        let input = Lines { lines, next: 0, polls: Rc::new(Cell::new(0)) };
        let cfg = yash_env::parser::Config::with_input(Box::new(input));
        let mut lexer: Lexer = cfg.into();
        let mut out = Parsed { res: "ok".into(), ..Default::default() };
        loop {
            if !lexer.pending() {
                lexer.flush();
            }
            let r = Parser::new(&mut lexer)
                .command_line()
                .now_or_never()
                .expect("parser must not block on in-memory input");
            match r {
                Ok(Some(l)) => walk_list(&l, &mut out),
                Ok(None) => break,
                Err(e) => {
                    out.res = format!("err: {:?}", e.cause);
                    break;
                }
            }
        }
        out
    });
    match r {
        Ok(p) => p,
        Err(m) => Parsed { res: format!("panic: {m}"), ..Default::default() },
    }
}

pub fn docs_json(d: &[Doc]) -> Value {
    Value::Array(d.iter().map(|x| json!({"d": x.d, "s": x.s, "q": x.q, "raw": x.raw})).collect())
}
