//! Conformance harness for specification-growth module G03 (here-documents),
//! see spec/HereDoc.tla.
//!
//! `yv-g03 replay --in GEN.ndjson --out MISMATCHES.ndjson [--threads T]`
//!     spec -> impl: every line of GEN is a scenario printed by Gen_HereDoc
//!     (script text and what the specification expects).  The script is run
//!     by the real shell on the simulated OS as a `-c` string and as a script
//!     on descriptor 0, and parsed by the real parser; events, standard
//!     output, here-document nodes and printed commands are compared.
//! `yv-g03 random --n N --out TRACE.ndjson [--threads T]`
//!     impl -> spec: N seeded random scenarios are rendered, run and parsed;
//!     the observations are written for Trace_HereDoc to judge.
//! `yv-g03 one --in SCEN.json --out TRACE.ndjson`
//!     one scenario (`{"sc": {...}}`), same record as `random`.
mod run;
mod scen;

use rand::SeedableRng;
use run::{MODES, Obs, Parsed};
use scen::Scen;
use serde_json::{Value, json};
use std::collections::BTreeMap;
use std::io::{BufRead, Write};
use std::sync::Mutex;
use std::sync::atomic::{AtomicUsize, Ordering};
use yvcommon::util::{self, opt, opt_usize};

fn strs(v: &Value) -> Vec<String> {
    v.as_array().map(|a| a.iter().map(|x| x.as_str().unwrap_or("").to_string()).collect()).unwrap_or_default()
}

/// Do the observed events match the expected groups (order inside a group is free)?
fn match_groups(ev: &[Vec<String>], groups: &[Vec<Vec<String>>]) -> bool {
    let mut at = 0;
    for g in groups {
        if at + g.len() > ev.len() {
            return false;
        }
        let mut a: Vec<&Vec<String>> = ev[at..at + g.len()].iter().collect();
        let mut b: Vec<&Vec<String>> = g.iter().collect();
        a.sort();
        b.sort();
        if a != b {
            return false;
        }
        at += g.len();
    }
    at == ev.len()
}

fn obs_json(mode: &str, o: &Obs) -> Value {
    json!({"mode": mode, "outcome": o.outcome, "ev": o.ev, "out": o.out, "status": o.status,
           "errnz": !o.stderr.is_empty()})
}

fn bad_outcome(o: &str) -> bool {
    o != "completed"
}

#[derive(Default)]
struct Stats {
    n: usize,
    runs: usize,
    parses: usize,
    by_class: BTreeMap<String, usize>,
    by_place: BTreeMap<String, usize>,
    by_fam: BTreeMap<String, usize>,
    nontrivial: usize,
    docs_checked: usize,
    bytes_delivered: usize,
    mismatches: usize,
    /// rules of the specification exercised by the scenarios of class ok
    features: BTreeMap<String, usize>,
}

impl Stats {
    fn merge(&mut self, o: Stats) {
        self.n += o.n;
        self.runs += o.runs;
        self.parses += o.parses;
        self.nontrivial += o.nontrivial;
        self.docs_checked += o.docs_checked;
        self.bytes_delivered += o.bytes_delivered;
        self.mismatches += o.mismatches;
        for (k, v) in o.by_class {
            *self.by_class.entry(k).or_default() += v;
        }
        for (k, v) in o.by_place {
            *self.by_place.entry(k).or_default() += v;
        }
        for (k, v) in o.by_fam {
            *self.by_fam.entry(k).or_default() += v;
        }
        for (k, v) in o.features {
            *self.features.entry(k).or_default() += v;
        }
    }
    fn json(&self) -> Value {
        json!({"scenarios": self.n, "shell_runs": self.runs, "parses": self.parses, "by_class": self.by_class,
               "by_place": self.by_place, "by_family": self.by_fam, "nontrivial": self.nontrivial,
               "docs_checked": self.docs_checked, "bytes_delivered": self.bytes_delivered,
               "mismatches": self.mismatches, "features": self.features})
    }
}

fn odd_trailing_backslashes(l: &str) -> bool {
    l.chars().rev().take_while(|&c| c == '\\').count() % 2 == 1
}

/// Rules of the specification a scenario of class ok exercises (for the evidence).
fn features(sc: &Scen, e: &Value) -> Vec<String> {
    let mut f = vec![format!("shape/{}", sc.shape), format!("nops/{}", sc.ops.len())];
    let docs = e["docs"].as_array().cloned().unwrap_or_default();
    let rd_data: Vec<String> = e["groups"]
        .as_array()
        .into_iter()
        .flatten()
        .flat_map(|g| g.as_array().cloned().unwrap_or_default())
        .filter(|ev| ev[0] == "rd")
        .map(|ev| ev[3].as_str().unwrap_or("").to_string())
        .collect();
    for (i, o) in sc.ops.iter().enumerate() {
        let Some(d) = docs.get(i) else { continue };
        let raw = d["raw"].as_str().unwrap_or("");
        let q = d["q"].as_bool().unwrap_or(false);
        f.push(format!("op/{}/{}", if o.strip { "<<-" } else { "<<" }, if q { "quoted" } else { "unquoted" }));
        f.push(format!("fd/{}", o.fd));
        if raw.is_empty() {
            f.push("body/empty".into());
        }
        if o.strip && sc.lines.iter().any(|l| l.starts_with('\t')) {
            f.push("strip/line-with-leading-tab".into());
        }
        if !o.strip && raw.split('\n').any(|l| l.starts_with('\t')) {
            f.push("nostrip/tab-kept".into());
        }
        if !q && sc.lines.iter().any(|l| odd_trailing_backslashes(l)) {
            f.push("unquoted/line-continuation".into());
        }
        if q && raw.contains('$') {
            f.push("quoted/dollar-literal".into());
        }
        if !q && !rd_data.is_empty() && !rd_data.iter().any(|x| x == raw) && raw.contains(['$', '`', '\\']) {
            f.push("unquoted/content-differs-from-text".into());
        }
        if o.word.len() > 1 && o.word != d["d"].as_str().unwrap_or("") {
            f.push("delimiter/quote-removal".into());
        }
    }
    if sc.ops.len() > 1 && sc.ops.iter().enumerate().any(|(i, o)| sc.ops[..i].iter().any(|p| p.fd == o.fd)) {
        f.push("same-fd-twice".into());
    }
    if e["groups"].as_array().into_iter().flatten().any(|g| g.as_array().map(|a| a.len() > 1).unwrap_or(false)) {
        f.push("events/unordered-group".into());
    }
    if e["groups"].as_array().into_iter().flatten().flat_map(|g| g.as_array().cloned().unwrap_or_default())
        .any(|ev| ev[0] == "probe" && (ev.get(1).map(|x| x == "k").unwrap_or(false) || ev.as_array().map(|a| a.len() == 1).unwrap_or(false)))
    {
        f.push("rest/probe-line-runs".into());
    }
    f.sort();
    f.dedup();
    f
}

/// spec -> impl: one generated scenario.  Returns mismatch records.
fn replay_one(e: &Value, st: &mut Stats) -> Vec<Value> {
    let sc = Scen::from_json(e);
    let lines = strs(&e["script"]);
    let nl = e["nl"].as_bool().unwrap();
    let class = e["class"].as_str().unwrap();
    let text = run::script_text(&lines, nl);
    st.n += 1;
    *st.by_class.entry(class.to_string()).or_default() += 1;
    *st.by_fam.entry(e["fam"].as_str().unwrap_or("?").to_string()).or_default() += 1;
    let mut out = Vec::new();
    let mut report = |symptom: &str, detail: String, obs: Value| {
        out.push(json!({
            "key": {"dir": "spec->impl", "place": sc.place, "shape": sc.shape, "symptom": symptom,
                    "ops": sc.ops.iter().map(|o| format!("{}{}{}{}", o.fd, if o.strip { "<<-" } else { "<<" },
                                                         if o.sp { " " } else { "" }, o.word)).collect::<Vec<_>>().join(" "),
                    "lines": sc.lines.join("\n")},
            "detail": detail, "sc": sc.to_json(), "script": lines, "nl": nl, "class": class,
            "exp": {"groups": e["groups"], "out": e["out"], "docs": e["docs"], "printed": e["printed"]},
            "obs": obs,
        }));
    };

    let parsed: Parsed = run::parse(&text);
    st.parses += 1;
    if parsed.res.starts_with("panic") {
        report("parser-panic", format!("the parser panicked: {}", parsed.res), json!({"parse": parsed.res}));
        st.mismatches += 1;
        return out;
    }
    if class != "ok" {
        // nothing is specified beyond: the shell terminates without panicking
        for m in MODES {
            let o = run::run_mode(&text, m);
            st.runs += 1;
            if bad_outcome(&o.outcome) {
                report("outcome", format!("mode {}: outcome {}", m.name(), o.outcome), obs_json(m.name(), &o));
                st.mismatches += 1;
            }
        }
        return out;
    }
    *st.by_place.entry(sc.place.clone()).or_default() += 1;
    for ft in features(&sc, e) {
        *st.features.entry(ft).or_default() += 1;
    }
    let groups: Vec<Vec<Vec<String>>> =
        e["groups"].as_array().unwrap().iter().map(|g| g.as_array().unwrap().iter().map(strs).collect()).collect();
    let exp_out = e["out"].as_str().unwrap();
    if groups.iter().flatten().any(|ev| ev[0] == "rd" && !ev[3].is_empty()) || !exp_out.is_empty() {
        st.nontrivial += 1;
    }
    st.bytes_delivered += groups.iter().flatten().filter(|ev| ev[0] == "rd").map(|ev| ev[3].len()).sum::<usize>();
    // (the parse knows no aliases: its verdict on an alias scenario means nothing)
    if parsed.res != "ok" && sc.place != "alias" {
        let o = run::run_mode(&text, MODES[0]);
        st.runs += 1;
        report(
            "syntax-error",
            format!("the parser rejects the script: {}", parsed.res),
            json!({"parse": parsed.res, "runs": [obs_json(MODES[0].name(), &o)]}),
        );
        st.mismatches += 1;
        return out;
    }
    // subst / alias / eval: the here-document is not in the tree of the script itself
    if !matches!(sc.place.as_str(), "subst" | "alias" | "eval") {
        st.docs_checked += 1;
        let exp_docs = &e["docs"];
        let got_docs = run::docs_json(&parsed.docs);
        if *exp_docs != got_docs {
            report("docs", "here-document nodes of the syntax tree differ".into(), json!({"docs": got_docs}));
            st.mismatches += 1;
        }
        let exp_pr = strs(&e["printed"]);
        if exp_pr != parsed.printed {
            report("printed", "printed form of the commands differs".into(), json!({"printed": parsed.printed}));
            st.mismatches += 1;
        }
    }
    for m in MODES {
        let o = run::run_mode(&text, m);
        st.runs += 1;
        let sym = if bad_outcome(&o.outcome) {
            "outcome"
        } else if !match_groups(&o.ev, &groups) {
            "events"
        } else if o.out != exp_out {
            "stdout"
        } else {
            continue;
        };
        report(sym, format!("mode {}: {} differ from the specification", m.name(), sym), obs_json(m.name(), &o));
        st.mismatches += 1;
        break;
    }
    out
}

/// impl -> spec: the record of one scenario
fn record_of(sc: &Scen, st: &mut Stats) -> Value {
    let lines = scen::script(sc);
    let text = run::script_text(&lines, sc.nl);
    let parsed = run::parse(&text);
    st.parses += 1;
    let mut runs = Vec::new();
    for m in MODES {
        let o = run::run_mode(&text, m);
        st.runs += 1;
        runs.push(json!({"mode": m.name(), "outcome": o.outcome, "ev": o.ev, "out": o.out}));
    }
    st.n += 1;
    *st.by_place.entry(sc.place.clone()).or_default() += 1;
    json!({"sc": sc.to_json(), "script": lines, "runs": runs, "pres": parsed.res,
           "docs": run::docs_json(&parsed.docs), "printed": parsed.printed})
}

fn par_map<T: Send + Sync, F>(items: &[T], threads: usize, out: &Mutex<Box<dyn Write + Send>>, f: F) -> Stats
where
    F: Fn(&T, &mut Stats) -> Vec<Value> + Sync,
{
    let next = AtomicUsize::new(0);
    let total = Mutex::new(Stats::default());
    std::thread::scope(|s| {
        for _ in 0..threads.max(1) {
            s.spawn(|| {
                util::quiet_panics();
                let mut st = Stats::default();
                let mut buf: Vec<u8> = Vec::new();
                loop {
                    let i = next.fetch_add(64, Ordering::Relaxed);
                    if i >= items.len() {
                        break;
                    }
                    for it in &items[i..(i + 64).min(items.len())] {
                        for v in f(it, &mut st) {
                            buf.extend_from_slice(v.to_string().as_bytes());
                            buf.push(b'\n');
                        }
                    }
                    if buf.len() > 1 << 16 {
                        out.lock().unwrap().write_all(&buf).unwrap();
                        buf.clear();
                    }
                }
                out.lock().unwrap().write_all(&buf).unwrap();
                total.lock().unwrap().merge(st);
            });
        }
    });
    out.lock().unwrap().flush().unwrap();
    total.into_inner().unwrap()
}

fn open_out_send(args: &[String]) -> Mutex<Box<dyn Write + Send>> {
    let p = opt(args, "--out").expect("--out");
    Mutex::new(Box::new(std::io::BufWriter::with_capacity(1 << 20, std::fs::File::create(p).expect("create --out"))))
}

fn main() {
    let args: Vec<String> = std::env::args().skip(1).collect();
    let threads = opt_usize(&args, "--threads", 8);
    util::quiet_panics();
    match args.first().map(|s| s.as_str()) {
        Some("replay") => {
            let input = util::open_in(&args);
            let items: Vec<Value> = input
                .lines()
                .map(|l| l.expect("read"))
                .filter(|l| !l.trim().is_empty())
                .map(|l| serde_json::from_str(&l).expect("scenario json"))
                .collect();
            let out = open_out_send(&args);
            let st = par_map(&items, threads, &out, replay_one);
            println!("{}", st.json());
        }
        Some("random") => {
            let n = opt_usize(&args, "--n", 1000);
            let seed = util::seed();
            let mut rng = rand::rngs::StdRng::seed_from_u64(seed.wrapping_mul(0x9e37_79b9).wrapping_add(303));
            let items: Vec<Scen> = (0..n).map(|_| scen::random_scen(&mut rng)).collect();
            let out = open_out_send(&args);
            let st = par_map(&items, threads, &out, |sc, st| vec![record_of(sc, st)]);
            println!("{}", st.json());
        }
        Some("one") => {
            let p = opt(&args, "--in").expect("--in");
            let v: Value = serde_json::from_str(&std::fs::read_to_string(p).expect("read --in")).expect("json");
            let sc = Scen::from_json(if v.get("sc").is_some() { &v["sc"] } else { &v });
            let mut st = Stats::default();
            let rec = record_of(&sc, &mut st);
            let mut out = util::open_out(&args);
            writeln!(out, "{rec}").unwrap();
            if args.iter().any(|a| a == "--show") {
                eprintln!("{}", run::script_text(&scen::script(&sc), sc.nl));
                for m in MODES {
                    let o = run::run_mode(&run::script_text(&scen::script(&sc), sc.nl), m);
                    eprintln!("[{}] {} status={} ev={:?} out={:?}\nstderr: {}", m.name(), o.outcome, o.status, o.ev, o.out, o.stderr);
                }
            }
        }
        _ => {
            eprintln!("usage: yv-g03 replay|random|one ...");
            std::process::exit(2);
        }
    }
}
