//! Conformance harness for specification-growth module g03 (see /verif/DESIGN.md 12.6).
fn main() {
    eprintln!("yv-g03: not implemented yet");
    std::process::exit(2);
}
