//! Conformance harness for property C16 (variable scope, lifetime and
//! attributes), see /verif/DESIGN.md section 6 and spec/VarRef.tla.
mod lang;
mod varset;

fn main() {
    let args: Vec<String> = std::env::args().collect();
    if args.len() < 2 {
        eprintln!("usage: yv-c16 <replay|random|redo|lang> ...");
        std::process::exit(2);
    }
    let rest = &args[2..];
    let code = match args[1].as_str() {
        "replay" => varset::replay(rest),
        "random" => varset::random(rest),
        "redo" => varset::redo(rest),
        "lang" => lang::run(rest),
        other => {
            eprintln!("unknown subcommand {other}");
            2
        }
    };
    std::process::exit(code);
}
