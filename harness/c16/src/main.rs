//! Conformance harness for property C16, see /verif/DESIGN.md.
fn main() {
    eprintln!("yv-c16: not implemented yet");
    std::process::exit(2);
}
