//! C16 phase 1: `yash_env::variable::VariableSet` through its public API.
//!
//! `replay` rebuilds, for every distinct state of the TLC state graph of
//! spec/VarSet.tla, the real `VariableSet` by replaying the state's history,
//! applies every operation of the alphabet to it and records the observed
//! `{pre, op, res, post}`; `random` does the same along long random histories.
//! The records are judged by TLC against spec/VarRef.tla (Trace_VarSet.tla).
//! Nothing is judged here: this file only drives and observes.
//!
//! Observation = for the context stack as it is and as it is after each pop
//! (pops done on a clone): the kind of the topmost context, positional
//! parameters, and for every name `get`, `get_scoped` x3; `iter` x3;
//! `env_c_strings`.
use rand::{Rng, SeedableRng};
use serde_json::{Value as J, json};
use std::io::{BufRead, Write};
use yash_env::source::Location;
use yash_env::variable::{Context, PositionalParams, Scope, Value, Variable, VariableSet};
use yvcommon::util;

/// A real variable set plus the number of contexts the driver has pushed
/// (the context stack itself is not readable through the public API).
#[derive(Clone)]
pub struct Store {
    pub set: VariableSet,
    pub depth: usize,
}

impl Store {
    pub fn new() -> Self {
        Store { set: VariableSet::new(), depth: 1 }
    }
}

/// Pushes a context and keeps it: the guard is forgotten instead of dropped.
fn push(set: &mut VariableSet, context: Context) {
    std::mem::forget(set.push_context(context));
}

/// Pops the topmost context by dropping a real `ContextGuard`: a guard is
/// obtained from a scratch set, the set under test is moved behind it
/// (`DerefMut`), and the guard is dropped.
fn pop(set: &mut VariableSet) {
    let mut holder = VariableSet::new();
    {
        let mut guard = holder.push_context(Context::default());
        *guard = std::mem::take(set);
        VariableSet::pop_context(guard);
    }
    *set = holder;
}

fn scope_of(s: &str) -> Scope {
    match s {
        "Global" => Scope::Global,
        "Local" => Scope::Local,
        "Volatile" => Scope::Volatile,
        _ => panic!("bad scope {s}"),
    }
}

/// A variable as the compact string the specification also computes
/// (`VarStr` in spec/VarRef.tla): "-" = no such variable, otherwise
/// ["E" if exported]["R" if read-only]["=" value if it has a value].
fn var_json(v: Option<&Variable>) -> J {
    match v {
        None => json!("-"),
        Some(v) => {
            let mut s = String::new();
            if v.is_exported {
                s.push('E');
            }
            if v.is_read_only() {
                s.push('R');
            }
            match &v.value {
                None => {}
                Some(Value::Scalar(x)) => {
                    s.push('=');
                    s.push_str(x);
                }
                Some(Value::Array(a)) => {
                    s.push_str("=ARRAY:");
                    s.push_str(&a.join(":"));
                }
            }
            json!(s)
        }
    }
}

fn absent() -> J {
    json!("-")
}

fn no_old() -> J {
    json!("-")
}

fn old_json(v: Option<Value>) -> J {
    match v {
        None => json!("-"),
        Some(Value::Scalar(s)) => json!(format!("={s}")),
        Some(Value::Array(a)) => json!(format!("=ARRAY:{}", a.join(":"))),
    }
}

fn strings(v: &J) -> Vec<String> {
    v.as_array()
        .map(|a| a.iter().map(|s| s.as_str().unwrap_or("").to_string()).collect())
        .unwrap_or_default()
}

/// Is the topmost context volatile?  `get_or_new(.., Scope::Volatile)` is
/// documented to panic exactly when it is not; probed on a clone.
fn top_is_volatile(set: &VariableSet) -> bool {
    let mut c = set.clone();
    util::catch(move || {
        c.get_or_new("probe", Scope::Volatile);
    })
    .is_ok()
}

fn iter_json(set: &VariableSet, scope: Scope) -> J {
    let mut v: Vec<String> = set
        .iter(scope)
        .map(|(n, var)| format!("{}:{}", n, var_json(Some(var)).as_str().unwrap()))
        .collect();
    v.sort();
    json!(v)
}

fn env_json(set: &VariableSet) -> J {
    let mut v: Vec<String> = set
        .env_c_strings()
        .into_iter()
        .map(|c| c.to_string_lossy().into_owned())
        .collect();
    v.sort();
    json!(v)
}

fn level_json(set: &VariableSet, names: &[String]) -> J {
    let vars: Vec<J> = names
        .iter()
        .map(|n| {
            json!([
                var_json(set.get(n.as_str())),
                var_json(set.get_scoped(n.as_str(), Scope::Local)),
                var_json(set.get_scoped(n.as_str(), Scope::Volatile)),
            ])
        })
        .collect();
    json!({
        "k": if top_is_volatile(set) { "V" } else { "R" },
        "p": set.positional_params().values,
        "v": vars,
        "ig": iter_json(set, Scope::Global),
        "il": iter_json(set, Scope::Local),
        "iv": iter_json(set, Scope::Volatile),
        "e": env_json(set),
    })
}

/// The observable projection: one level per context, base first.
pub fn observe(st: &Store, names: &[String]) -> J {
    let mut levels = Vec::with_capacity(st.depth);
    let mut c = st.set.clone();
    let mut d = st.depth;
    loop {
        levels.push(level_json(&c, names));
        if d <= 1 {
            break;
        }
        pop(&mut c);
        d -= 1;
    }
    levels.reverse();
    J::Array(levels)
}

/// Applies one operation of the alphabet; returns the call's result.
/// Panics of the code under test propagate to the caller (`step`).
fn apply(st: &mut Store, op: &J) -> J {
    let name = op["op"].as_str().unwrap();
    match name {
        "gon" => {
            let n = op["n"].as_str().unwrap();
            let mut r = st.set.get_or_new(n, scope_of(op["scope"].as_str().unwrap()));
            let ret = var_json(Some(&*r));
            match op["then"].as_str().unwrap() {
                "none" => json!({"st": "ok", "ret": ret, "old": no_old()}),
                "assign" => match r.assign(op["val"].as_str().unwrap(), None) {
                    Ok((old, _)) => json!({"st": "ok", "ret": ret, "old": old_json(old)}),
                    Err(_) => json!({"st": "err", "ret": ret, "old": no_old()}),
                },
                "export" => {
                    r.export(op["flag"].as_bool().unwrap());
                    json!({"st": "ok", "ret": ret, "old": no_old()})
                }
                "ro" => {
                    r.make_read_only(Location::dummy("readonly"));
                    json!({"st": "ok", "ret": ret, "old": no_old()})
                }
                t => panic!("harness: bad follow-up {t}"),
            }
        }
        "unset" => {
            let n = op["n"].as_str().unwrap();
            match st.set.unset(n, scope_of(op["scope"].as_str().unwrap())) {
                Ok(v) => json!({"st": "ok", "ret": var_json(v.as_ref()), "old": no_old()}),
                Err(_) => json!({"st": "err", "ret": absent(), "old": no_old()}),
            }
        }
        "push" => {
            let context = match op["kind"].as_str().unwrap() {
                "R" => Context::Regular {
                    positional_params: PositionalParams {
                        values: strings(&op["pos"]),
                        last_modified_location: None,
                    },
                },
                _ => Context::Volatile,
            };
            push(&mut st.set, context);
            st.depth += 1;
            json!({"st": "ok", "ret": absent(), "old": no_old()})
        }
        "pop" => {
            assert!(st.depth > 1, "harness: pop of the base context requested");
            pop(&mut st.set);
            st.depth -= 1;
            json!({"st": "ok", "ret": absent(), "old": no_old()})
        }
        "setpos" => {
            st.set.positional_params_mut().values = strings(&op["pos"]);
            json!({"st": "ok", "ret": absent(), "old": no_old()})
        }
        other => panic!("harness: unknown op {other}"),
    }
}

/// One observed step from `st` (left untouched): `{op, res, pn, post}` and the
/// successor store.  A panic of the code under test is data.
fn step(st: &Store, op: &J, names: &[String]) -> (J, Store) {
    let mut next = st.clone();
    let r = {
        let nref = &mut next;
        util::catch(move || apply(nref, op))
    };
    match r {
        Ok(res) => {
            let post = observe(&next, names);
            (json!({"op": op, "res": res, "pn": false, "post": post}), next)
        }
        Err(msg) => {
            // nothing is required of the state after a panic; keep the
            // pre-state as the successor so that the history can go on
            let post = observe(st, names);
            (
                json!({"op": op, "res": {"st": "panic", "ret": absent(), "old": no_old()},
                       "pn": true, "post": post, "panic": msg}),
                st.clone(),
            )
        }
    }
}

fn list(args: &[String], name: &str, default: &str) -> Vec<String> {
    util::opt(args, name)
        .unwrap_or(default)
        .split(',')
        .filter(|s| !s.is_empty())
        .map(|s| s.to_string())
        .collect()
}

fn pos_vals(args: &[String]) -> Vec<Vec<String>> {
    match util::opt(args, "--pos").unwrap_or("none") {
        "some" => vec![vec![], vec!["1".into()], vec!["2".into(), "3".into()]],
        _ => vec![vec![]],
    }
}

/// The operation alphabet of spec/VarRef.tla (`Ops`).
fn alphabet(names: &[String], vals: &[String], pos: &[Vec<String>]) -> Vec<J> {
    let mut v = vec![];
    for n in names {
        for scope in ["Global", "Local", "Volatile"] {
            let g = |then: &str, val: &str, flag: bool| json!({"op": "gon", "n": n, "scope": scope, "then": then, "val": val, "flag": flag});
            v.push(g("none", "", false));
            for val in vals {
                v.push(g("assign", val, false));
            }
            v.push(g("export", "", true));
            v.push(g("export", "", false));
            v.push(g("ro", "", false));
            v.push(json!({"op": "unset", "n": n, "scope": scope}));
        }
    }
    for p in pos {
        v.push(json!({"op": "push", "kind": "R", "pos": p}));
        v.push(json!({"op": "setpos", "pos": p}));
    }
    v.push(json!({"op": "push", "kind": "V", "pos": []}));
    v.push(json!({"op": "pop"}));
    v
}

fn legal(st: &Store, op: &J) -> bool {
    op["op"] != "pop" || st.depth > 1
}

/// `replay --names x,y --vals a,b --pos none|some --in states.ndjson --out trace.ndjson`
pub fn replay(args: &[String]) -> i32 {
    util::quiet_panics();
    let names = list(args, "--names", "x");
    let vals = list(args, "--vals", "a,b");
    let ops = alphabet(&names, &vals, &pos_vals(args));
    let mut out = util::open_out(args);
    let (mut states, mut steps, mut broken) = (0u64, 0u64, 0u64);
    for line in util::open_in(args).lines() {
        let line = line.unwrap();
        if line.trim().is_empty() {
            continue;
        }
        let v: J = serde_json::from_str(&line).expect("json");
        let hist = v["h"].as_array().expect("h").clone();
        // rebuild the state; every step of the history is itself one of the
        // (state, op) pairs recorded from the state it starts in
        let mut st = Store::new();
        let mut ok = true;
        for op in &hist {
            if !legal(&st, op) {
                ok = false;
                break;
            }
            let (_, next) = step(&st, op, &names);
            st = next;
        }
        if !ok {
            broken += 1;
            continue;
        }
        states += 1;
        let pre = observe(&st, &names);
        let mut recs = vec![];
        for op in &ops {
            if !legal(&st, op) {
                continue;
            }
            steps += 1;
            recs.push(step(&st, op, &names).0);
        }
        writeln!(out, "{}", json!({"h": hist, "chain": false, "pre": pre, "steps": recs})).unwrap();
    }
    out.flush().unwrap();
    eprintln!("{}", json!({"states": states, "steps": steps, "illegal_histories": broken}));
    0
}

fn random_op(rng: &mut rand::rngs::StdRng, st: &Store, ops: &[J], maxdepth: usize) -> J {
    loop {
        // structure operations are few in the alphabet; give them weight
        let r = rng.gen_range(0..100);
        let op = if r < 10 {
            json!({"op": "pop"})
        } else if r < 16 {
            json!({"op": "push", "kind": "V", "pos": []})
        } else {
            ops[rng.gen_range(0..ops.len())].clone()
        };
        if !legal(st, &op) || (op["op"] == "push" && st.depth >= maxdepth) {
            continue;
        }
        return op;
    }
}

/// One random history; calls `f(index, pre-store, op)` for each step taken.
fn random_run(seed: u64, run: u64, steps: usize, maxdepth: usize, ops: &[J], names: &[String],
              mut f: impl FnMut(usize, &Store, &J, J)) {
    let mut rng = rand::rngs::StdRng::seed_from_u64(seed.wrapping_mul(1_000_003).wrapping_add(run));
    let mut st = Store::new();
    for i in 0..steps {
        let op = random_op(&mut rng, &st, ops, maxdepth);
        let (rec, next) = step(&st, &op, names);
        f(i, &st, &op, rec);
        st = next;
    }
}

/// `random --names x,y,z --vals a,b,c --pos some --steps S --runs R --maxdepth D --out trace.ndjson`
/// Long random histories beyond the exhaustive bounds; records of `--chunk`
/// chained steps (the pre-state of a step is the post-state of the previous).
pub fn random(args: &[String]) -> i32 {
    util::quiet_panics();
    let names = list(args, "--names", "x,y,z");
    let vals = list(args, "--vals", "a,b,c");
    let ops = alphabet(&names, &vals, &pos_vals(args));
    let steps = util::opt_usize(args, "--steps", 500);
    let runs = util::opt_usize(args, "--runs", 10) as u64;
    let maxdepth = util::opt_usize(args, "--maxdepth", 6);
    let chunk = util::opt_usize(args, "--chunk", 10);
    let seed = util::opt(args, "--seed").and_then(|s| s.parse().ok()).unwrap_or_else(util::seed);
    let mut out = util::open_out(args);
    let mut written = 0u64;
    for run in 0..runs {
        let mut pre = J::Null;
        let mut at = 0usize;
        let mut recs: Vec<J> = vec![];
        random_run(seed, run, steps, maxdepth, &ops, &names, |i, st, _op, rec| {
            if recs.is_empty() {
                pre = observe(st, &names);
                at = i;
            }
            recs.push(rec);
            written += 1;
            if recs.len() >= chunk {
                writeln!(out, "{}", json!({"run": run, "at": at, "seed": seed, "chain": true, "pre": pre,
                                           "steps": std::mem::take(&mut recs)})).unwrap();
            }
        });
        if !recs.is_empty() {
            writeln!(out, "{}", json!({"run": run, "at": at, "seed": seed, "chain": true, "pre": pre, "steps": recs})).unwrap();
        }
    }
    out.flush().unwrap();
    eprintln!("{}", json!({"steps": written}));
    0
}

/// `redo --in replay.ndjson --out trace.ndjson`: re-executes recorded steps on
/// the current tree.  Input lines: `{"names": [...], "h": [...ops], "op": op}`
/// (history from the initial state) or `{"names": [...], "random": {seed, run,
/// upto, vals, pos, maxdepth}}` (step `upto` of a random history).
pub fn redo(args: &[String]) -> i32 {
    util::quiet_panics();
    let mut out = util::open_out(args);
    for line in util::open_in(args).lines() {
        let line = line.unwrap();
        if line.trim().is_empty() {
            continue;
        }
        let v: J = serde_json::from_str(&line).expect("json");
        let names = strings(&v["names"]);
        if let Some(r) = v.get("random") {
            let vals = strings(&r["vals"]);
            let pos = pos_vals(&["--pos".to_string(), r["pos"].as_str().unwrap_or("none").to_string()]);
            let ops = alphabet(&names, &vals, &pos);
            let upto = r["upto"].as_u64().unwrap() as usize;
            let mut found = None;
            random_run(r["seed"].as_u64().unwrap(), r["run"].as_u64().unwrap(), upto + 1,
                       r["maxdepth"].as_u64().unwrap() as usize, &ops, &names, |i, st, _op, rec| {
                if i == upto {
                    found = Some(json!({"chain": false, "pre": observe(st, &names), "steps": [rec]}));
                }
            });
            writeln!(out, "{}", found.expect("step")).unwrap();
            continue;
        }
        let mut st = Store::new();
        for op in v["h"].as_array().unwrap() {
            if !legal(&st, op) {
                eprintln!("illegal history");
                return 2;
            }
            st = step(&st, op, &names).1;
        }
        let pre = observe(&st, &names);
        let rec = step(&st, &v["op"], &names).0;
        writeln!(out, "{}", json!({"h": v["h"], "chain": false, "pre": pre, "steps": [rec]})).unwrap();
    }
    out.flush().unwrap();
    0
}
