//! Conformance harness for specification-growth module G01: the `cd` and
//! `pwd` built-ins and the shell's notion of the working directory
//! (spec/CdPwd.tla).
//!
//! `replay`  spec -> impl: reads the lines TLC printed from spec/Gen_CdPwd.tla
//!           (one per reachable state: tree, start of the shell, witness steps
//!           leading to the state, and the fan = every step tried in the state
//!           with the outcome CdPwd.tla allows).  For every (state, step) one
//!           subshell of the real shell runs the witness, `obs` (state reached?),
//!           the step, `obs`, `pwd -L`, `obs`, `pwd -P`, `obs`, and the
//!           observations ($?, standard output, $PWD, $OLDPWD, the process's
//!           working directory) are compared with the allowed outcome.  Every
//!           case runs on the real file system (inside a chroot into a scratch
//!           directory, so that absolute pathnames mean the same as in the
//!           model) and, for trees without symbolic links, on the simulated
//!           file system (the simulator does not follow symbolic links in
//!           directory prefixes: known findings C05-F2 / C19).
//! `random`  impl -> spec: seeded random trees and long random cd / pwd
//!           sequences, run by one shell process each, recorded for
//!           validation by spec/Trace_CdPwd.tla.
//! `redo`    re-executes recorded cases (replay files, anti-vacuity tests).
use rand::rngs::StdRng;
use rand::{Rng, SeedableRng};
use serde_json::{Value, json};
use std::collections::{HashMap, HashSet};
use std::io::{BufRead, Write};
use std::pin::Pin;
use std::rc::Rc;
use std::sync::Mutex;
use std::sync::atomic::{AtomicUsize, Ordering};
use yash_cli::startup::args::Parse;
use yash_env::Env;
use yash_env::RealSystem;
use yash_env::builtin::{Builtin, Result as BResult, Type};
use yash_env::io::Fd;
use yash_env::semantics::{Field, exit_or_raise};
use yash_env::system::{Concurrent, Disposition, Sigaction as _, Signals as _};
use yvcommon::real::{RealCfg, run_real};
use yvcommon::sched::Outcome;
use yvcommon::shell::{EVENT_FILE, FileSpec, ShellCfg, ShellSystem, Sys, push_event, register_generic_probes, run_shell, shell_body};
use yvcommon::util::{catch, open_in, open_out, opt, opt_usize};

// ---------------------------------------------------------------------------
// the observation point
// ---------------------------------------------------------------------------
static REAL_CHILD: std::sync::atomic::AtomicBool = std::sync::atomic::AtomicBool::new(false);

/// `obs TAG [args...]`: records TAG, the arguments, `$?` and the working
/// directory of the process (real OS: getcwd(3) of this process; simulated OS:
/// the cwd of the simulated process), writes the line `#TAG` to standard
/// output (so that the output of the commands before it can be cut out) and
/// leaves `$?` unchanged.
fn obs_main<S: ShellSystem>(env: &mut Env<S>, args: Vec<Field>) -> Pin<Box<dyn Future<Output = BResult> + '_>> {
    Box::pin(async move {
        let tag = args.first().map(|f| f.value.clone()).unwrap_or_default();
        let rest: Vec<String> = args.iter().skip(1).map(|f| f.value.clone()).collect();
        let cwd = if REAL_CHILD.load(Ordering::SeqCst) {
            match std::env::current_dir() {
                Ok(p) => p.to_string_lossy().into_owned(),
                Err(e) => format!("!{e}"),
            }
        } else {
            match env.system.getcwd() {
                Ok(p) => p.to_string_lossy().into_owned(),
                Err(e) => format!("!{e:?}"),
            }
        };
        push_event(json!({"ev": "obs", "tag": tag, "args": rest, "st": env.exit_status.0, "cwd": cwd}));
        let _ = env.system.write_all(Fd::STDOUT, format!("#{tag}\n").as_bytes()).await;
        BResult::new(env.exit_status)
    })
}

/// The shell child on the real OS: confined to the scratch directory (so that
/// "/" is the root of the modelled tree), started in the given directory,
/// otherwise `yvcommon::real`'s mirror runner plus the `obs` built-in.
fn real_child_main(cwd: String) -> ! {
    let dot = std::ffi::CString::new(".").unwrap();
    let c = std::ffi::CString::new(cwd).unwrap();
    let rc = unsafe { libc::chroot(dot.as_ptr()) };
    let rc2 = unsafe { libc::chdir(c.as_ptr()) };
    if rc != 0 || rc2 != 0 {
        eprintln!("yv-g01: chroot/chdir failed");
        std::process::exit(97);
    }
    REAL_CHILD.store(true, Ordering::SeqCst);
    if let Ok(p) = std::env::var("YV_EVENTS") {
        EVENT_FILE.with(|f| *f.borrow_mut() = Some(p));
    }
    // SAFETY: single-threaded at this point
    unsafe {
        std::env::remove_var("YV_EVENTS");
        std::env::remove_var("YV_CHILD");
        std::env::remove_var("YV_G01_CWD");
    }
    // SAFETY: the only RealSystem in this process
    let system = unsafe { RealSystem::new() };
    system.sigaction(RealSystem::SIGPIPE, Disposition::Default).ok();
    let system = Rc::new(Concurrent::new(system));
    let runner = Rc::clone(&system);
    let task = async {
        let mut env = Env::with_system(system);
        match yash_cli::startup::args::parse(std::env::args()) {
            Ok(Parse::Run(run)) => {
                env.variables.extend_env(std::env::vars());
                shell_body(&mut env, run, |env| {
                    register_generic_probes(env);
                    env.builtins.insert("obs", Builtin::new(Type::Mandatory, obs_main::<Rc<Concurrent<RealSystem>>>));
                })
                .await;
            }
            _ => env.exit_status = yash_env::semantics::ExitStatus(2),
        }
        exit_or_raise(&env.system, env.exit_status).await
    };
    runner.run_real(task)
}

// ---------------------------------------------------------------------------
// trees, starts, scripts
// ---------------------------------------------------------------------------
fn strs(v: &Value) -> Vec<String> {
    v.as_array().map(|a| a.iter().map(|s| s.as_str().unwrap_or("").to_string()).collect()).unwrap_or_default()
}

fn node_path(n: &Value) -> String {
    let p = strs(&n["p"]);
    if p.is_empty() { "/".to_string() } else { format!("/{}", p.join("/")) }
}

fn has_links(nodes: &Value) -> bool {
    nodes.as_array().unwrap().iter().any(|n| n["k"] == "l")
}

fn files_of(nodes: &Value) -> Vec<FileSpec> {
    let mut out = vec![];
    for n in nodes.as_array().unwrap() {
        let p = node_path(n);
        if p == "/" {
            continue;
        }
        match n["k"].as_str().unwrap() {
            "d" => out.push(FileSpec::Dir { path: p }),
            "f" => out.push(FileSpec::Regular { path: p, content: b"x".to_vec(), mode: 0o644 }),
            _ => out.push(FileSpec::Symlink { path: p, target: n["to"].as_str().unwrap().to_string() }),
        }
    }
    out
}

fn quote(s: &str) -> String {
    format!("'{}'", s.replace('\'', "'\\''"))
}

/// One step as shell text.  `variant` odd: an empty value is rendered as
/// `unset NAME` (the specification treats unset and empty alike).
fn render_step(step: &Value, variant: usize) -> String {
    let mut s = String::new();
    for a in step["pre"].as_array().unwrap() {
        let name = a[0].as_str().unwrap();
        let val = a[1].as_str().unwrap();
        if name == "readonly" {
            s.push_str(&format!("readonly {val}\n"));
        } else if val.is_empty() && variant % 2 == 1 {
            s.push_str(&format!("unset {name}\n"));
        } else {
            s.push_str(&format!("{name}={}\n", quote(val)));
        }
    }
    s.push_str(step["k"].as_str().unwrap());
    for o in strs(&step["opts"]) {
        s.push(' ');
        s.push_str(&o);
    }
    for a in strs(&step["args"]) {
        s.push(' ');
        s.push_str(&quote(&a));
    }
    s.push('\n');
    s
}

const OBS_VARS: &str = "\"$PWD\" \"${OLDPWD-}\"";

/// Everything one shell process observed: `obs` events by tag, and the lines
/// on standard output before each `#TAG` line.
struct Observed {
    outcome: String,
    ev: HashMap<String, Value>,
    out: HashMap<String, Vec<String>>,
}

fn digest(events: &[Value], stdout: &[u8], outcome: String) -> Observed {
    let mut ev = HashMap::new();
    for e in events {
        if e["ev"] == "obs" {
            ev.insert(e["tag"].as_str().unwrap_or("").to_string(), e.clone());
        }
    }
    let mut out = HashMap::new();
    let mut acc: Vec<String> = vec![];
    for line in String::from_utf8_lossy(stdout).split('\n') {
        if let Some(tag) = line.strip_prefix('#') {
            out.insert(tag.to_string(), std::mem::take(&mut acc));
        } else {
            acc.push(line.to_string());
        }
    }
    Observed { outcome, ev, out }
}

#[derive(Clone, Copy, PartialEq, Eq, Hash, Debug)]
enum Mode {
    Sim,
    Real,
}
impl Mode {
    fn name(self) -> &'static str {
        match self {
            Mode::Sim => "sim",
            Mode::Real => "real",
        }
    }
}

/// Runs `script` in a fresh shell started in `start` on tree `nodes`.
fn run_script(nodes: &Value, start: &Value, script: &str, mode: Mode) -> Observed {
    let cwd = start["cwd"].as_str().unwrap().to_string();
    let mut envv: Vec<(String, String)> = vec![];
    for (k, name) in [("pwd", "PWD"), ("oldpwd", "OLDPWD"), ("home", "HOME"), ("cdpath", "CDPATH")] {
        let v = start["env"][k].as_str().unwrap_or("");
        if !v.is_empty() {
            envv.push((name.to_string(), v.to_string()));
        }
    }
    match mode {
        Mode::Sim => {
            let mut cfg = ShellCfg::stdin_script(script.as_bytes());
            cfg.files = files_of(nodes);
            cfg.cwd = Some(cwd);
            cfg.env = envv;
            cfg.step_limit = 400_000_000;
            cfg.setup = Some(Box::new(|env, _| {
                env.builtins.insert("obs", Builtin::new(Type::Mandatory, obs_main::<Sys>));
            }));
            match catch(move || run_shell(cfg)) {
                Ok(r) => {
                    let outcome = match &r.outcome {
                        Outcome::Completed => "completed".to_string(),
                        _ => r.outcome_str(),
                    };
                    digest(&r.events, &r.stdout, outcome)
                }
                Err(msg) => digest(&[], b"", format!("panic: {msg}")),
            }
        }
        Mode::Real => {
            let mut cfg = RealCfg::command("", true);
            cfg.args = vec![];
            cfg.stdin = script.as_bytes().to_vec();
            cfg.files = files_of(nodes);
            // `pwd` is a substitutive built-in: found only if $PATH holds an executable
            cfg.files.push(FileSpec::Regular { path: "/bin/pwd".into(), content: b"#!/bin/false\n".to_vec(), mode: 0o755 });
            cfg.timeout = std::time::Duration::from_secs(300);
            cfg.env = envv;
            cfg.env.push(("PATH".into(), "/bin".into()));
            cfg.env.push(("YV_CHILD".into(), "none".into()));
            cfg.env.push(("YV_G01_CWD".into(), cwd));
            cfg.env.push(("YV_EVENTS".into(), "/.yv-events".into()));
            let r = run_real(&cfg);
            let mut events: Vec<Value> = r.events.clone();
            for (name, content) in &r.files {
                if name == ".yv-events" {
                    for l in String::from_utf8_lossy(content).lines() {
                        if let Ok(v) = serde_json::from_str(l) {
                            events.push(v);
                        }
                    }
                }
            }
            let outcome = if r.timed_out {
                "timeout".to_string()
            } else if r.status != 0 {
                format!("status {}: {}", r.status, String::from_utf8_lossy(&r.stderr).chars().take(300).collect::<String>())
            } else {
                "completed".to_string()
            };
            digest(&events, &r.stdout, outcome)
        }
    }
}

/// The simulated `chdir` stores the joined pathname unresolved (known finding
/// C19-getcwd-not-canonical): once the simulated working directory holds a
/// dot component or a redundant slash the simulator no longer tells what the
/// built-ins did, and the case is skipped on the simulator (and counted).
fn sim_dirty(cwd: &str) -> bool {
    !cwd.starts_with('/')
        || cwd.contains("//")
        || (cwd.len() > 1 && cwd.ends_with('/'))
        || cwd.split('/').any(|c| c == "." || c == "..")
}

// ---------------------------------------------------------------------------
// replay (spec -> impl)
// ---------------------------------------------------------------------------
fn case_script(st: &Value, step: &Value, id: &str, variant: usize) -> String {
    let mut s = String::from("(\n");
    for (j, wstep) in st["w"].as_array().unwrap().iter().enumerate() {
        s.push_str(&render_step(wstep, variant + j));
    }
    s.push_str(&format!("obs S{id} {OBS_VARS}\n"));
    s.push_str(&render_step(step, variant));
    s.push_str(&format!("obs O{id} {OBS_VARS}\npwd -L\nobs L{id}\npwd -P\nobs P{id}\n)\n"));
    s
}

#[derive(Default)]
struct Counters {
    cases: usize,
    unspec: usize,
    unreached: usize,
    sim_dirty: usize,
    nontrivial: usize,
    mismatches: usize,
    by_status: HashMap<String, usize>,
    printed: usize,
}

enum Verdict {
    Ok,
    Unspec,
    Dirty,
    StateNotReached(Value),
    Deviation(&'static str, Value),
}

fn obs_of(o: &Observed, tag: &str) -> Option<(i64, String, String, String, Vec<String>)> {
    let e = o.ev.get(tag)?;
    let a = strs(&e["args"]);
    Some((
        e["st"].as_i64().unwrap_or(-1),
        a.first().cloned().unwrap_or_default(),
        a.get(1).cloned().unwrap_or_default(),
        e["cwd"].as_str().unwrap_or("").to_string(),
        o.out.get(tag).cloned().unwrap_or_default(),
    ))
}

fn judge(o: &Observed, st: &Value, exp: &Value, id: &str, mode: Mode) -> Verdict {
    let Some((_, pwd0, old0, cwd0, _)) = obs_of(o, &format!("S{id}")) else {
        return Verdict::Deviation("no-observation", json!({"outcome": o.outcome}));
    };
    if mode == Mode::Sim && sim_dirty(&cwd0) {
        return Verdict::Dirty;
    }
    let s = &st["s"];
    if pwd0 != s["pwd"].as_str().unwrap() || old0 != s["oldpwd"].as_str().unwrap() || cwd0 != s["cwd"].as_str().unwrap() {
        return Verdict::StateNotReached(json!({"pwd": pwd0, "oldpwd": old0, "cwd": cwd0}));
    }
    if exp["unspec"].as_bool().unwrap() {
        return Verdict::Unspec;
    }
    let Some((stt, pwd, old, cwd, out)) = obs_of(o, &format!("O{id}")) else {
        return Verdict::Deviation("no-observation", json!({"outcome": o.outcome}));
    };
    let seen = json!({"st": stt, "out": out, "pwd": pwd, "oldpwd": old, "cwd": cwd});
    if mode == Mode::Sim && sim_dirty(&cwd) {
        return Verdict::Dirty;
    }
    let lo = exp["st"][0].as_i64().unwrap();
    let hi = exp["st"][1].as_i64().unwrap();
    if stt < lo || stt > hi {
        return Verdict::Deviation("status", seen);
    }
    if out != strs(&exp["out"]) {
        return Verdict::Deviation("stdout", seen);
    }
    if cwd != exp["cwd"].as_str().unwrap() {
        return Verdict::Deviation("cwd", seen);
    }
    if pwd != exp["pwd"].as_str().unwrap() {
        return Verdict::Deviation("pwd", seen);
    }
    if old != exp["oldpwd"].as_str().unwrap() {
        return Verdict::Deviation("oldpwd", seen);
    }
    for (tag, key, field) in [("L", "pl", "pwd-L"), ("P", "pp", "pwd-P")] {
        let Some((s2, _, _, _, out2)) = obs_of(o, &format!("{tag}{id}")) else {
            return Verdict::Deviation("no-observation", json!({"outcome": o.outcome, "after": seen}));
        };
        if s2 != 0 || out2 != vec![exp[key].as_str().unwrap().to_string()] {
            return Verdict::Deviation(field, json!({"st": s2, "out": out2, "after": seen}));
        }
    }
    Verdict::Ok
}

fn classify(exp: &Value) -> String {
    if exp["unspec"].as_bool().unwrap() {
        return "unspec".into();
    }
    format!("{}:{}", exp["k"].as_str().unwrap(), exp["st"][0])
}

fn replay(args: &[String]) {
    let chunk = opt_usize(args, "--chunk", 330);
    let threads = opt_usize(args, "--threads", 12);
    let only: Option<&str> = opt(args, "--only");
    // one work item = one state line; the lines are read and parsed on demand
    let input = std::io::BufReader::with_capacity(1 << 20, std::fs::File::open(opt(args, "--in").expect("--in FILE")).expect("open --in"));
    let lines = Mutex::new(input.lines().enumerate());
    let counters: Mutex<HashMap<Mode, Counters>> = Mutex::new(HashMap::new());
    let mismatches: Mutex<Vec<Value>> = Mutex::new(vec![]);
    let samples: Mutex<Vec<Value>> = Mutex::new(vec![]);
    let env_failure: Mutex<Option<String>> = Mutex::new(None);
    let nstates = AtomicUsize::new(0);
    let njobs = AtomicUsize::new(0);
    let skipped_links = AtomicUsize::new(0);
    std::thread::scope(|sc| {
        for _ in 0..threads {
            sc.spawn(|| {
                loop {
                    let item = lines.lock().unwrap().next();
                    let Some((si, line)) = item else { break };
                    let line = line.expect("read");
                    if line.trim().is_empty() {
                        continue;
                    }
                    let st: Value = serde_json::from_str(&line).expect("json line from TLC");
                    drop(line);
                    nstates.fetch_add(1, Ordering::SeqCst);
                    let links = has_links(&st["nodes"]);
                    let nfan = st["fan"].as_array().unwrap().len();
                    let all: Vec<usize> = (0..nfan).collect();
                    let mut modes = vec![];
                    if only != Some("sim") {
                        modes.push(Mode::Real);
                    }
                    if only != Some("real") {
                        if links {
                            skipped_links.fetch_add(nfan, Ordering::SeqCst);
                        } else {
                            modes.push(Mode::Sim);
                        }
                    }
                    let mut state_reported: HashSet<Mode> = HashSet::new();
                    // On the simulator the witness itself often leaves the simulated cwd in a
                    // non-canonical form (e.g. `cd -L /a` in /a is chdir(".")).  Where the
                    // specification says that starting the shell in s.cwd with PWD = s.pwd and
                    // OLDPWD = s.oldpwd in the environment yields exactly s (link-free tree, $PWD
                    // without dot components: Start / ValidPwd), the state is reached that way
                    // (states with a witness only: the starts themselves are cases to check).
                    let direct = {
                        let pwd = st["s"]["pwd"].as_str().unwrap();
                        !links && !st["w"].as_array().unwrap().is_empty() && !sim_dirty(pwd)
                    };
                    let st_direct = if direct {
                        let mut d = st.clone();
                        d["start"] = json!({"cwd": st["s"]["cwd"], "env": {"pwd": st["s"]["pwd"], "oldpwd": st["s"]["oldpwd"], "home": "", "cdpath": ""}});
                        d["w"] = json!([]);
                        Some(d)
                    } else {
                        None
                    };
                    let st_orig = st;
                    for mode in modes {
                        let st = match (&st_direct, mode) {
                            (Some(d), Mode::Sim) => d,
                            _ => &st_orig,
                        };
                        for part in all.chunks(chunk) {
                            njobs.fetch_add(1, Ordering::SeqCst);
                            let mut rest: &[usize] = part;
                            let mut restarts = 0;
                            while !rest.is_empty() {
                                let mut script = String::new();
                                for &k in rest {
                                    script.push_str(&case_script(st, &st["fan"][k], &format!("{si}.{k}"), si + k));
                                }
                                let o = run_script(&st["nodes"], &st["start"], &script, mode);
                                if o.outcome == "timeout" || o.outcome.starts_with("status 97") {
                                    *env_failure.lock().unwrap() = Some(format!("{} run: {}", mode.name(), o.outcome));
                                    return;
                                }
                                // a shell that did not get through the script: blame the first
                                // case without its last observation, go on after it
                                let mut cut = rest.len();
                                if o.outcome != "completed" {
                                    if let Some(k) = rest.iter().position(|k| !o.ev.contains_key(&format!("P{si}.{k}"))) {
                                        cut = k + 1;
                                    }
                                }
                                let mut cs = counters.lock().unwrap();
                                let cn = cs.entry(mode).or_default();
                                for &k in &rest[..cut] {
                                    let exp = &st["fan"][k];
                                    let id = format!("{si}.{k}");
                                    let v = judge(&o, st, exp, &id, mode);
                                    cn.cases += 1;
                                    let record = |field: &str, exp: Value, seen: Value| {
                                        mismatches.lock().unwrap().push(json!({
                                            "mode": mode.name(), "field": field, "tid": st["tid"], "links": links,
                                            "nodes": st["nodes"], "start": st["start"], "w": st["w"], "s": st["s"],
                                            "exp": exp, "seen": seen, "outcome": o.outcome, "variant": si + k,
                                        }));
                                    };
                                    match v {
                                        Verdict::Ok => {
                                            *cn.by_status.entry(classify(exp)).or_default() += 1;
                                            if exp["k"] == "cd" && exp["st"][0] == 0 {
                                                cn.nontrivial += 1;
                                            }
                                            if !strs(&exp["out"]).is_empty() && exp["k"] == "cd" {
                                                cn.printed += 1;
                                                let mut sm = samples.lock().unwrap();
                                                if sm.len() < 6 && (k + si) % 97 == 0 {
                                                    sm.push(json!({"mode": mode.name(), "tree": st["tid"], "state": st["s"],
                                                        "step": render_step(exp, 0), "stdout": exp["out"], "pwd": exp["pwd"], "cwd": exp["cwd"]}));
                                                }
                                            }
                                        }
                                        Verdict::Unspec => cn.unspec += 1,
                                        Verdict::Dirty => cn.sim_dirty += 1,
                                        Verdict::StateNotReached(seen) => {
                                            cn.unreached += 1;
                                            if state_reported.insert(mode) {
                                                cn.mismatches += 1;
                                                record("state", json!({"pre": [], "k": "none", "opts": [], "args": []}), seen);
                                            }
                                        }
                                        Verdict::Deviation(field, seen) => {
                                            cn.mismatches += 1;
                                            record(field, exp.clone(), seen);
                                        }
                                    }
                                }
                                drop(cs);
                                rest = &rest[cut..];
                                restarts += 1;
                                if restarts > 30 {
                                    break;
                                }
                            }
                        }
                    }
                }
            });
        }
    });
    if let Some(msg) = env_failure.lock().unwrap().take() {
        eprintln!("yv-g01: run failed for environmental reasons: {msg}");
        std::process::exit(2);
    }
    let mut out = open_out(args);
    for m in mismatches.lock().unwrap().iter() {
        writeln!(out, "{m}").unwrap();
    }
    out.flush().unwrap();
    let cs = counters.lock().unwrap();
    let cj = |m: Mode| -> Value {
        match cs.get(&m) {
            None => json!({"cases": 0}),
            Some(c) => json!({"cases": c.cases, "unspec": c.unspec, "unreached": c.unreached, "sim_dirty": c.sim_dirty,
                "nontrivial": c.nontrivial, "printed": c.printed, "mismatches": c.mismatches, "by_class": c.by_status}),
        }
    };
    println!(
        "{}",
        json!({"states": nstates.load(Ordering::SeqCst), "jobs": njobs.load(Ordering::SeqCst), "sim": cj(Mode::Sim), "real": cj(Mode::Real),
            "sim_skipped_links": skipped_links.load(Ordering::SeqCst), "samples": *samples.lock().unwrap()})
    );
}

// ---------------------------------------------------------------------------
// random (impl -> spec)
// ---------------------------------------------------------------------------
fn pick<'a, T>(rng: &mut StdRng, xs: &'a [T]) -> &'a T {
    &xs[rng.gen_range(0..xs.len())]
}

struct RTree {
    /// (path components, kind, target)
    nodes: Vec<(Vec<String>, char, String)>,
}

impl RTree {
    fn dirs(&self) -> Vec<Vec<String>> {
        self.nodes.iter().filter(|n| n.1 == 'd').map(|n| n.0.clone()).collect()
    }
    fn to_json(&self) -> Value {
        Value::Array(self.nodes.iter().map(|(p, k, to)| json!({"p": p, "k": k.to_string(), "to": to})).collect())
    }
    fn has(&self, p: &[String]) -> bool {
        self.nodes.iter().any(|n| n.0 == p)
    }
}

fn abs(p: &[String]) -> String {
    if p.is_empty() { "/".into() } else { format!("/{}", p.join("/")) }
}

fn random_tree(rng: &mut StdRng) -> RTree {
    let names = ["a", "b", "c", "d", "e"];
    let mut t = RTree { nodes: vec![(vec![], 'd', String::new())] };
    let ndirs = rng.gen_range(3..8);
    for _ in 0..ndirs {
        let dirs = t.dirs();
        let parent = pick(rng, &dirs).clone();
        if parent.len() >= 3 {
            continue;
        }
        let mut p = parent;
        p.push(pick(rng, &names).to_string());
        if !t.has(&p) {
            t.nodes.push((p, 'd', String::new()));
        }
    }
    // a regular file
    let dirs = t.dirs();
    let mut p = pick(rng, &dirs).clone();
    p.push("f".to_string());
    t.nodes.push((p, 'f', String::new()));
    // symbolic links (half of the trees have none: they also run on the simulator)
    if rng.gen_bool(0.6) {
        let nlinks = rng.gen_range(1..4);
        for (i, lname) in ["l", "m", "k"].iter().enumerate() {
            if i >= nlinks {
                break;
            }
            let dirs = t.dirs();
            let mut p = pick(rng, &dirs).clone();
            let depth = p.len();
            p.push(lname.to_string());
            let target_dir = pick(rng, &dirs).clone();
            let target = match rng.gen_range(0..10) {
                0 => "nowhere".to_string(),
                1 => {
                    // to the regular file
                    abs(&t.nodes.iter().find(|n| n.1 == 'f').unwrap().0)
                }
                2 => "..".to_string(),
                3 | 4 | 5 => abs(&target_dir),
                _ => {
                    // relative: up to the root, then down
                    let mut s = vec!["..".to_string(); depth];
                    s.extend(target_dir.iter().cloned());
                    if s.is_empty() { ".".to_string() } else { s.join("/") }
                }
            };
            t.nodes.push((p, 'l', target));
        }
    }
    t
}

fn random_path(rng: &mut StdRng, t: &RTree) -> String {
    let mut pool: Vec<String> = vec![".".into(), "..".into(), "..".into(), "nx".into()];
    for n in &t.nodes {
        if let Some(last) = n.0.last() {
            pool.push(last.clone());
            pool.push(last.clone());
        }
    }
    let n = rng.gen_range(1..4);
    let mut s = String::new();
    if rng.gen_bool(0.3) {
        s.push('/');
    }
    for i in 0..n {
        if i > 0 {
            s.push_str(if rng.gen_bool(0.06) { "//" } else { "/" });
        }
        s.push_str(pick(rng, &pool));
    }
    if rng.gen_bool(0.1) {
        s.push('/');
    }
    s
}

fn random_step(rng: &mut StdRng, t: &RTree) -> Value {
    let dirs = t.dirs();
    let home = match rng.gen_range(0..6) {
        0 => String::new(),
        1 => random_path(rng, t),
        _ => abs(pick(rng, &dirs)),
    };
    let cdpath = if rng.gen_bool(0.3) {
        let n = rng.gen_range(1..4);
        let items: Vec<String> = (0..n)
            .map(|_| match rng.gen_range(0..6) {
                0 => String::new(),
                1 => ".".into(),
                2 => "..".into(),
                3 => random_path(rng, t),
                _ => abs(pick(rng, &dirs)),
            })
            .collect();
        items.join(":")
    } else {
        String::new()
    };
    let mut pre = vec![json!(["HOME", home]), json!(["CDPATH", cdpath])];
    if rng.gen_bool(0.05) {
        pre.push(json!(["OLDPWD", if rng.gen_bool(0.3) { String::new() } else { random_path(rng, t) }]));
    }
    if rng.gen_bool(0.15) {
        let opts: &[&str] = *pick(rng, &[&[][..], &["-L"][..], &["-P"][..], &["-LP"][..], &["-P", "-L"][..], &["--"][..]]);
        return json!({"pre": pre, "k": "pwd", "opts": opts, "args": []});
    }
    let opts: &[&str] = *pick(
        rng,
        &[&[][..], &[][..], &["-L"][..], &["-L"][..], &["-P"][..], &["-P"][..], &["-P"][..], &["-L", "-P"][..], &["-PL"][..], &["-Pe"][..], &["--"][..], &["-P", "--"][..]],
    );
    let args: Vec<String> = match rng.gen_range(0..20) {
        0 | 1 => vec![],
        2 | 3 | 4 => vec!["-".into()],
        5 => vec![String::new()],
        _ => {
            let mut p = random_path(rng, t);
            while p.starts_with("//") {
                p.remove(0);
            }
            vec![p]
        }
    };
    json!({"pre": pre, "k": "cd", "opts": opts, "args": args})
}

fn sequence_script(steps: &[Value]) -> String {
    let mut s = format!("obs S {OBS_VARS}\n");
    for (i, st) in steps.iter().enumerate() {
        s.push_str(&render_step(st, i));
        s.push_str(&format!("obs O{i} {OBS_VARS}\n"));
    }
    s
}

/// Runs one sequence and returns the trace record (steps cut at the first
/// one that was not observed or - on the simulator - left the simulated
/// working directory in a non-canonical form), plus the number of steps cut.
fn record_sequence(nodes: &Value, start: &Value, steps: &[Value], mode: Mode, id: usize) -> (Value, usize, String) {
    let o = run_script(nodes, start, &sequence_script(steps), mode);
    let cwdp: Vec<String> = start["cwd"].as_str().unwrap().split('/').filter(|c| !c.is_empty()).map(|c| c.to_string()).collect();
    let s0 = match obs_of(&o, "S") {
        Some((_, pwd, old, cwd, _)) => json!({"pwd": pwd, "oldpwd": old, "cwd": cwd, "miss": false}),
        None => json!({"pwd": "", "oldpwd": "", "cwd": "", "miss": true}),
    };
    let mut recs = vec![];
    let mut cutn = 0;
    for (i, st) in steps.iter().enumerate() {
        match obs_of(&o, &format!("O{i}")) {
            Some((stt, pwd, old, cwd, out)) => {
                if mode == Mode::Sim && sim_dirty(&cwd) {
                    cutn = steps.len() - i;
                    break;
                }
                recs.push(json!({"pre": st["pre"], "k": st["k"], "opts": st["opts"], "args": st["args"],
                    "st": stt, "out": out, "pwd": pwd, "oldpwd": old, "cwd": cwd, "miss": false}));
            }
            None => {
                recs.push(json!({"pre": st["pre"], "k": st["k"], "opts": st["opts"], "args": st["args"],
                    "st": -1, "out": [], "pwd": "", "oldpwd": "", "cwd": "", "miss": true}));
                break;
            }
        }
    }
    (
        json!({"id": id, "mode": mode.name(), "nodes": nodes, "cwd": cwdp, "env": start["env"], "s0": s0, "steps": recs,
               "outcome": o.outcome}),
        cutn,
        o.outcome,
    )
}

fn random(args: &[String]) {
    let runs = opt_usize(args, "--runs", 100);
    let len = opt_usize(args, "--len", 14);
    let threads = opt_usize(args, "--threads", 12);
    let seed = yvcommon::util::seed();
    let mut jobs: Vec<(Value, Value, Vec<Value>, usize)> = vec![];
    for id in 0..runs {
        let mut rng = StdRng::seed_from_u64(seed.wrapping_mul(1_000_003).wrapping_add(id as u64));
        let t = random_tree(&mut rng);
        let dirs = t.dirs();
        let cwd = pick(&mut rng, &dirs).clone();
        let envpwd = match rng.gen_range(0..5) {
            0 => String::new(),
            1 => random_path(&mut rng, &t),
            _ => abs(&cwd),
        };
        let envold = if rng.gen_bool(0.3) { abs(pick(&mut rng, &dirs)) } else { String::new() };
        let start = json!({"cwd": abs(&cwd), "env": {"pwd": envpwd, "oldpwd": envold, "home": "", "cdpath": ""}});
        let steps: Vec<Value> = (0..len).map(|_| random_step(&mut rng, &t)).collect();
        jobs.push((t.to_json(), start, steps, id));
    }
    let next = AtomicUsize::new(0);
    let results: Mutex<Vec<(usize, Value)>> = Mutex::new(vec![]);
    let totals: Mutex<(usize, usize, usize)> = Mutex::new((0, 0, 0)); // sim steps cut, sim records, real records
    let env_failure: Mutex<Option<String>> = Mutex::new(None);
    std::thread::scope(|sc| {
        for _ in 0..threads {
            sc.spawn(|| {
                loop {
                    let j = next.fetch_add(1, Ordering::SeqCst);
                    if j >= jobs.len() {
                        break;
                    }
                    let (nodes, start, steps, id) = &jobs[j];
                    let (rec, _, outcome) = record_sequence(nodes, start, steps, Mode::Real, *id);
                    if outcome == "timeout" || outcome.starts_with("status 97") {
                        *env_failure.lock().unwrap() = Some(outcome);
                        return;
                    }
                    results.lock().unwrap().push((*id * 2, rec));
                    totals.lock().unwrap().2 += 1;
                    if !has_links(nodes) {
                        let (rec, cutn, _) = record_sequence(nodes, start, steps, Mode::Sim, *id);
                        results.lock().unwrap().push((*id * 2 + 1, rec));
                        let mut t = totals.lock().unwrap();
                        t.0 += cutn;
                        t.1 += 1;
                    }
                }
            });
        }
    });
    if let Some(msg) = env_failure.lock().unwrap().take() {
        eprintln!("yv-g01: real run failed for environmental reasons: {msg}");
        std::process::exit(2);
    }
    let mut rs = results.into_inner().unwrap();
    rs.sort_by_key(|r| r.0);
    let mut out = open_out(args);
    let mut steps = 0;
    for (_, r) in &rs {
        steps += r["steps"].as_array().unwrap().len();
        writeln!(out, "{r}").unwrap();
    }
    out.flush().unwrap();
    let t = totals.lock().unwrap();
    println!("{}", json!({"records": rs.len(), "steps": steps, "sim_records": t.1, "real_records": t.2, "sim_steps_cut_dirty": t.0}));
}

// ---------------------------------------------------------------------------
// redo
// ---------------------------------------------------------------------------
/// `redo --in FILE`: FILE holds mismatch records of `replay` (re-run and
/// compared with the recorded expectation; prints one verdict line each and
/// `{"bad": n}`) or trace records of `random` (re-run; the fresh records go to
/// `--out` for validation by Trace_CdPwd).
fn redo(args: &[String]) {
    let mut out = open_out(args);
    let mut bad = 0;
    for line in open_in(args).lines() {
        let line = line.expect("read");
        if line.trim().is_empty() {
            continue;
        }
        let v: Value = serde_json::from_str(&line).expect("json");
        let mode = if v["mode"] == "sim" { Mode::Sim } else { Mode::Real };
        if v.get("steps").is_some() {
            let steps: Vec<Value> = v["steps"].as_array().unwrap().clone();
            let start = json!({"cwd": abs(&strs(&v["cwd"])), "env": v["env"]});
            let (rec, _, _) = record_sequence(&v["nodes"], &start, &steps, mode, v["id"].as_u64().unwrap_or(0) as usize);
            writeln!(out, "{rec}").unwrap();
            continue;
        }
        let exp = &v["exp"];
        let script = if exp["k"] == "none" {
            let mut s = String::from("(\n");
            for (j, wstep) in v["w"].as_array().unwrap().iter().enumerate() {
                s.push_str(&render_step(wstep, j));
            }
            s.push_str(&format!("obs S0 {OBS_VARS}\n)\n"));
            s
        } else {
            case_script(&v, exp, "0", v["variant"].as_u64().unwrap_or(0) as usize)
        };
        let o = run_script(&v["nodes"], &v["start"], &script, mode);
        let verdict = if exp["k"] == "none" {
            match obs_of(&o, "S0") {
                Some((_, pwd, old, cwd, _)) if pwd == v["s"]["pwd"] && old == v["s"]["oldpwd"] && cwd == v["s"]["cwd"] => "ok".to_string(),
                Some((_, pwd, old, cwd, _)) => format!("state not reached: PWD={pwd} OLDPWD={old} cwd={cwd}"),
                None => "no observation".to_string(),
            }
        } else {
            match judge(&o, &v, exp, "0", mode) {
                Verdict::Ok => "ok".to_string(),
                Verdict::Unspec => "unspecified".to_string(),
                Verdict::Dirty => "skipped (simulated cwd not canonical)".to_string(),
                Verdict::StateNotReached(s) => format!("state not reached: {s}"),
                Verdict::Deviation(f, s) => format!("deviation in {f}: observed {s}"),
            }
        };
        if verdict != "ok" && verdict != "unspecified" && !verdict.starts_with("skipped") {
            bad += 1;
        }
        writeln!(out, "{}", json!({"mode": mode.name(), "script": script, "expected": exp, "verdict": verdict})).unwrap();
    }
    out.flush().unwrap();
    println!("{}", json!({"bad": bad}));
}

fn main() {
    if let Ok(cwd) = std::env::var("YV_G01_CWD") {
        real_child_main(cwd);
    }
    yvcommon::real::maybe_child_main();
    if std::env::var("YV_LOUD").is_err() {
        yvcommon::util::quiet_panics();
    }
    let args: Vec<String> = std::env::args().skip(1).collect();
    match args.first().map(|s| s.as_str()) {
        Some("replay") => replay(&args),
        Some("random") => random(&args),
        Some("redo") => redo(&args),
        _ => {
            eprintln!("usage: yv-g01 replay|random|redo [--in F] [--out F] ...");
            std::process::exit(2);
        }
    }
}
