//! Conformance harness for specification-growth module g01 (see /verif/DESIGN.md 12.6).
fn main() {
    eprintln!("yv-g01: not implemented yet");
    std::process::exit(2);
}
