//! Conformance harness for property C18 (line-by-line input), see
//! /verif/DESIGN.md section 6 and spec/InputLoop.tla.
//!
//! `yv-c18 run --cat CATALOGUE --out RECORDS [--rand N --randmin A --randmax B]
//!            [--real N] [--dfs N --dfs-depth D] [--rnd-sched K] [--threads T] [--full-len L]`
//!     feeds every scenario of the TLC catalogue (and N random longer scripts)
//!     to the real shell in every feed mode of its class and writes one record
//!     per (scenario, distinct observation).
//! `yv-c18 one --scenario JSON`  runs one scenario in all modes, prints records.
mod real;
mod scen;
mod sim;

use rand::{Rng, SeedableRng};
use scen::Scenario;
use serde_json::{Value, json};
use sim::{Mode, Obs};
use std::io::{BufRead, Write};
use yvcommon::sched::{Schedule, next_prefix};
use yvcommon::util::{opt, opt_usize};

const CHUNKS: [usize; 5] = [1, 2, 3, 7, 0];

struct Plan {
    seed: u64,
    /// scenarios with at most this many lines get every chunking; longer ones a seeded subset
    full_len: usize,
    rnd_sched: usize,
    dfs_depth: usize,
}

fn hash_of(sc: &Scenario) -> u64 {
    use std::hash::{Hash, Hasher};
    let mut h = std::collections::hash_map::DefaultHasher::new();
    sc.hash(&mut h);
    h.finish()
}

fn sim_modes(sc: &Scenario, plan: &Plan) -> Vec<Mode> {
    if sc.feed == "fd" {
        let h = hash_of(sc) ^ plan.seed.wrapping_mul(0x9e37_79b9_7f4a_7c15);
        let mut v = vec![Mode::File];
        if sc.lines.len() <= plan.full_len {
            for (i, c) in CHUNKS.iter().enumerate() {
                v.push(Mode::Pipe { chunk: *c, schedule: Schedule::Fifo, nonblock: (i as u64 + h) % 2 == 0 });
            }
        } else {
            v.push(Mode::Pipe { chunk: CHUNKS[(h % 5) as usize], schedule: Schedule::Fifo, nonblock: true });
            v.push(Mode::Pipe { chunk: CHUNKS[((h / 5) % 5) as usize], schedule: Schedule::Random(h), nonblock: false });
        }
        for k in 0..plan.rnd_sched {
            let c = CHUNKS[((h >> (8 + 3 * k)) % 4) as usize]; // not `whole`: there the schedule hardly matters
            v.push(Mode::Pipe { chunk: c, schedule: Schedule::Random(h.wrapping_add(k as u64)), nonblock: (h >> 40) % 2 == k as u64 % 2 });
        }
        v
    } else {
        vec![Mode::CmdString, Mode::Eval, Mode::Dot, Mode::FileOperand]
    }
}

/// Observations of one scenario, grouped: (obs, echo_fd) -> mode names
struct Group {
    obs: Obs,
    echo_fd: bool,
    modes: Vec<String>,
    /// over the pipe-fed runs of the group: largest O_NONBLOCK flag seen (-1: no such run)
    nbmax: i32,
    /// some pipe-fed run of the group started with O_NONBLOCK set
    nb0: bool,
}

/// What of an observation goes into a record (the text of diagnostics does not).
fn same(sc: &Scenario, a: &Obs, b: &Obs) -> bool {
    a.outcome == b.outcome
        && a.trace == b.trace
        && a.status == b.status
        && a.stderr.is_empty() == b.stderr.is_empty()
        && a.stdout.len() == b.stdout.len()
        && (!sc.has("VB") || a.stderr.split_inclusive('\n').take(64).eq(b.stderr.split_inclusive('\n').take(64)))
}

fn add(groups: &mut Vec<Group>, sc: &Scenario, obs: Obs, echo_fd: bool, name: String, nb0: bool) {
    let e = echo_fd && sc.has("VB");
    if let Some(g) = groups.iter_mut().find(|g| same(sc, &g.obs, &obs) && g.echo_fd == e) {
        g.modes.push(name);
        g.nbmax = g.nbmax.max(obs.nbmax);
        g.nb0 |= nb0;
    } else {
        let nbmax = obs.nbmax;
        groups.push(Group { obs, echo_fd: e, modes: vec![name], nbmax, nb0 });
    }
}

fn record(sc: &Scenario, g: &Group, origin: &str) -> Value {
    let trace: Vec<Value> = g.obs.trace.iter().map(|(a, st, off)| json!({"args": a, "st": st, "off": off})).collect();
    // stderr is shipped line by line only where `set -v` makes the specification speak about it
    let elines: Vec<String> = if sc.has("VB") {
        g.obs.stderr.split_inclusive('\n').take(64).map(|s| s.to_string()).collect()
    } else {
        vec![]
    };
    json!({
        "lines": sc.lines, "nl": sc.nl, "feed": sc.feed, "text": sc.texts(),
        "origin": origin, "modes": g.modes,
        "outcome": g.obs.outcome, "trace": trace, "status": g.obs.status,
        "errnz": !g.obs.stderr.is_empty(), "echofd": g.echo_fd, "elines": elines,
        "nout": g.obs.stdout.len(), "nbmax": g.nbmax, "nb0": g.nb0,
    })
}

fn run_scenario(sc: &Scenario, plan: &Plan, dfs: bool, real_modes: &[real::RMode], stats: &mut Stats) -> Vec<Group> {
    let mut groups: Vec<Group> = vec![];
    for m in sim_modes(sc, plan) {
        let (obs, _) = sim::run(sc, &m);
        stats.sim_runs += 1;
        let nb0 = matches!(m, Mode::Pipe { nonblock: true, .. });
        add(&mut groups, sc, obs, m.echo_fd(), m.name(), nb0);
    }
    if dfs && sc.feed == "fd" {
        // every schedule of feeder vs. shell within the first dfs_depth choice points
        let h = hash_of(sc) ^ plan.seed;
        let chunk = CHUNKS[(h % 4) as usize];
        let mut prefix: Vec<usize> = vec![];
        let mut n = 0;
        loop {
            let nonblock = (h >> 33) % 2 == 0;
            let m = Mode::Pipe { chunk, schedule: Schedule::Prefix(prefix.clone()), nonblock };
            let (obs, choices) = sim::run(sc, &m);
            stats.sim_runs += 1;
            stats.dfs_schedules += 1;
            n += 1;
            add(&mut groups, sc, obs, true, format!("sim:pipe{chunk}{}:dfs", if nonblock { "nb" } else { "" }), nonblock);
            match next_prefix(&choices, plan.dfs_depth) {
                Some(p) if n < 4096 => prefix = p,
                _ => break,
            }
        }
        // mode names of the dfs runs are identical: keep one per group
        for g in &mut groups {
            g.modes.dedup();
        }
    }
    for rm in real_modes {
        let obs = real::run(sc, rm);
        stats.real_runs += 1;
        let nb0 = matches!(rm, real::RMode::Pipe(_, true));
        add(&mut groups, sc, obs, rm.echo_fd(), rm.name(), nb0);
    }
    groups
}

#[derive(Default, Clone)]
struct Stats {
    sim_runs: usize,
    real_runs: usize,
    dfs_schedules: usize,
    scenarios: usize,
    records: usize,
    split: usize,
}

fn real_modes_for(sc: &Scenario, h: u64) -> Vec<real::RMode> {
    if sc.feed == "fd" {
        vec![
            real::RMode::File,
            real::RMode::Pipe(CHUNKS[(h % 5) as usize], true),
            real::RMode::Pipe(CHUNKS[((h / 5) % 5) as usize], (h >> 20) % 2 == 0),
        ]
    } else {
        vec![real::RMode::CmdString, real::RMode::Dot]
    }
}

fn main() {
    yvcommon::real::maybe_child_main();
    real::maybe_child_main();
    yvcommon::util::quiet_panics();
    let args: Vec<String> = std::env::args().skip(1).collect();
    let seed = yvcommon::util::seed();
    match args.first().map(|s| s.as_str()) {
        Some("run") => {
            let plan = Plan {
                seed,
                full_len: opt_usize(&args, "--full-len", 3),
                rnd_sched: opt_usize(&args, "--rnd-sched", 1),
                dfs_depth: opt_usize(&args, "--dfs-depth", 6),
            };
            let n_rand = opt_usize(&args, "--rand", 0);
            let rmin = opt_usize(&args, "--randmin", 4);
            let rmax = opt_usize(&args, "--randmax", 9);
            let n_real = opt_usize(&args, "--real", 0);
            let n_dfs = opt_usize(&args, "--dfs", 0);
            let threads = opt_usize(&args, "--threads", 8).max(1);
            // (scenario, origin)
            let mut work: Vec<(Scenario, &'static str)> = vec![];
            if let Some(cat) = opt(&args, "--cat") {
                let f = std::io::BufReader::new(std::fs::File::open(cat).expect("open --cat"));
                for line in f.lines() {
                    let line = line.expect("read --cat");
                    if line.trim().is_empty() {
                        continue;
                    }
                    let v: Value = serde_json::from_str(&line).expect("catalogue line is JSON");
                    match Scenario::from_json(&v) {
                        Ok(s) => work.push((s, "catalogue")),
                        Err(e) => {
                            eprintln!("yv-c18: bad catalogue entry: {e}");
                            std::process::exit(2);
                        }
                    }
                }
            }
            let mut rng = rand::rngs::StdRng::seed_from_u64(seed.wrapping_mul(7919) + 18);
            for i in 0..n_rand {
                let len = rng.gen_range(rmin..=rmax);
                let feed = if i % 3 == 2 { "str" } else { "fd" };
                work.push((scen::random(&mut rng, len, feed), "random"));
            }
            // seeded choice of the scenarios that also run on the real OS / under all schedules
            let total = work.len().max(1);
            let mut real_pick = vec![false; work.len()];
            let mut dfs_pick = vec![false; work.len()];
            for _ in 0..n_real.min(work.len()) {
                real_pick[rng.gen_range(0..total)] = true;
            }
            let fd_idx: Vec<usize> = work.iter().enumerate().filter(|(_, w)| w.0.feed == "fd" && w.0.lines.len() >= 2).map(|(i, _)| i).collect();
            for _ in 0..n_dfs.min(fd_idx.len()) {
                dfs_pick[fd_idx[rng.gen_range(0..fd_idx.len())]] = true;
            }
            let chunk_size = work.len().div_ceil(threads).max(1);
            let plan = &plan;
            let work_ref = &work;
            let real_pick = &real_pick;
            let dfs_pick = &dfs_pick;
            let results: Vec<(Vec<String>, Stats)> = std::thread::scope(|s| {
                let mut hs = vec![];
                for t in 0..threads {
                    let lo = t * chunk_size;
                    let hi = ((t + 1) * chunk_size).min(work_ref.len());
                    if lo >= hi {
                        continue;
                    }
                    hs.push(s.spawn(move || {
                        let mut out = vec![];
                        let mut stats = Stats::default();
                        for i in lo..hi {
                            let (sc, origin) = &work_ref[i];
                            let rm = if real_pick[i] { real_modes_for(sc, hash_of(sc) ^ plan.seed) } else { vec![] };
                            let groups = run_scenario(sc, plan, dfs_pick[i], &rm, &mut stats);
                            stats.scenarios += 1;
                            if groups.len() > 1 {
                                stats.split += 1;
                            }
                            for g in &groups {
                                out.push(record(sc, g, origin).to_string());
                                stats.records += 1;
                            }
                        }
                        (out, stats)
                    }));
                }
                hs.into_iter().map(|h| h.join().expect("worker thread")).collect()
            });
            let mut w = yvcommon::util::open_out(&args);
            let mut tot = Stats::default();
            for (lines, st) in results {
                for l in lines {
                    writeln!(w, "{l}").unwrap();
                }
                tot.sim_runs += st.sim_runs;
                tot.real_runs += st.real_runs;
                tot.dfs_schedules += st.dfs_schedules;
                tot.scenarios += st.scenarios;
                tot.records += st.records;
                tot.split += st.split;
            }
            w.flush().unwrap();
            eprintln!(
                "{}",
                json!({"scenarios": tot.scenarios, "records": tot.records, "sim_runs": tot.sim_runs, "real_runs": tot.real_runs,
                       "dfs_schedules": tot.dfs_schedules, "scenarios_with_more_than_one_observation": tot.split})
            );
        }
        Some("one") => {
            let v: Value = serde_json::from_str(opt(&args, "--scenario").expect("--scenario JSON")).expect("JSON");
            let sc = Scenario::from_json(&v).expect("scenario");
            let plan = Plan { seed, full_len: 99, rnd_sched: 2, dfs_depth: 6 };
            let mut stats = Stats::default();
            let rm = if args.iter().any(|a| a == "--real") { real_modes_for(&sc, hash_of(&sc) ^ seed) } else { vec![] };
            let groups = run_scenario(&sc, &plan, args.iter().any(|a| a == "--dfs"), &rm, &mut stats);
            let mut w = yvcommon::util::open_out(&args);
            for g in &groups {
                writeln!(w, "{}", record(&sc, g, "one")).unwrap();
                if args.iter().any(|a| a == "--verbose") {
                    eprintln!("modes={:?}\nstderr={:?}\nstdout={:?}", g.modes, g.obs.stderr, g.obs.stdout);
                }
            }
        }
        _ => {
            eprintln!("usage: yv-c18 run|one ...");
            std::process::exit(2);
        }
    }
}
