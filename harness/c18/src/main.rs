//! Conformance harness for property C18, see /verif/DESIGN.md.
fn main() {
    eprintln!("yv-c18: not implemented yet");
    std::process::exit(2);
}
