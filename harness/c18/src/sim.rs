//! Running a scenario in the REAL shell on the simulated OS (yvcommon::shell).
//!
//! Feed modes of class "fd" (the script is on descriptor 0):
//!   File             descriptor 0 is a regular file holding the script
//!   Pipe{chunk,..}   descriptor 0 is the read end of a pipe; a feeder process
//!                    (its own simulated process and scheduler task) writes
//!                    the script in chunks of `chunk` bytes, yielding to the
//!                    scheduler after every chunk, then closes its end
//! Feed modes of class "str" (descriptor 0 holds the separate data d1, d2):
//!   CmdString        yash -c SCRIPT
//!   Eval             yash -c 'eval "$S"'        (S in the environment)
//!   Dot              yash -c '. /tmp/s.sh'
//!   FileOperand      yash /tmp/s.sh
//!
//! `probe` is replaced by a variant that also records the offset of the
//! open file description that descriptor 0 had when the shell started (for
//! a pipe: bytes written by the feeder minus bytes still in the pipe).
use crate::scen::Scenario;
use serde_json::{Value, json};
use std::cell::{Cell, RefCell};
use std::future::Future;
use std::io::SeekFrom;
use std::pin::Pin;
use std::rc::Rc;
use std::task::{Context, Poll};
use yash_env::builtin::{Builtin, Result as BResult, Type};
use yash_env::io::Fd;
use yash_env::job::Pid;
use yash_env::semantics::Field;
use yash_env::system::r#virtual::{FileBody, OpenFileDescription, Process, SystemState, VirtualSystem};
use yash_env::system::{Close as _, Pipe as _, Write as _};
use yvcommon::sched::{Outcome, Schedule};
use yvcommon::shell::{FileSpec, ShellCfg, VEnv, push_event, run_shell};

#[derive(Clone, Debug)]
pub enum Mode {
    File,
    /// `nonblock`: the read end has O_NONBLOCK set before the shell starts
    Pipe { chunk: usize, schedule: Schedule, nonblock: bool },
    CmdString,
    Eval,
    Dot,
    FileOperand,
}

impl Mode {
    pub fn name(&self) -> String {
        match self {
            Mode::File => "sim:file".into(),
            Mode::Pipe { chunk, schedule, nonblock } => {
                let c = if *chunk == 0 { "whole".to_string() } else { chunk.to_string() };
                let s = match schedule {
                    Schedule::Fifo => "fifo".to_string(),
                    Schedule::Random(x) => format!("rnd{x}"),
                    Schedule::Prefix(p) => format!("pre{}", p.iter().map(|x| x.to_string()).collect::<Vec<_>>().join("")),
                };
                format!("sim:pipe{c}{}:{s}", if *nonblock { "nb" } else { "" })
            }
            Mode::CmdString => "sim:-c".into(),
            Mode::Eval => "sim:eval".into(),
            Mode::Dot => "sim:dot".into(),
            Mode::FileOperand => "sim:operand".into(),
        }
    }
    /// Is the script read through a descriptor (`set -v` echoes it)?
    pub fn echo_fd(&self) -> bool {
        !matches!(self, Mode::CmdString | Mode::Eval)
    }
}

#[derive(Clone, Debug, PartialEq, Eq, Hash)]
pub struct Obs {
    pub outcome: String,
    /// (args, $?, offset of the initial descriptor 0 or -1)
    pub trace: Vec<(Vec<String>, i32, i64)>,
    pub status: i32,
    pub stderr: String,
    pub stdout: String,
    /// pipe-fed runs: largest O_NONBLOCK flag of descriptor 0's open file
    /// description seen at a probe or after the run; -1 otherwise
    pub nbmax: i32,
}

struct Ctx {
    ofd: Rc<RefCell<OpenFileDescription>>,
    written: Rc<Cell<usize>>,
    nbmax: Cell<i32>,
}

fn observe_nonblocking() {
    CTX.with(|c| {
        if let Some(ctx) = c.borrow().as_ref() {
            if let Ok(ofd) = ctx.ofd.try_borrow() {
                ctx.nbmax.set(ctx.nbmax.get().max(ofd.is_nonblocking() as i32));
            }
        }
    })
}

thread_local! {
    static CTX: RefCell<Option<Ctx>> = const { RefCell::new(None) };
}

fn current_offset() -> i64 {
    CTX.with(|c| {
        let c = c.borrow();
        let Some(ctx) = c.as_ref() else { return -1 };
        let Ok(mut ofd) = ctx.ofd.try_borrow_mut() else { return -1 };
        match ofd.seek(SeekFrom::Current(0)) {
            Ok(n) => n as i64,
            Err(_) => {
                let inode = Rc::clone(ofd.inode());
                let inode = inode.borrow();
                match &inode.body {
                    FileBody::Fifo { content, .. } => ctx.written.get() as i64 - content.len() as i64,
                    _ => -1,
                }
            }
        }
    })
}

/// `probe [args...]`: records args, `$?` and the offset of the script/data descriptor.
fn probe18(env: &mut VEnv, args: Vec<Field>) -> Pin<Box<dyn Future<Output = BResult> + '_>> {
    Box::pin(async move {
        let a: Vec<String> = args.iter().map(|f| crate::scen::esc(&f.value)).collect();
        observe_nonblocking();
        push_event(json!({"ev": "probe", "args": a, "st": env.exit_status.0, "off": current_offset()}));
        BResult::new(env.exit_status)
    })
}

/// Returns `Pending` once, having woken itself: a scheduling point.
struct YieldNow(bool);
impl Future for YieldNow {
    type Output = ();
    fn poll(mut self: Pin<&mut Self>, cx: &mut Context<'_>) -> Poll<()> {
        if self.0 {
            Poll::Ready(())
        } else {
            self.0 = true;
            cx.waker().wake_by_ref();
            Poll::Pending
        }
    }
}

const FEEDER_PID: Pid = Pid(1000);
const FEEDER_FD: Fd = Fd(3);

/// Replaces descriptor 0 of the shell process by the read end of a new pipe
/// and starts the feeder.
fn install_feeder(env: &mut VEnv, state: &Rc<RefCell<SystemState>>, script: Vec<u8>, chunk: usize, nonblock: bool, written: Rc<Cell<usize>>) {
    let main_pid = env.main_pid;
    let (r, w) = env.system.pipe().expect("pipe");
    {
        let mut st = state.borrow_mut();
        let p = st.processes.get_mut(&main_pid).expect("main process");
        let rb = p.close_fd(r).expect("reader");
        if nonblock {
            // what a parent that used the pipe in non-blocking mode leaves behind
            rb.open_file_description.borrow_mut().set_nonblocking(true);
        }
        let wb = p.close_fd(w).expect("writer");
        let _old = p.set_fd(Fd::STDIN, rb);
        let mut fp = Process::with_parent_and_group(Pid(1), Pid(1));
        let _ = fp.set_fd(FEEDER_FD, wb);
        st.processes.insert(FEEDER_PID, fp);
    }
    let fsys = VirtualSystem { state: Rc::clone(state), process_id: FEEDER_PID };
    let task = async move {
        let size = if chunk == 0 { script.len().max(1) } else { chunk };
        for piece in script.chunks(size) {
            let mut rest = piece;
            while !rest.is_empty() {
                match fsys.write(FEEDER_FD, rest).await {
                    Ok(n) => {
                        written.set(written.get() + n);
                        rest = &rest[n..];
                    }
                    Err(_) => return,
                }
            }
            YieldNow(false).await;
        }
        let _ = fsys.close(FEEDER_FD);
    };
    let ex = state.borrow().executor.clone().expect("executor");
    ex.spawn(Box::pin(task)).expect("spawn feeder");
}

pub fn run(sc: &Scenario, mode: &Mode) -> (Obs, Vec<(usize, usize)>) {
    let script = sc.script();
    let script_str = String::from_utf8_lossy(&script).into_owned();
    let mut cfg = match mode {
        Mode::File => ShellCfg::stdin_script(&script),
        Mode::Pipe { schedule, .. } => {
            let mut c = ShellCfg::with_argv(vec!["yash".into()]);
            c.schedule = schedule.clone();
            c
        }
        Mode::CmdString => ShellCfg::command(&script_str),
        Mode::Eval => {
            let mut c = ShellCfg::command("eval \"$S\"");
            c.env.push(("S".into(), script_str.clone()));
            c
        }
        Mode::Dot => {
            let mut c = ShellCfg::command(". /tmp/s.sh");
            c.files.push(FileSpec::Regular { path: "/tmp/s.sh".into(), content: script.clone(), mode: 0o644 });
            c
        }
        Mode::FileOperand => {
            let mut c = ShellCfg::with_argv(vec!["yash".into(), "/tmp/s.sh".into()]);
            c.files.push(FileSpec::Regular { path: "/tmp/s.sh".into(), content: script.clone(), mode: 0o644 });
            c
        }
    };
    if sc.feed == "str" {
        cfg.stdin = b"d1\nd2\n".to_vec();
    }
    cfg.step_limit = 200_000;
    let feeder = match mode {
        Mode::Pipe { chunk, nonblock, .. } => Some((script.clone(), *chunk, *nonblock)),
        _ => None,
    };
    cfg.setup = Some(Box::new(move |env: &mut VEnv, state: &Rc<RefCell<SystemState>>| {
        let written = Rc::new(Cell::new(0usize));
        let piped = feeder.is_some();
        if let Some((script, chunk, nonblock)) = feeder {
            install_feeder(env, state, script, chunk, nonblock, Rc::clone(&written));
        }
        let ofd = {
            let st = state.borrow();
            st.processes
                .get(&env.main_pid)
                .and_then(|p| p.get_fd(Fd::STDIN))
                .map(|b| Rc::clone(&b.open_file_description))
        };
        CTX.with(|c| *c.borrow_mut() = ofd.map(|ofd| Ctx { ofd, written, nbmax: Cell::new(if piped { 0 } else { -1 }) }));
        env.builtins.insert("probe", Builtin::new(Type::Mandatory, probe18));
    }));
    let r = run_shell(cfg);
    let piped = matches!(mode, Mode::Pipe { .. });
    if piped {
        observe_nonblocking();
    }
    let nbmax = CTX.with(|c| c.borrow().as_ref().map(|x| x.nbmax.get()).unwrap_or(-1));
    let nbmax = if piped { nbmax } else { -1 };
    CTX.with(|c| *c.borrow_mut() = None);
    let outcome = match &r.outcome {
        Outcome::Completed => "completed".to_string(),
        Outcome::Deadlock => "deadlock".to_string(),
        Outcome::StepLimit => "steplimit".to_string(),
        Outcome::Panic(m) => format!("panic: {m}"),
    };
    let trace = events_to_trace(&r.events);
    let obs = Obs { outcome, trace, status: r.status, stderr: crate::scen::esc(&r.stderr_str()), stdout: r.stdout_str(), nbmax };
    (obs, r.choices.clone())
}

pub fn events_to_trace(events: &[Value]) -> Vec<(Vec<String>, i32, i64)> {
    events
        .iter()
        .filter(|e| e["ev"] == "probe")
        .map(|e| {
            let args = e["args"].as_array().map(|a| a.iter().map(|x| x.as_str().unwrap_or("").to_string()).collect()).unwrap_or_default();
            (args, e["st"].as_i64().unwrap_or(-1) as i32, e["off"].as_i64().unwrap_or(-1))
        })
        .collect()
}
