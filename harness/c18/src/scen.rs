//! Scenarios of C18: a script is a sequence of physical lines, each of one
//! kind; `text` is the rendering table of spec/InputLoop.tla (`Text(k, i)`).
//! The table is NOT trusted: every record carries the rendered text and
//! Trace_InputLoop checks it against the specification's own table, and for
//! catalogue scenarios the text printed by TLC is compared here.
use rand::Rng;
use serde_json::Value;

#[allow(dead_code)]
pub const KINDS: [&str; 17] =
    ["P", "RD", "AL", "UA", "ON", "OF", "NP", "VB", "GO", "GC", "HD", "HE", "LC", "SE", "CM", "U8", "BX"];

#[derive(Clone, Debug, PartialEq, Eq, Hash)]
pub struct Scenario {
    pub lines: Vec<String>,
    pub nl: bool,
    /// "fd": the script is on descriptor 0; "str": it is a string / a separate file
    pub feed: String,
}

pub fn text(kind: &str, i: usize) -> String {
    match kind {
        "P" => format!("probe p{i}"),
        "RD" => format!("read -r v; probe r{i} \"$v\""),
        "AL" => format!("alias probe='probe A'; probe a{i}"),
        "UA" => format!("unalias -a; probe u{i}"),
        "ON" => format!("set -o portable; x=(1); probe o{i}"),
        "OF" => format!("set +o portable; probe f{i}"),
        "NP" => format!("x=(1); probe n{i}"),
        "VB" => format!("set -v; probe v{i}"),
        "GO" => "{".to_string(),
        "GC" => "}".to_string(),
        "HD" => format!("while read -r v; do probe h{i} \"$v\"; done <<\\probe"),
        "HE" => "probe".to_string(),
        "LC" => format!("probe l{i} \\"),
        "SE" => format!("probe s{i}; )"),
        "CM" => format!("# c{i}"),
        "U8" => format!("probe u{i}<U+00E9>"),
        "BX" => format!("probe b{i}caf<E9>"),
        other => panic!("unknown line kind {other}"),
    }
}

/// Expands the ASCII placeholders of the specification's text: `<U+XXXX>` is
/// the character (UTF-8 encoded), `<XX>` the single byte.
pub fn expand(text: &str) -> Vec<u8> {
    let b = text.as_bytes();
    let mut out = vec![];
    let mut i = 0;
    while i < b.len() {
        if b[i] == b'<' {
            if let Some(end) = text[i..].find('>') {
                let inner = &text[i + 1..i + end];
                if let Some(hex) = inner.strip_prefix("U+") {
                    if let Some(c) = u32::from_str_radix(hex, 16).ok().and_then(char::from_u32) {
                        let mut buf = [0u8; 4];
                        out.extend_from_slice(c.encode_utf8(&mut buf).as_bytes());
                        i += end + 1;
                        continue;
                    }
                } else if inner.len() == 2 {
                    if let Ok(v) = u8::from_str_radix(inner, 16) {
                        out.push(v);
                        i += end + 1;
                        continue;
                    }
                }
            }
        }
        out.push(b[i]);
        i += 1;
    }
    out
}

/// The inverse for what was observed: every non-ASCII character becomes `<U+XXXX>`.
pub fn esc(s: &str) -> String {
    if s.is_ascii() {
        return s.to_string();
    }
    let mut out = String::new();
    for c in s.chars() {
        if c.is_ascii() {
            out.push(c);
        } else {
            out.push_str(&format!("<U+{:04X}>", c as u32));
        }
    }
    out
}

impl Scenario {
    pub fn texts(&self) -> Vec<String> {
        self.lines.iter().enumerate().map(|(i, k)| text(k, i + 1)).collect()
    }
    pub fn script(&self) -> Vec<u8> {
        let mut s = self.texts().join("\n");
        if !self.lines.is_empty() && self.nl {
            s.push('\n');
        }
        expand(&s)
    }
    pub fn has(&self, kind: &str) -> bool {
        self.lines.iter().any(|k| k == kind)
    }
    pub fn from_json(v: &Value) -> Result<Scenario, String> {
        let lines: Vec<String> = v["lines"]
            .as_array()
            .ok_or("no lines")?
            .iter()
            .map(|x| x.as_str().unwrap_or("?").to_string())
            .collect();
        let nl = v["nl"].as_bool().ok_or("no nl")?;
        let feed = v["feed"].as_str().ok_or("no feed")?.to_string();
        let s = Scenario { lines, nl, feed };
        if let Some(t) = v["text"].as_array() {
            let t: Vec<String> = t.iter().map(|x| x.as_str().unwrap_or("").to_string()).collect();
            if t != s.texts() {
                return Err(format!("rendering table differs from the specification: {:?} vs {:?}", t, s.texts()));
            }
        }
        if s.lines.is_empty() && !s.nl {
            return Err("empty script has nl = true by convention".into());
        }
        Ok(s)
    }
}

/// A random script beyond the exhaustive bound: `len` lines, kinds weighted so
/// that scripts stay inside the specification's family reasonably often.
pub fn random<R: Rng>(rng: &mut R, len: usize, feed: &str) -> Scenario {
    let mut lines: Vec<String> = vec![];
    let mut depth = 0usize;
    let mut in_hd = false;
    while lines.len() < len {
        let r = rng.gen_range(0..100);
        let k = if in_hd && r < 35 {
            in_hd = false;
            "HE"
        } else if lines.last().map(|s| s == "LC").unwrap_or(false) && r < 85 {
            if r < 70 { "P" } else if r < 78 { "HE" } else { "LC" }
        } else if lines.last().map(|s| s == "RD").unwrap_or(false) && r < 30 {
            if r < 18 && feed == "fd" { "BX" } else { "U8" }
        } else if depth > 0 && r < 22 {
            depth -= 1;
            "GC"
        } else {
            match rng.gen_range(0..100) {
                0..=17 => "P",
                18..=33 => "RD",
                34..=41 => "AL",
                42..=45 => "UA",
                46..=52 => "ON",
                53..=57 => "OF",
                58..=63 => "NP",
                64..=67 => "VB",
                68..=76 => {
                    depth += 1;
                    "GO"
                }
                77..=78 => "GC",
                79..=85 => {
                    in_hd = true;
                    "HD"
                }
                86..=88 => "HE",
                89..=92 => "LC",
                93..=94 => "SE",
                95..=96 => "U8",
                97..=98 => {
                    if feed == "fd" { "BX" } else { "U8" }
                }
                _ => "CM",
            }
        };
        lines.push(k.to_string());
    }
    let nl = rng.gen_range(0..5) != 0;
    Scenario { lines, nl, feed: feed.to_string() }
}
