//! Running a scenario through the REAL shell on the REAL OS: a child process
//! of the harness (this binary re-executed with YV_CHILD=c18) runs the same
//! runner as the simulated runs (`yvcommon::shell::shell_body`, i.e.
//! `configure_environment` + `prepare_input` + `read_eval_loop`) on
//! `RealSystem`, with descriptor 0 either a regular file or a real pipe that a
//! feeder thread of the harness fills in chunks.  Modelled on
//! harness/common/src/real.rs.
use crate::scen::Scenario;
use crate::sim::{Obs, events_to_trace};
use serde_json::{Value, json};
use std::future::Future;
use std::io::Write as _;
use std::path::{Path, PathBuf};
use std::pin::Pin;
use std::process::{Command, Stdio};
use std::rc::Rc;
use std::sync::atomic::{AtomicI32, AtomicUsize, Ordering};
use std::time::{Duration, Instant};
use yash_cli::startup::args::Parse;
use yash_env::builtin::{Builtin, Result as BResult, Type};
use yash_env::semantics::{Field, exit_or_raise};
use yash_env::system::{Concurrent, Disposition, Sigaction as _, Signals as _};
use yash_env::{Env, RealSystem};
use yvcommon::shell::{EVENT_FILE, ShellSystem, push_event, register_generic_probes, shell_body};

static SCRIPT_FD: AtomicI32 = AtomicI32::new(-1);

pub fn maybe_child_main() {
    if std::env::var("YV_CHILD").as_deref() == Ok("c18") {
        // SAFETY: single-threaded at this point
        unsafe { std::env::remove_var("YV_CHILD") };
        child_main()
    }
}

/// `probe [args...]` on the real OS: args, `$?`, and the offset of the open
/// file description descriptor 0 had at start-up (-1 if it is not seekable).
fn probe_real<S: ShellSystem>(env: &mut Env<S>, args: Vec<Field>) -> Pin<Box<dyn Future<Output = BResult> + '_>> {
    Box::pin(async move {
        let a: Vec<String> = args.iter().map(|f| crate::scen::esc(&f.value)).collect();
        let fd = SCRIPT_FD.load(Ordering::SeqCst);
        let off: i64 = if fd >= 0 { unsafe { libc::lseek(fd, 0, libc::SEEK_CUR) as i64 } } else { -1 };
        // O_NONBLOCK of the open file description descriptor 0 had at start-up
        let fl = if fd >= 0 { unsafe { libc::fcntl(fd, libc::F_GETFL) } } else { -1 };
        let nb = if fl < 0 { -1 } else { ((fl & libc::O_NONBLOCK) != 0) as i32 };
        push_event(json!({"ev": "probe", "args": a, "st": env.exit_status.0, "off": off, "nb": nb}));
        BResult::new(env.exit_status)
    })
}

fn child_main() -> ! {
    if let Ok(p) = std::env::var("YV_EVENTS") {
        EVENT_FILE.with(|f| *f.borrow_mut() = Some(p));
        unsafe { std::env::remove_var("YV_EVENTS") };
    }
    // a second descriptor for the open file description of descriptor 0, so
    // that its offset stays observable while the shell redirects descriptor 0
    let fd = unsafe { libc::fcntl(0, libc::F_DUPFD_CLOEXEC, 250) };
    SCRIPT_FD.store(fd, Ordering::SeqCst);
    // SAFETY: the only RealSystem in this process
    let system = unsafe { RealSystem::new() };
    system.sigaction(RealSystem::SIGPIPE, Disposition::Default).ok();
    let system = Rc::new(Concurrent::new(system));
    let runner = Rc::clone(&system);
    let task = async {
        let mut env = Env::with_system(system);
        match yash_cli::startup::args::parse(std::env::args()) {
            Ok(Parse::Run(run)) => {
                env.variables.extend_env(std::env::vars());
                shell_body(&mut env, run, |env| {
                    register_generic_probes(env);
                    env.builtins.insert("probe", Builtin::new(Type::Mandatory, probe_real));
                })
                .await;
            }
            _ => env.exit_status = yash_env::semantics::ExitStatus(2),
        }
        exit_or_raise(&env.system, env.exit_status).await
    };
    runner.run_real(task)
}

#[derive(Clone, Debug)]
pub enum RMode {
    File,
    /// chunk size in bytes, 0 = whole script in one write; the read end starts with O_NONBLOCK set?
    Pipe(usize, bool),
    CmdString,
    Dot,
}

impl RMode {
    pub fn name(&self) -> String {
        match self {
            RMode::File => "real:file".into(),
            RMode::Pipe(0, nb) => format!("real:pipewhole{}", if *nb { "nb" } else { "" }),
            RMode::Pipe(c, nb) => format!("real:pipe{c}{}", if *nb { "nb" } else { "" }),
            RMode::CmdString => "real:-c".into(),
            RMode::Dot => "real:dot".into(),
        }
    }
    pub fn echo_fd(&self) -> bool {
        !matches!(self, RMode::CmdString)
    }
}

static COUNTER: AtomicUsize = AtomicUsize::new(0);

fn scratch_root() -> PathBuf {
    let base = std::env::var("VERIF_SCRATCH").unwrap_or_else(|_| "/verif".to_string());
    Path::new(&base).join("work").join("real18")
}

/// Runs the scenario; a run that exceeds its time limit is repeated with a
/// longer one (twice): on a loaded machine a child may simply not get the CPU,
/// whereas a shell that really hangs does so every time.  Only a run that
/// times out three times in a row is recorded as `timeout`.
pub fn run(sc: &Scenario, mode: &RMode) -> Obs {
    let mut last = None;
    for secs in [10u64, 40, 120] {
        let obs = run_once(sc, mode, Duration::from_secs(secs));
        if obs.outcome != "timeout" {
            return obs;
        }
        last = Some(obs);
    }
    last.unwrap()
}

fn run_once(sc: &Scenario, mode: &RMode, limit: Duration) -> Obs {
    let n = COUNTER.fetch_add(1, Ordering::SeqCst);
    let root = scratch_root().join(format!("{}-{}", std::process::id(), n));
    let _ = std::fs::remove_dir_all(&root);
    let dir = root.join("d");
    std::fs::create_dir_all(&dir).expect("scratch dir");
    let script = sc.script();
    let script_str = String::from_utf8_lossy(&script).into_owned();
    let stdin_path = root.join("stdin");
    let stdin_content: Vec<u8> = if sc.feed == "str" { b"d1\nd2\n".to_vec() } else { script.clone() };
    std::fs::File::create(&stdin_path).unwrap().write_all(&stdin_content).unwrap();
    let out_path = root.join("stdout");
    let err_path = root.join("stderr");
    let ev_path = root.join("events");
    let exe = std::env::current_exe().expect("current_exe");
    let mut cmd = Command::new(exe);
    match mode {
        RMode::File | RMode::Pipe(..) => {}
        RMode::CmdString => {
            cmd.arg("-c").arg(&script_str);
        }
        RMode::Dot => {
            std::fs::write(dir.join("s.sh"), &script).unwrap();
            cmd.arg("-c").arg(". ./s.sh");
        }
    }
    cmd.current_dir(&dir)
        .env_clear()
        .env("PATH", "/bin:/usr/bin")
        .env("LC_ALL", "C")
        .env("YV_CHILD", "c18")
        .env("YV_EVENTS", &ev_path)
        .stdout(Stdio::from(std::fs::File::create(&out_path).unwrap()))
        .stderr(Stdio::from(std::fs::File::create(&err_path).unwrap()));
    // (write end, a second descriptor for the read end's open file description)
    let mut pipe_ends: Option<(std::fs::File, std::fs::File)> = None;
    match mode {
        RMode::Pipe(_, nonblock) => {
            use std::os::fd::FromRawFd as _;
            let mut fds = [0 as libc::c_int; 2];
            let rc = unsafe { libc::pipe2(fds.as_mut_ptr(), libc::O_CLOEXEC) };
            assert_eq!(rc, 0, "pipe2");
            if *nonblock {
                // what a parent that used the pipe in non-blocking mode leaves behind
                unsafe { libc::fcntl(fds[0], libc::F_SETFL, libc::O_NONBLOCK) };
            }
            let keep = unsafe { libc::fcntl(fds[0], libc::F_DUPFD_CLOEXEC, 3) };
            let (rd, wr, keep) = unsafe {
                (std::fs::File::from_raw_fd(fds[0]), std::fs::File::from_raw_fd(fds[1]), std::fs::File::from_raw_fd(keep))
            };
            cmd.stdin(Stdio::from(rd));
            pipe_ends = Some((wr, keep));
        }
        _ => {
            cmd.stdin(Stdio::from(std::fs::File::open(&stdin_path).unwrap()));
        }
    }
    {
        use std::os::unix::process::CommandExt as _;
        cmd.process_group(0);
    }
    let mut child = cmd.spawn().expect("spawn shell child");
    drop(cmd); // closes the parent's copy of the read end
    let mut keep_rd = None;
    let feeder = if let RMode::Pipe(chunk, _) = mode {
        let (mut w, keep) = pipe_ends.take().expect("pipe ends");
        keep_rd = Some(keep);
        let chunk = *chunk;
        let data = script.clone();
        Some(std::thread::spawn(move || {
            let size = if chunk == 0 { data.len().max(1) } else { chunk };
            for piece in data.chunks(size) {
                if w.write_all(piece).is_err() {
                    break;
                }
                let _ = w.flush();
                // let the reader run dry between chunks now and then
                std::thread::yield_now();
                if chunk != 0 && piece.len() == size {
                    std::thread::sleep(Duration::from_micros(30));
                }
            }
            drop(w);
        }))
    } else {
        None
    };
    let t0 = Instant::now();
    let mut timed_out = false;
    let status = loop {
        match child.try_wait() {
            Ok(Some(st)) => break Some(st),
            Ok(None) => {
                if t0.elapsed() > limit {
                    timed_out = true;
                    unsafe { libc::kill(-(child.id() as i32), libc::SIGKILL) };
                    let _ = child.kill();
                    let _ = child.wait();
                    break None;
                }
                std::thread::sleep(Duration::from_micros(300));
            }
            Err(_) => break None,
        }
    };
    unsafe { libc::kill(-(child.id() as i32), libc::SIGKILL) };
    if let Some(f) = feeder {
        let _ = f.join();
    }
    let code = match status {
        Some(st) => {
            use std::os::unix::process::ExitStatusExt as _;
            st.code().unwrap_or_else(|| 128 + st.signal().unwrap_or(0))
        }
        None => -1,
    };
    let events: Vec<Value> = std::fs::read_to_string(&ev_path)
        .unwrap_or_default()
        .lines()
        .filter_map(|l| serde_json::from_str(l).ok())
        .collect();
    let mut nbmax = -1;
    if let Some(keep) = &keep_rd {
        use std::os::fd::AsRawFd as _;
        let fl = unsafe { libc::fcntl(keep.as_raw_fd(), libc::F_GETFL) };
        nbmax = ((fl & libc::O_NONBLOCK) != 0) as i32;
        for e in &events {
            if e["ev"] == "probe" {
                nbmax = nbmax.max(e["nb"].as_i64().unwrap_or(-1) as i32);
            }
        }
    }
    let obs = Obs {
        nbmax,
        outcome: if timed_out { "timeout".into() } else { "completed".into() },
        trace: events_to_trace(&events),
        status: code,
        stderr: crate::scen::esc(&String::from_utf8_lossy(&std::fs::read(&err_path).unwrap_or_default())),
        stdout: String::from_utf8_lossy(&std::fs::read(&out_path).unwrap_or_default()).into_owned(),
    };
    let _ = std::fs::remove_dir_all(&root);
    obs
}
