//! Conformance harness for property C20 (option syntax of built-ins), see
//! /verif/DESIGN.md section 6 "C20" and spec/OptParse.tla.
mod classes;
mod core;
mod getopts;

fn main() {
    let args: Vec<String> = std::env::args().collect();
    if args.len() < 2 {
        eprintln!("usage: yv-c20 <enum|random|redo|classes|one|getopts> ...");
        std::process::exit(2);
    }
    let rest = &args[2..];
    let code = match args[1].as_str() {
        "enum" => core::enumerate(rest),
        "random" => core::random(rest),
        "redo" => core::redo(rest),
        "classes" => classes::classes(rest),
        "getopts" => getopts::run(rest),
        "one" => classes::one(rest),
        other => {
            eprintln!("unknown subcommand {other}");
            2
        }
    };
    std::process::exit(code);
}
