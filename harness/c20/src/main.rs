//! Conformance harness for property C20, see /verif/DESIGN.md.
fn main() {
    eprintln!("yv-c20: not implemented yet");
    std::process::exit(2);
}
