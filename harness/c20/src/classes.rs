//! C20 phase 2: class replay through the real built-ins.
//!
//! Input (from spec/Gen_OptSpell.tla, one JSON line per class):
//!   {kind: "valid"|"getopts"|"sh", b, e, cmd, pre, post, plain, vecs: [[arg...]...]}
//!   {kind: "bad"|"shbad", b, cmd, pre, post, bad: [{cls, v: [arg...]}...]}
//! Every vector is run in a fresh simulated shell (yvcommon::shell).  The
//! script for a vector v of utility b is
//!     trap 'snap end' EXIT ; PRELUDE ; pre ; snap pre ; <cmd with @ARGS@ = quoted v> ; probe @st ; post
//! (`probe @st` records `$?` of the command and leaves it unchanged; if the shell
//! exits in the command -- special built-in error, `exit` -- the shell's exit
//! status is used instead.)
//! For kind "sh"/"shbad" the vector is the shell's own command line.
//!
//! Output: one JSON line per class with the distinct observations found
//! (a sound class has exactly one), resp. per malformed vector whether it was
//! rejected (diagnostic on stderr, non-zero status, state snapshot unchanged).
use serde_json::{Value, json};
use std::collections::BTreeMap;
use std::io::{BufRead, Write};
use yvcommon::sched::Outcome;
use yvcommon::shell::{FileSpec, ShellCfg, ShellResult, run_shell};
use yvcommon::util;

const STDIN_BUILTIN: &str = "12 42 + foo\\\nbar baz\nsecond line\nthird\n";
const STDIN_SH: &str = "probe stdin $# \"$1\"; snap end\n";
const SCRIPT_FILE: &str = "probe sourced $# \"$1\"; snap end\n";

fn fixture(cfg: &mut ShellCfg, prelude_stdin: &str) {
    cfg.files = vec![
        FileSpec::Dir { path: "/tmp/d".into() },
        FileSpec::Dir { path: "/tmp/d/sub".into() },
        FileSpec::Dir { path: "/tmp/-P".into() },
        FileSpec::Symlink { path: "/tmp/link".into(), target: "/tmp/d".into() },
        FileSpec::Regular { path: "/tmp/s.sh".into(), content: SCRIPT_FILE.as_bytes().to_vec(), mode: 0o644 },
    ];
    cfg.cwd = Some("/tmp".into());
    cfg.env = vec![("HOME".into(), "/home".into())];
    cfg.stdin = prelude_stdin.as_bytes().to_vec();
    cfg.step_limit = 200_000;
}

fn quote_args(v: &[String]) -> String {
    v.iter().map(|a| yash_quote::quoted(a).to_string()).collect::<Vec<_>>().join(" ")
}

pub fn script_for(prelude: &str, cmd: &str, pre: &str, post: &str, v: &[String]) -> String {
    let line = cmd.replace("@ARGS@", &quote_args(v));
    format!("trap 'snap end' EXIT\n{prelude}\n{pre}\nsnap pre\n{line}\nprobe @st\n{post}\n")
}

struct Observed {
    /// what must be equal within a class
    key: Value,
    stderr: String,
    pre: Value,
    end: Value,
}

fn last_snap(r: &ShellResult, tag: &str) -> Value {
    r.events
        .iter()
        .rev()
        .find(|e| e["ev"] == "snap" && e["tag"] == tag)
        .map(|e| json!({"st": e["st"], "snap": e["snap"]}))
        .unwrap_or(Value::Null)
}

fn outcome_str(o: &Outcome) -> String {
    match o {
        Outcome::Completed => "completed".into(),
        Outcome::Deadlock => "deadlock".into(),
        Outcome::StepLimit => "steplimit".into(),
        Outcome::Panic(m) => format!("panic: {m}"),
    }
}

fn observe(cfg: ShellCfg, extra: Value) -> Observed {
    let r = match util::catch(|| run_shell(cfg)) {
        Ok(r) => r,
        Err(msg) => {
            return Observed {
                key: json!({"panic": msg, "extra": extra}),
                stderr: String::new(),
                pre: Value::Null,
                end: Value::Null,
            };
        }
    };
    let stderr = r.stderr_str();
    let end = last_snap(&r, "end");
    let pre = last_snap(&r, "pre");
    let probes = r.probe_trace();
    // `$?` right after the command under test
    let cmd_status = r
        .events
        .iter()
        .find(|e| e["ev"] == "probe" && e["args"] == json!(["@st"]))
        .and_then(|e| e["st"].as_i64())
        .unwrap_or(r.status as i64);
    let key = json!({
        "cmd_status": cmd_status,
        "outcome": outcome_str(&r.outcome),
        "status": r.status,
        "stdout": r.stdout_str(),
        "stderr_empty": stderr.is_empty(),
        "end": end,
        "probes": probes,
        "extra": extra,
    });
    Observed { key, stderr, pre, end }
}

fn run_builtin(prelude: &str, cmd: &str, pre: &str, post: &str, v: &[String]) -> Observed {
    let script = script_for(prelude, cmd, pre, post, v);
    let mut cfg = ShellCfg::command(&script);
    fixture(&mut cfg, STDIN_BUILTIN);
    observe(cfg, Value::Null)
}

fn sh_argv(v: &[String]) -> Vec<String> {
    let mut argv = vec!["yash".to_string()];
    argv.extend(v.iter().cloned());
    argv
}

fn parse_dbg(v: &[String]) -> (bool, String) {
    match util::catch(|| yash_cli::startup::args::parse(sh_argv(v))) {
        Ok(Ok(p)) => (true, format!("{p:?}")),
        Ok(Err(e)) => (false, format!("{e:?}")),
        Err(m) => (false, format!("panic: {m}")),
    }
}

fn run_sh(v: &[String]) -> Observed {
    let (ok, dbg) = parse_dbg(v);
    let mut cfg = ShellCfg::with_argv(sh_argv(v));
    fixture(&mut cfg, STDIN_SH);
    observe(cfg, json!({"parse_ok": ok, "parse": dbg}))
}

fn strings(v: &Value) -> Vec<String> {
    v.as_array()
        .map(|a| a.iter().map(|s| s.as_str().unwrap_or("").to_string()).collect())
        .unwrap_or_default()
}


fn run_bad(kind: &str, c: &Value, prelude: &str, cmd: &str, pre: &str, post: &str) -> Vec<Value> {
    let mut results = vec![];
                for x in c["bad"].as_array().cloned().unwrap_or_default() {
                    let v = strings(&x["v"]);
                    let (o, parse_ok) = if kind == "shbad" {
                        let (ok, _) = parse_dbg(&v);
                        (run_sh(&v), ok)
                    } else {
                        (run_builtin(prelude, cmd, pre, post, &v), false)
                    };
                    let status = o.key["cmd_status"].as_i64().unwrap_or(0);
                    let rejected = if kind == "shbad" {
                        !parse_ok
                    } else {
                        !o.stderr.is_empty()
                            && status != 0
                            && o.key["outcome"] == "completed"
                            && !o.pre.is_null()
                            && o.pre["snap"] == o.end["snap"]
                    };
                    results.push(json!({"cls": x["cls"], "v": v, "rejected": rejected,
                        "status": status, "stderr": o.stderr, "stdout": o.key["stdout"],
                        "outcome": o.key["outcome"], "extra": o.key["extra"],
                        "state_changed": o.pre["snap"] != o.end["snap"],
                        "pre": if rejected { Value::Null } else { o.pre.clone() },
                        "end": if rejected { Value::Null } else { o.end.clone() }}));
                }
    results
}

/// `classes --in F --out G`
pub fn classes(args: &[String]) -> i32 {
    util::quiet_panics();
    let input = util::open_in(args);
    let mut out = util::open_out(args);
    for line in input.lines() {
        let line = line.expect("read");
        if line.trim().is_empty() {
            continue;
        }
        let c: Value = serde_json::from_str(&line).expect("json");
        let kind = c["kind"].as_str().unwrap_or("");
        let b = c["b"].as_str().unwrap_or("");
        let cmd = c["cmd"].as_str().unwrap_or("");
        let pre = c["pre"].as_str().unwrap_or("");
        let post = c["post"].as_str().unwrap_or("");
        let prelude = c["prelude"].as_str().unwrap_or("").to_string();
        match kind {
            "valid" | "getopts" | "sh" | "pvalid" => {
                // observation -> vectors showing it
                let mut groups: BTreeMap<String, (Value, Vec<Vec<String>>, String)> = BTreeMap::new();
                let vecs = c["vecs"].as_array().cloned().unwrap_or_default();
                for v in &vecs {
                    let v = strings(v);
                    let o = if kind == "sh" { run_sh(&v) } else { run_builtin(&prelude, cmd, pre, post, &v) };
                    let k = o.key.to_string();
                    let g = groups.entry(k).or_insert_with(|| (o.key.clone(), vec![], o.stderr.clone()));
                    if g.1.len() < 4 {
                        g.1.push(v);
                    }
                }
                let plain = strings(&c["plain"]);
                let mut gs: Vec<Value> = groups
                    .values()
                    .map(|(k, vs, err)| json!({"obs": k, "vectors": vs, "stderr": err}))
                    .collect();
                // the group of the plain spelling first
                gs.sort_by_key(|g| !g["vectors"].as_array().unwrap().iter().any(|v| strings(v) == plain));
                writeln!(out, "{}", json!({"kind": kind, "b": b, "e": c["e"], "n": vecs.len(),
                    "plain": plain, "groups": gs.len(), "detail": gs})).unwrap();
                if kind == "pvalid" {
                    let results = run_bad("pbad", &c, &prelude, cmd, pre, post);
                    writeln!(out, "{}", json!({"kind": "pbad", "b": b, "e": c["e"], "n": results.len(), "results": results})).unwrap();
                }
            }
            "bad" | "shbad" => {
                let results = run_bad(kind, &c, &prelude, cmd, pre, post);
                writeln!(out, "{}", json!({"kind": kind, "b": b, "e": 0, "n": results.len(), "results": results})).unwrap();
            }
            _ => {
                eprintln!("unknown class kind {kind}");
                return 2;
            }
        }
    }
    0
}

/// `one --b NAME --cmd CMD --pre P --post Q --prelude T -- args...` (debugging / replay)
pub fn one(args: &[String]) -> i32 {
    let split = args.iter().position(|a| a == "--").unwrap_or(args.len());
    let (flags, rest) = args.split_at(split);
    let v: Vec<String> = rest.iter().skip(1).cloned().collect();
    let kind = util::opt(flags, "--kind").unwrap_or("valid");
    let o = if kind == "sh" || kind == "shbad" {
        run_sh(&v)
    } else {
        let cmd = util::opt(flags, "--cmd").unwrap_or("");
        let s = script_for(
            util::opt(flags, "--prelude").unwrap_or(""),
            cmd,
            util::opt(flags, "--pre").unwrap_or(""),
            util::opt(flags, "--post").unwrap_or(""),
            &v,
        );
        println!("{s}");
        run_builtin(
            util::opt(flags, "--prelude").unwrap_or(""),
            cmd,
            util::opt(flags, "--pre").unwrap_or(""),
            util::opt(flags, "--post").unwrap_or(""),
            &v,
        )
    };
    println!("{}", serde_json::to_string_pretty(&json!({"obs": o.key, "stderr": o.stderr, "state_changed": o.pre["snap"] != o.end["snap"]})).unwrap());
    0
}
