//! C20: the getopts built-in against spec/Getopts.tla.
//!
//! `getopts --in GEN --out RES`: reads the lines TLC printed from Gen_Getopts
//! (one per vector prefix, with the prescribed loop of every one-token
//! extension) and, for every vector,
//!  * drives `yash_builtin::getopts::model::next` from (1, 1) until it reports
//!    no option, comparing every report (option character, error, option-argument,
//!    next_arg_index, next_char_index) and the final argument index;
//!  * for vectors that carry a "vis" expectation, runs
//!    `set -- ARGS; while getopts OS opt; do probe "$opt" "${OPTARG-unset}"; done; ...`
//!    in a fresh simulated shell and compares the sequence of (name, OPTARG)
//!    the script sees, the final OPTIND, the operands and whether a
//!    diagnostic was written.
use serde_json::{Value, json};
use std::io::{BufRead, BufReader, Write};
use std::num::NonZeroUsize;
use yash_builtin::getopts::model;
use yvcommon::shell::{ShellCfg, run_shell};
use yvcommon::util;

fn chars_to_string(v: &Value) -> String {
    v.as_array().map(|a| a.iter().map(|c| c.as_str().unwrap_or("")).collect()).unwrap_or_default()
}

fn ints(v: &Value) -> Vec<i64> {
    v.as_array().map(|a| a.iter().map(|x| x.as_i64().unwrap_or(-99)).collect()).unwrap_or_default()
}

/// Observed loop over the model: [optind, n, (ch, err, k-ish...)...] is not
/// reconstructible (the model returns the text, not its position), so the
/// comparison is done field by field against the expected code.
fn model_loop(os: &str, argv: &[String]) -> Result<(Vec<(char, i64, Option<String>, i64, i64)>, i64), String> {
    util::catch(|| {
        let mut reports = vec![];
        let (mut ai, mut ci) = (NonZeroUsize::MIN, NonZeroUsize::MIN);
        for _ in 0..200 {
            let r = model::next(argv.iter().map(|s| s.as_str()), model::OptionSpec::from(os), ai, ci);
            match r.option {
                None => return (reports, r.next_arg_index.get() as i64),
                Some(o) => {
                    let err = match o.error {
                        None => 0,
                        Some(model::Error::UnknownOption) => 1,
                        Some(model::Error::MissingArgument) => 2,
                        Some(_) => 9,
                    };
                    reports.push((o.option, err, o.argument, r.next_arg_index.get() as i64, r.next_char_index.get() as i64));
                }
            }
            ai = r.next_arg_index;
            ci = r.next_char_index;
        }
        (reports, -1) // did not terminate
    })
}

fn model_matches(code: &[i64], letters: &[String], argv: &[String], obs: &(Vec<(char, i64, Option<String>, i64, i64)>, i64)) -> bool {
    if code.len() < 2 || code[0] != obs.1 || code[1] as usize != obs.0.len() || code.len() != 2 + 6 * obs.0.len() {
        return false;
    }
    for (n, (ch, err, arg, ai, ci)) in obs.0.iter().enumerate() {
        let e = &code[2 + 6 * n..8 + 6 * n];
        let want_ch = letters.get(e[0] as usize - 1).map(|s| s.as_str()).unwrap_or("");
        if ch.to_string() != want_ch || *err != e[1] || *ai != e[4] || *ci != e[5] {
            return false;
        }
        let want_arg = if e[2] == 0 {
            None
        } else {
            Some(argv[e[2] as usize - 1].chars().skip(e[3] as usize - 1).collect::<String>())
        };
        if *arg != want_arg {
            return false;
        }
    }
    true
}

fn shell_loop(os: &str, argv: &[String]) -> Value {
    let q = |s: &str| yash_quote::quoted(s).to_string();
    let args = argv.iter().map(|a| q(a)).collect::<Vec<_>>().join(" ");
    let script = format!(
        "set -- {args}\nwhile getopts {} opt; do probe \"$opt\" \"${{OPTARG-unset}}\"; done\n\
         probe @end \"$opt\" \"${{OPTARG-unset}}\" \"$OPTIND\"\nshift $((OPTIND-1))\nprobe @rest \"$@\"\n",
        q(os)
    );
    let mut cfg = ShellCfg::command(&script);
    cfg.step_limit = 200_000;
    match util::catch(|| run_shell(cfg)) {
        Err(m) => json!({"panic": m}),
        Ok(r) => {
            let probes: Vec<Value> = r
                .events
                .iter()
                .filter(|e| e["ev"] == "probe")
                .map(|e| json!({"a": e["args"], "st": e["st"]}))
                .collect();
            json!({"probes": probes, "diag": !r.stderr.is_empty(), "status": r.status,
                   "outcome": r.outcome_str(), "stderr": r.stderr_str()})
        }
    }
}

fn shell_expected(vis: &Value, argv: &[String]) -> Value {
    let mut probes: Vec<Value> = vis["rep"]
        .as_array()
        .map(|a| a.iter().map(|r| json!({"a": r, "st": 0})).collect())
        .unwrap_or_default();
    let optind = vis["optind"].as_i64().unwrap_or(0);
    // after the last option: name `?`, OPTARG unset, exit status > 0
    probes.push(json!({"a": ["@end", "?", "unset", optind.to_string()], "st": 1}));
    let mut rest = vec!["@rest".to_string()];
    rest.extend(argv.iter().skip(optind as usize - 1).cloned());
    probes.push(json!({"a": rest, "st": 0}));
    json!({"probes": probes, "diag": vis["diag"]})
}

fn shell_matches(exp: &Value, obs: &Value) -> bool {
    if obs.get("panic").is_some() || obs["outcome"] != "completed" || obs["diag"] != exp["diag"] {
        return false;
    }
    let (e, o) = (exp["probes"].as_array().unwrap(), obs["probes"].as_array().unwrap());
    if e.len() != o.len() {
        return false;
    }
    for (n, (x, y)) in e.iter().zip(o).enumerate() {
        if x["a"] != y["a"] {
            return false;
        }
        // inside the loop body `$?` is the (zero) status of the getopts call; that the
        // loop ended shows the non-zero status at the end of the options
        if n + 2 < e.len() && y["st"].as_i64() != Some(0) {
            return false;
        }
    }
    true
}

/// `getopts --in GEN --out RES`
pub fn run(args: &[String]) -> i32 {
    util::quiet_panics();
    let path = util::opt(args, "--in").expect("--in");
    let (mut tokens, mut optstrings, mut letters): (Vec<String>, Vec<String>, Vec<String>) = (vec![], vec![], vec![]);
    for line in BufReader::new(std::fs::File::open(path).expect("open")).lines() {
        let line = line.expect("read");
        if line.starts_with("{\"hdr\"") {
            let v: Value = serde_json::from_str(&line).expect("json");
            tokens = v["tokens"].as_array().unwrap().iter().map(chars_to_string).collect();
            optstrings = v["optstrings"].as_array().unwrap().iter().map(chars_to_string).collect();
            letters = v["letters"].as_array().unwrap().iter().map(|s| s.as_str().unwrap().to_string()).collect();
            break;
        }
    }
    if tokens.is_empty() {
        eprintln!("no header line");
        return 2;
    }
    let mut out = util::open_out(args);
    let (mut vectors, mut shell_runs, mut mismatches, mut reports, mut errors) = (0u64, 0u64, 0u64, 0u64, 0u64);
    let mut samples: Vec<Value> = vec![];
    for line in BufReader::new(std::fs::File::open(path).expect("open")).lines() {
        let line = line.expect("read");
        if line.starts_with("{\"hdr\"") || line.is_empty() {
            continue;
        }
        let v: Value = serde_json::from_str(&line).expect("json");
        let os = &optstrings[v["os"].as_u64().unwrap() as usize - 1];
        let prefix: Vec<String> = ints(&v["v"]).iter().map(|&i| tokens[i as usize - 1].clone()).collect();
        let mut cases: Vec<(Vec<String>, Vec<i64>, Value)> = vec![];
        if prefix.is_empty() {
            cases.push((vec![], ints(&v["s"]), Value::Null));
        }
        let vis = v["vis"].as_array().cloned().unwrap_or_default();
        for (n, code) in v["r"].as_array().unwrap().iter().enumerate() {
            let mut a = prefix.clone();
            a.push(tokens[n].clone());
            cases.push((a, ints(code), vis.get(n).cloned().unwrap_or(Value::Null)));
        }
        for (argv, code, vis) in cases {
            vectors += 1;
            match model_loop(os, &argv) {
                Ok(obs) => {
                    reports += obs.0.len() as u64;
                    errors += obs.0.iter().filter(|r| r.1 != 0).count() as u64;
                    if !model_matches(&code, &letters, &argv, &obs) {
                        mismatches += 1;
                        if mismatches <= 500 {
                            writeln!(out, "{}", json!({"mismatch": true, "level": "model", "os": os, "argv": argv,
                                "expected": code, "observed": {"optind": obs.1, "reports": obs.0.iter().map(|r|
                                    json!([r.0.to_string(), r.1, r.2, r.3, r.4])).collect::<Vec<_>>()}})).unwrap();
                        }
                    }
                }
                Err(m) => {
                    mismatches += 1;
                    writeln!(out, "{}", json!({"mismatch": true, "level": "model", "os": os, "argv": argv,
                        "expected": code, "observed": {"panic": m}})).unwrap();
                }
            }
            if !vis.is_null() {
                shell_runs += 1;
                let exp = shell_expected(&vis, &argv);
                let obs = shell_loop(os, &argv);
                if !shell_matches(&exp, &obs) {
                    mismatches += 1;
                    if mismatches <= 500 {
                        writeln!(out, "{}", json!({"mismatch": true, "level": "shell", "os": os, "argv": argv,
                            "expected": exp, "observed": obs})).unwrap();
                    }
                } else if samples.len() < 2 && argv.len() == 2 && exp["probes"].as_array().unwrap().len() >= 5 {
                    samples.push(json!({"optstring": os, "argv": argv, "script_sees": exp["probes"], "diagnostic": exp["diag"]}));
                }
            }
        }
    }
    writeln!(out, "{}", json!({"summary": true, "vectors": vectors, "shell_runs": shell_runs, "mismatches": mismatches,
        "reports": reports, "error_reports": errors, "optstrings": optstrings, "samples": samples})).unwrap();
    0
}
