//! C20 phase 1: `yash_builtin::common::syntax::parse_arguments` against
//! spec/OptParse.tla.
//!
//! * `enum`   — reads the lines TLC printed from Gen_OptParse (table headers and
//!   one line per argument-vector prefix with the prescribed outcome of each
//!   one-token extension), runs the real parser on every vector, projects the
//!   real result into the abstract form of the specification and compares.
//!   Prints one JSON line per disagreement and a final summary line.
//! * `random` — seeded random tables / modes / longer vectors over a richer
//!   alphabet; records `{specs, mode, argv, obs}` for validation by
//!   spec/Trace_OptParse.tla (impl -> spec direction).
//! * `redo`   — re-executes recorded cases (replay of a violation).
use rand::{Rng, SeedableRng, rngs::StdRng};
use serde_json::{Value, json};
use std::collections::HashMap;
use std::io::{BufRead, BufReader, Write};
use yash_builtin::common::syntax::{
    Mode, OptionArgumentSpec, OptionSpec, OptionSpelling, ParseError, parse_arguments,
};
use yash_env::semantics::Field;
use yash_env::source::Location;
use yvcommon::util;

/// Option table as shipped by the specification.
#[derive(Clone, Debug)]
pub struct TSpec {
    pub s: Option<char>,
    pub l: Option<String>,
    pub a: bool,
    pub x: bool,
}

fn chars_to_string(v: &Value) -> String {
    v.as_array()
        .map(|a| a.iter().map(|c| c.as_str().unwrap_or("")).collect())
        .unwrap_or_default()
}

fn string_to_chars(s: &str) -> Value {
    Value::Array(s.chars().map(|c| json!(c.to_string())).collect())
}

pub fn tspecs_from_json(v: &Value) -> Vec<TSpec> {
    v.as_array()
        .map(|a| {
            a.iter()
                .map(|o| {
                    let s = o["s"].as_str().unwrap_or("");
                    let l = chars_to_string(&o["l"]);
                    TSpec {
                        s: s.chars().next(),
                        l: if l.is_empty() { None } else { Some(l) },
                        a: o["a"].as_bool().unwrap_or(false),
                        x: o["x"].as_bool().unwrap_or(false),
                    }
                })
                .collect()
        })
        .unwrap_or_default()
}

fn tspecs_to_json(t: &[TSpec]) -> Value {
    Value::Array(
        t.iter()
            .map(|o| {
                json!({"s": o.s.map(|c| c.to_string()).unwrap_or_default(),
                       "l": string_to_chars(o.l.as_deref().unwrap_or("")),
                       "a": o.a, "x": o.x})
            })
            .collect(),
    )
}

pub fn build_specs(t: &[TSpec]) -> Vec<OptionSpec<'_>> {
    t.iter()
        .map(|o| {
            let mut spec: OptionSpec<'_> = OptionSpec::new();
            if let Some(c) = o.s {
                spec.set_short(c);
            }
            if let Some(l) = &o.l {
                spec.set_long(l);
            }
            if o.a {
                spec.set_argument(OptionArgumentSpec::Required);
            }
            spec.set_extension(o.x);
            spec
        })
        .collect()
}

pub fn mode_of_id(m: u64) -> Mode {
    let mut mode = Mode::default();
    mode.long_option_names = m & 1 != 0;
    mode.extension_options = m & 2 != 0;
    mode.option_arguments_in_same_field = m & 4 != 0;
    mode
}

/// Abstract observation of one call (the projection the specification talks
/// about).  Indices are 1-based like in the specification.
#[derive(Clone, Debug, PartialEq)]
pub struct Obs {
    pub pn: bool,
    pub ok: bool,
    /// (spec index, spelling: 0 long / letter position, field index of the
    /// occurrence's location, field index of the option-argument's origin (0 none),
    /// option-argument text)
    pub opts: Vec<(i64, i64, i64, i64, Option<String>)>,
    pub operands: Vec<String>,
    /// field indices the operands' origins point to
    pub operand_origins: Vec<i64>,
    pub err: &'static str,
    pub fld: String,
    pub fld_origin: i64,
    pub panic_msg: String,
}

fn origin_index(l: &Location) -> i64 {
    l.code.value.borrow().parse::<i64>().unwrap_or(-1)
}

fn char_pos(text: &str, byte_index: usize) -> i64 {
    if text.is_char_boundary(byte_index) && byte_index <= text.len() {
        text[..byte_index].chars().count() as i64
    } else {
        -1
    }
}

pub fn err_class(e: &ParseError) -> &'static str {
    match e {
        ParseError::UnknownShortOption(..) => "UnknownShort",
        ParseError::UnknownLongOption(..) => "UnknownLong",
        ParseError::NonPortableShortOption(..) => "NonPortableShort",
        ParseError::NonPortableLongOption(..) => "NonPortableLong",
        ParseError::AmbiguousLongOption(..) => "AmbiguousLong",
        ParseError::MissingOptionArgument(..) => "MissingArg",
        ParseError::UnseparatedOptionArgument(..) => "Unseparated",
        ParseError::UnexpectedOptionArgument(..) => "UnexpectedArg",
        _ => "Other",
    }
}

/// Runs the real parser.  Every field gets an origin whose code text is its
/// (1-based) index in `argv`, so that locations can be mapped back.
pub fn observe(specs: &[OptionSpec<'_>], mode: Mode, argv: &[String]) -> Obs {
    let fields: Vec<Field> = argv
        .iter()
        .enumerate()
        .map(|(i, a)| Field {
            value: a.clone(),
            origin: Location::dummy((i + 1).to_string()),
        })
        .collect();
    let mut obs = Obs {
        pn: false,
        ok: false,
        opts: vec![],
        operands: vec![],
        operand_origins: vec![],
        err: "",
        fld: String::new(),
        fld_origin: 0,
        panic_msg: String::new(),
    };
    let r = util::catch(|| match parse_arguments(specs, mode, fields) {
        Ok((occurrences, operands)) => {
            let opts = occurrences
                .iter()
                .map(|o| {
                    let i = specs
                        .iter()
                        .position(|s| std::ptr::eq(s, o.spec))
                        .map(|p| p as i64 + 1)
                        .unwrap_or(-1);
                    let f = origin_index(&o.location);
                    let text = if f >= 1 && (f as usize) <= argv.len() {
                        argv[f as usize - 1].as_str()
                    } else {
                        ""
                    };
                    let sp = match o.spelling {
                        OptionSpelling::Long => 0,
                        OptionSpelling::Short(b) => char_pos(text, b),
                        _ => -2,
                    };
                    let (k, arg) = match &o.argument {
                        None => (0, None),
                        Some(a) => (origin_index(&a.origin), Some(a.value.clone())),
                    };
                    (i, sp, f, k, arg)
                })
                .collect::<Vec<_>>();
            let ops = operands.iter().map(|f| f.value.clone()).collect::<Vec<_>>();
            let oo = operands.iter().map(|f| origin_index(&f.origin)).collect::<Vec<_>>();
            (true, opts, ops, oo, "", String::new(), 0)
        }
        Err(e) => {
            let f = e.field();
            (false, vec![], vec![], vec![], err_class(&e), f.value.clone(), origin_index(&f.origin))
        }
    });
    match r {
        Ok((ok, opts, ops, oo, err, fld, fo)) => {
            obs.ok = ok;
            obs.opts = opts;
            obs.operands = ops;
            obs.operand_origins = oo;
            obs.err = err;
            obs.fld = fld;
            obs.fld_origin = fo;
        }
        Err(msg) => {
            obs.pn = true;
            obs.panic_msg = msg;
        }
    }
    obs
}

pub fn obs_to_json(o: &Obs) -> Value {
    json!({
        "pn": o.pn, "ok": o.ok,
        "opts": o.opts.iter().map(|(i, sp, f, k, a)| json!({
            "i": i, "sp": sp, "f": f, "k": k, "has": a.is_some(),
            "arg": string_to_chars(a.as_deref().unwrap_or(""))})).collect::<Vec<_>>(),
        "operands": o.operands.iter().map(|s| string_to_chars(s)).collect::<Vec<_>>(),
        "oo": o.operand_origins,
        "err": o.err, "fld": string_to_chars(&o.fld), "fo": o.fld_origin,
        "msg": o.panic_msg,
    })
}

const ERR_CODES: [&str; 9] = [
    "",
    "UnknownShort",
    "UnknownLong",
    "NonPortableShort",
    "NonPortableLong",
    "AmbiguousLong",
    "MissingArg",
    "Unseparated",
    "UnexpectedArg",
];

/// Does the observation equal the outcome the specification prescribes
/// (integer code, see Gen_OptParse.tla)?
fn matches_code(code: &[i64], argv: &[String], o: &Obs) -> bool {
    if o.pn || code.len() < 2 {
        return false;
    }
    if code[0] == 1 {
        if !o.ok {
            return false;
        }
        let p = code[1] as usize; // operands are argv[p..] (1-based)
        let want_ops = &argv[p - 1..];
        if o.operands.len() != want_ops.len()
            || o.operands.iter().zip(want_ops).any(|(a, b)| a != b)
            || o.operand_origins.iter().enumerate().any(|(n, &x)| x != (p + n) as i64)
        {
            return false;
        }
        let flat = &code[2..];
        if flat.len() % 5 != 0 || flat.len() / 5 != o.opts.len() {
            return false;
        }
        for (n, (i, sp, f, k, arg)) in o.opts.iter().enumerate() {
            let e = &flat[n * 5..n * 5 + 5];
            if *i != e[0] || *sp != e[1] || *f != e[2] || *k != e[3] {
                return false;
            }
            if e[3] == 0 {
                if arg.is_some() {
                    return false;
                }
            } else {
                let src = &argv[e[3] as usize - 1];
                let want: String = src.chars().skip(e[4] as usize - 1).collect();
                if arg.as_deref() != Some(want.as_str()) {
                    return false;
                }
            }
        }
        true
    } else {
        if o.ok {
            return false;
        }
        let at = code[1];
        let allowed = code[2..].iter().any(|&c| ERR_CODES.get(c as usize) == Some(&o.err));
        allowed && o.fld_origin == at && o.fld == argv[at as usize - 1]
    }
}

fn ints(v: &Value) -> Vec<i64> {
    v.as_array()
        .map(|a| a.iter().map(|x| x.as_i64().unwrap_or(-99)).collect())
        .unwrap_or_default()
}

/// `enum --in GEN [--out MISMATCHES]`
pub fn enumerate(args: &[String]) -> i32 {
    util::quiet_panics();
    let path = util::opt(args, "--in").expect("--in");
    // pass 1: table headers (they may be printed after lines that use them)
    let mut tables: HashMap<i64, Vec<TSpec>> = HashMap::new();
    let mut tokens: Vec<String> = vec![];
    for line in BufReader::new(std::fs::File::open(path).expect("open")).lines() {
        let line = line.expect("read");
        if !line.starts_with("{\"hdr\"") {
            continue;
        }
        let v: Value = serde_json::from_str(&line).expect("json");
        if !v["wf"].as_bool().unwrap_or(false) {
            eprintln!("table {} is not well-formed", v["hdr"]);
            return 2;
        }
        tables.insert(v["hdr"].as_i64().unwrap(), tspecs_from_json(&v["specs"]));
        if tokens.is_empty() {
            tokens = v["tokens"].as_array().unwrap().iter().map(chars_to_string).collect();
        }
    }
    let mut out = util::open_out(args);
    let (mut vectors, mut mismatches, mut accepted, mut rejected, mut lines) = (0u64, 0u64, 0u64, 0u64, 0u64);
    let mut accepted_with_options = 0u64;
    let mut err_hist: HashMap<&'static str, u64> = HashMap::new();
    let mut max_opts = 0usize;
    let mut samples: Vec<Value> = vec![];
    for line in BufReader::new(std::fs::File::open(path).expect("open")).lines() {
        let line = line.expect("read");
        if line.starts_with("{\"hdr\"") || line.is_empty() {
            continue;
        }
        let v: Value = serde_json::from_str(&line).expect("json");
        lines += 1;
        let t = v["t"].as_i64().unwrap();
        let m = v["m"].as_u64().unwrap();
        let Some(tab) = tables.get(&t) else {
            eprintln!("no header for table {t}");
            return 2;
        };
        let specs = build_specs(tab);
        let mode = mode_of_id(m);
        let prefix: Vec<String> = ints(&v["v"]).iter().map(|&i| tokens[i as usize - 1].clone()).collect();
        let mut cases: Vec<(Vec<String>, Vec<i64>)> = vec![];
        if prefix.is_empty() {
            cases.push((prefix.clone(), ints(&v["s"])));
        }
        for (n, code) in v["r"].as_array().unwrap().iter().enumerate() {
            let mut a = prefix.clone();
            a.push(tokens[n].clone());
            cases.push((a, ints(code)));
        }
        for (argv, code) in cases {
            vectors += 1;
            let o = observe(&specs, mode, &argv);
            if o.ok {
                accepted += 1;
                if !o.opts.is_empty() {
                    accepted_with_options += 1;
                }
                max_opts = max_opts.max(o.opts.len());
            } else {
                rejected += 1;
                *err_hist.entry(o.err).or_default() += 1;
            }
            if !matches_code(&code, &argv, &o) {
                mismatches += 1;
                if mismatches <= 2000 {
                    writeln!(out, "{}", json!({"mismatch": true, "t": t, "m": m, "specs": tspecs_to_json(tab),
                        "argv": argv, "expected": code, "obs": obs_to_json(&o)})).unwrap();
                }
            } else if samples.len() < 3 && vectors % 1009 == 1 && argv.len() >= 3 && (o.opts.len() >= 2 || !o.ok) {
                samples.push(json!({"t": t, "m": m, "specs": tspecs_to_json(tab), "argv": argv,
                                    "expected": code, "obs": obs_to_json(&o)}));
            }
        }
    }
    writeln!(out, "{}", json!({"summary": true, "lines": lines, "vectors": vectors, "mismatches": mismatches,
        "accepted": accepted, "accepted_with_options": accepted_with_options, "rejected": rejected, "tables": tables.len(), "errors": err_hist,
        "max_options": max_opts, "samples": samples})).unwrap();
    0
}

// ---------------------------------------------------------------------------
// random (impl -> spec)
// ---------------------------------------------------------------------------

const SHORTS: [char; 6] = ['a', 'b', 'o', 'x', '=', 'é'];
const LONGS: [&str; 9] = ["long", "lo", "lock", "l", "longer", "o", "max", "min", "é-x"];
const VALUES: [&str; 10] = ["X", "", "-", "--", "-a", "é", "=", "a=b", "--long", "-oX"];

fn random_table(rng: &mut StdRng) -> Vec<TSpec> {
    let n = rng.gen_range(0..=6);
    let mut t: Vec<TSpec> = vec![];
    for _ in 0..n {
        let s = if rng.gen_bool(0.7) {
            let c = SHORTS[rng.gen_range(0..SHORTS.len())];
            if t.iter().any(|o| o.s == Some(c)) { None } else { Some(c) }
        } else {
            None
        };
        let l = if rng.gen_bool(0.6) || s.is_none() {
            let l = LONGS[rng.gen_range(0..LONGS.len())].to_string();
            if t.iter().any(|o| o.l.as_deref() == Some(l.as_str())) { None } else { Some(l) }
        } else {
            None
        };
        if s.is_none() && l.is_none() {
            continue;
        }
        t.push(TSpec { s, l, a: rng.gen_bool(0.4), x: rng.gen_bool(0.15) });
    }
    t
}

fn random_arg(rng: &mut StdRng, t: &[TSpec]) -> String {
    let value = |rng: &mut StdRng| VALUES[rng.gen_range(0..VALUES.len())].to_string();
    match rng.gen_range(0..10) {
        0 | 1 => value(rng),
        2 | 3 | 4 => {
            // cluster of letters, mostly from the table
            let mut s = String::from("-");
            for _ in 0..rng.gen_range(1..=3) {
                let c = if !t.is_empty() && rng.gen_bool(0.85) {
                    t[rng.gen_range(0..t.len())].s.unwrap_or('a')
                } else {
                    SHORTS[rng.gen_range(0..SHORTS.len())]
                };
                s.push(c);
            }
            if rng.gen_bool(0.3) {
                s.push_str(&value(rng));
            }
            s
        }
        5 | 6 | 7 => {
            // long option: a prefix of a name (mostly from the table)
            let name = if !t.is_empty() && rng.gen_bool(0.85) {
                t[rng.gen_range(0..t.len())].l.clone().unwrap_or_else(|| "long".into())
            } else {
                LONGS[rng.gen_range(0..LONGS.len())].to_string()
            };
            let n = name.chars().count();
            let keep = if rng.gen_bool(0.5) { n } else { rng.gen_range(1..=n) };
            let mut s = String::from("--");
            s.extend(name.chars().take(keep));
            if rng.gen_bool(0.05) {
                s.push('z');
            }
            if rng.gen_bool(0.35) {
                s.push('=');
                s.push_str(&value(rng));
            }
            s
        }
        8 => "--".into(),
        _ => {
            if rng.gen_bool(0.03) {
                format!("--={}", value(rng))
            } else {
                value(rng)
            }
        }
    }
}

/// A vector that is mostly a valid spelling of some invocation (so that
/// accepted vectors with several options are frequent), with junk mixed in.
fn random_argv(rng: &mut StdRng, t: &[TSpec], maxlen: usize) -> Vec<String> {
    let value = |rng: &mut StdRng| VALUES[rng.gen_range(0..VALUES.len())].to_string();
    let mut v: Vec<String> = vec![];
    let n_opts = rng.gen_range(0..=maxlen.min(5));
    for _ in 0..n_opts {
        if t.is_empty() || rng.gen_bool(0.08) {
            v.push(random_arg(rng, t));
            continue;
        }
        let o = &t[rng.gen_range(0..t.len())];
        let use_long = match (&o.s, &o.l) {
            (Some(_), Some(_)) => rng.gen_bool(0.5),
            (None, _) => true,
            _ => false,
        };
        if use_long {
            let name = o.l.clone().unwrap();
            let n = name.chars().count();
            let keep = if rng.gen_bool(0.6) { n } else { rng.gen_range(1..=n) };
            let mut s = String::from("--");
            s.extend(name.chars().take(keep));
            if o.a {
                match rng.gen_range(0..10) {
                    0 => v.push(s),
                    1..=4 => {
                        s.push('=');
                        s.push_str(&value(rng));
                        v.push(s);
                    }
                    _ => {
                        v.push(s);
                        v.push(value(rng));
                    }
                }
            } else {
                if rng.gen_bool(0.05) {
                    s.push('=');
                    s.push_str(&value(rng));
                }
                v.push(s);
            }
        } else {
            let mut s = String::from("-");
            for _ in 0..rng.gen_range(0..=2) {
                let p = &t[rng.gen_range(0..t.len())];
                if let (Some(c), false) = (p.s, p.a) {
                    s.push(c);
                }
            }
            s.push(o.s.unwrap());
            if o.a {
                match rng.gen_range(0..10) {
                    0 => v.push(s),
                    1..=4 => {
                        s.push_str(&value(rng));
                        v.push(s);
                    }
                    _ => {
                        v.push(s);
                        v.push(value(rng));
                    }
                }
            } else {
                v.push(s);
            }
        }
    }
    if rng.gen_bool(0.3) {
        v.push("--".into());
    }
    for _ in 0..rng.gen_range(0..=3) {
        v.push(if rng.gen_bool(0.8) { value(rng) } else { random_arg(rng, t) });
    }
    v.truncate(maxlen);
    v
}

fn record(tab: &[TSpec], m: u64, argv: &[String]) -> Value {
    let specs = build_specs(tab);
    let o = observe(&specs, mode_of_id(m), argv);
    json!({"specs": tspecs_to_json(tab),
           "mode": {"long": m & 1 != 0, "ext": m & 2 != 0, "same": m & 4 != 0},
           "m": m,
           "argv": argv.iter().map(|s| string_to_chars(s)).collect::<Vec<_>>(),
           "text": argv,
           "obs": obs_to_json(&o)})
}

/// `random --n N --maxlen L --out F`
pub fn random(args: &[String]) -> i32 {
    util::quiet_panics();
    let n = util::opt_usize(args, "--n", 1000);
    let maxlen = util::opt_usize(args, "--maxlen", 8);
    let mut rng = StdRng::seed_from_u64(util::seed().wrapping_mul(0x9E37_79B9_7F4A_7C15) ^ 0xC20);
    let mut out = util::open_out(args);
    let mut unspecified = 0u64;
    for _ in 0..n {
        let tab = random_table(&mut rng);
        let m = if rng.gen_bool(0.6) { 7 } else { rng.gen_range(0..8) };
        let argv: Vec<String> = if rng.gen_bool(0.2) {
            let len = rng.gen_range(0..=maxlen);
            (0..len).map(|_| random_arg(&mut rng, &tab)).collect()
        } else {
            random_argv(&mut rng, &tab, maxlen)
        };
        if argv.iter().any(|a| a.starts_with("--=")) {
            unspecified += 1;
        }
        writeln!(out, "{}", record(&tab, m, &argv)).unwrap();
    }
    eprintln!("{}", json!({"records": n, "with_empty_long_name": unspecified}));
    0
}

/// `redo --in F --out G`: re-executes recorded cases ({specs, m, text}).
pub fn redo(args: &[String]) -> i32 {
    util::quiet_panics();
    let input = util::open_in(args);
    let mut out = util::open_out(args);
    for line in input.lines() {
        let line = line.expect("read");
        if line.trim().is_empty() {
            continue;
        }
        let v: Value = serde_json::from_str(&line).expect("json");
        let tab = tspecs_from_json(&v["specs"]);
        let m = v["m"].as_u64().unwrap_or(7);
        let argv: Vec<String> = match v.get("text").and_then(|t| t.as_array()) {
            Some(a) => a.iter().map(|s| s.as_str().unwrap_or("").to_string()).collect(),
            None => v["argv"].as_array().unwrap().iter().map(|s| s.as_str().unwrap_or("").to_string()).collect(),
        };
        writeln!(out, "{}", record(&tab, m, &argv)).unwrap();
    }
    0
}
