//! Property C10 shares its specification (spec/Semantics.tla) and its
//! conformance harness with C02: lib/checks/c10.py drives the `yv-c02` binary
//! (harness/c02).  This crate only exists as a workspace member.
fn main() {
    eprintln!("yv-c10: use yv-c02 (see lib/checks/c10.py)");
    std::process::exit(2);
}
