//! Conformance harness for property C10, see /verif/DESIGN.md.
fn main() {
    eprintln!("yv-c10: not implemented yet");
    std::process::exit(2);
}
