//! Conformance harness for specification-growth module g02 (see /verif/DESIGN.md 12.6).
fn main() {
    eprintln!("yv-g02: not implemented yet");
    std::process::exit(2);
}
