//! Conformance harness for specification-growth module G02 (job-control
//! built-ins over the job table and the simulated process table), see
//! spec/JobCtl.tla.
//!
//! `yv-g02 explore --in GEN --out TRACE [--dfs-depth N] [--max-dfs M] [--random R] [--threads T]`
//!   GEN lines: `{"m": bool, "h": [cmd...], "next": [cmd...]}`.  For every line and
//!   every command c of `next` (or once for `h` alone if `next` is empty) the script
//!   h+c is run by the REAL shell on the simulated OS: FIFO schedule, depth-first
//!   over the first N scheduling choice points (at most M schedules), then R seeded
//!   random schedules.  One record per *distinct* observation is written:
//!   `{"m","script","steps","outcome","final","sched","nsched"}` (validated by
//!   spec/Trace_JobCtl.tla).
//! `yv-g02 run --script JSON [--m] [--prefix 0,1,..] [--text]`: one run, printed.
mod run;

fn main() {
    let args: Vec<String> = std::env::args().collect();
    if args.len() < 2 {
        eprintln!("usage: yv-g02 <explore|run> ...");
        std::process::exit(2);
    }
    let rest = &args[2..];
    let code = match args[1].as_str() {
        "explore" => run::explore(rest),
        "run" => run::one(rest),
        other => {
            eprintln!("unknown subcommand {other}");
            2
        }
    };
    std::process::exit(code);
}
