//! Rendering of job-control scripts, running them on the simulated OS and
//! turning the runs into the records judged by spec/Trace_JobCtl.tla.
use serde_json::{Value, json};
use std::cell::RefCell;
use std::collections::{BTreeMap, HashMap};
use std::io::{BufRead, Write};
use std::pin::Pin;
use std::rc::Rc;
use yash_env::builtin::{Builtin, Result as BResult, Type};
use yash_env::io::Fd;
use yash_env::job::{ProcessResult, ProcessState};
use yash_env::semantics::{ExitStatus, Field};
use yash_env::system::Read as _;
use yash_env::system::GetPid as _;
use yash_env::system::r#virtual as vs;
use yvcommon::sched::{Outcome, Schedule, next_prefix};
use yvcommon::shell::{FileSpec, ShellCfg, ShellResult, VEnv, proc_table, push_event, run_shell};
use yvcommon::util::{opt, opt_usize};

pub const SLOTS: usize = 3;
/// exit status of the body of slot j (1-based) once it has been released
pub const EXIT_OF: [i32; SLOTS] = [0, 3, 7];
const STEP_LIMIT: usize = 50_000;

const SIGS: [(&str, yash_env::signal::Number); 11] = [
    ("HUP", vs::SIGHUP),
    ("INT", vs::SIGINT),
    ("QUIT", vs::SIGQUIT),
    ("KILL", vs::SIGKILL),
    ("TERM", vs::SIGTERM),
    ("STOP", vs::SIGSTOP),
    ("TSTP", vs::SIGTSTP),
    ("CONT", vs::SIGCONT),
    ("TTIN", vs::SIGTTIN),
    ("TTOU", vs::SIGTTOU),
    ("USR1", vs::SIGUSR1),
];

fn sig_name(raw: i32) -> String {
    SIGS.iter().find(|(_, n)| n.as_raw() == raw).map(|(s, _)| s.to_string()).unwrap_or_else(|| format!("#{raw}"))
}

// ---------------------------------------------------------------------------
// commands
// ---------------------------------------------------------------------------

#[derive(Clone, Debug)]
pub struct Cmd {
    pub k: String,
    pub j: usize,
    pub sig: String,
    pub opt: String,
    pub ops: Vec<String>,
}

impl Cmd {
    pub fn from_json(v: &Value) -> Option<Cmd> {
        Some(Cmd {
            k: v["k"].as_str()?.to_string(),
            j: v["j"].as_u64().unwrap_or(0) as usize,
            sig: v["sig"].as_str().unwrap_or("").to_string(),
            opt: v["opt"].as_str().unwrap_or("").to_string(),
            ops: v["ops"].as_array().map(|a| a.iter().filter_map(|x| x.as_str().map(String::from)).collect()).unwrap_or_default(),
        })
    }
    pub fn to_json(&self) -> Value {
        json!({"k": self.k, "j": self.j, "sig": self.sig, "opt": self.opt, "ops": self.ops})
    }
}

pub fn body_text(j: usize) -> String {
    format!("hold {} </tmp/f{}", EXIT_OF[j - 1], j)
}

/// body of a foreground job that suspends itself first
pub fn fg_body_text(j: usize) -> String {
    format!("selfstop; hold {} </tmp/f{}", EXIT_OF[j - 1], j)
}

fn words(parts: &[&str], ops: &[String]) -> String {
    let mut w: Vec<String> = parts.iter().filter(|s| !s.is_empty()).map(|s| s.to_string()).collect();
    w.extend(ops.iter().cloned());
    w.join(" ")
}

/// The shell text of a script.  Step i (1-based) is followed by `obs i "$!"`.
pub fn render(m: bool, script: &[Cmd]) -> String {
    let mut s = String::new();
    // The shell keeps every FIFO open for reading and writing, so that no
    // later open of a FIFO blocks (blocking FIFO opens do not work under the
    // simulator's `run_virtual` loop).
    s.push_str("exec 7<>/tmp/f1 8<>/tmp/f2 9<>/tmp/f3\n");
    if m {
        s.push_str("set -m\n");
    }
    for (k, c) in script.iter().enumerate() {
        let i = k + 1;
        let mut after = String::new();
        let line = match c.k.as_str() {
            "start" => {
                after = format!("p{}=$!\n", c.j);
                format!("{} &", body_text(c.j))
            }
            "fgstart" => format!("({})", fg_body_text(c.j)),
            "rel" => format!("echo x >/tmp/f{}", c.j),
            "settle" => "settle".to_string(),
            "mon" => (if c.j == 1 { "set -m" } else { "set +m" }).to_string(),
            "jobs" => format!("{} >/tmp/o{i} 2>/tmp/e{i}", words(&["jobs", &c.opt], &c.ops)),
            "wait" => format!("{} 2>/tmp/e{i}", words(&["wait"], &c.ops)),
            "bg" => format!("{} >/tmp/o{i} 2>/tmp/e{i}", words(&["bg"], &c.ops)),
            "fg" => format!("{} >/tmp/o{i} 2>/tmp/e{i}", words(&["fg"], &c.ops)),
            "kill" => format!("{} 2>/tmp/e{i}", words(&["kill", "-s", &c.sig], &c.ops)),
            "killl" => format!("kill -l {} >/tmp/o{i} 2>/tmp/e{i}", c.j),
            other => format!("probe bad-command {other}"),
        };
        s.push_str(&line);
        s.push('\n');
        s.push_str(&format!("obs {i} \"$!\"\n"));
        s.push_str(&after);
    }
    s
}

// ---------------------------------------------------------------------------
// built-ins of the scenario
// ---------------------------------------------------------------------------

/// `hold N`: waits for one byte (or end-of-file) on standard input, then exits with status N.
fn hold_main(env: &mut VEnv, args: Vec<Field>) -> Pin<Box<dyn Future<Output = BResult> + '_>> {
    Box::pin(async move {
        let n = args.first().and_then(|f| f.value.parse::<i32>().ok()).unwrap_or(0);
        let mut buf = [0u8; 1];
        match env.system.read(Fd::STDIN, &mut buf).await {
            Ok(_) => BResult::new(ExitStatus(n)),
            Err(_) => BResult::new(ExitStatus(99)),
        }
    })
}

/// `selfstop`: the calling process sends SIGSTOP to itself.
fn selfstop_main(env: &mut VEnv, _args: Vec<Field>) -> Pin<Box<dyn Future<Output = BResult> + '_>> {
    Box::pin(async move {
        use yash_env::system::SendSignal as _;
        let me = env.system.getpid();
        let _ = env.system.kill(me, Some(vs::SIGSTOP)).await;
        BResult::new(ExitStatus(0))
    })
}

/// `settle`: lets every other simulated process run until it blocks or ends
/// (virtual time only advances when every process is blocked).
fn settle_main(env: &mut VEnv, _args: Vec<Field>) -> Pin<Box<dyn Future<Output = BResult> + '_>> {
    Box::pin(async move {
        use yash_env::system::concurrency::Sleep as _;
        env.system.sleep(std::time::Duration::from_millis(10)).await;
        BResult::new(ExitStatus(0))
    })
}

fn state_json(state: ProcessState) -> (String, i32, String) {
    match state {
        ProcessState::Running => ("R".into(), 0, String::new()),
        ProcessState::Halted(ProcessResult::Stopped(s)) => ("S".into(), 0, sig_name(s.as_raw())),
        ProcessState::Halted(ProcessResult::Exited(e)) => ("E".into(), e.0, String::new()),
        ProcessState::Halted(ProcessResult::Signaled { signal, .. }) => ("K".into(), 0, sig_name(signal.as_raw())),
    }
}

/// `obs I BANG`: records `$?`, `$!` and the job table as the public API shows it.
fn obs_main(env: &mut VEnv, args: Vec<Field>) -> Pin<Box<dyn Future<Output = BResult> + '_>> {
    Box::pin(async move {
        let i = args.first().and_then(|f| f.value.parse::<i64>().ok()).unwrap_or(-1);
        let bang = args.get(1).map(|f| f.value.clone()).unwrap_or_default();
        let mut tab = vec![];
        for (idx, job) in env.jobs.iter() {
            let (st, code, sig) = state_json(job.state);
            tab.push(json!({"n": idx + 1, "pid": job.pid.0, "st": st, "code": code, "sig": sig,
                            "name": job.name, "jc": job.job_controlled}));
        }
        let cur = env.jobs.current_job().map(|x| x as i64 + 1).unwrap_or(0);
        let prev = env.jobs.previous_job().map(|x| x as i64 + 1).unwrap_or(0);
        push_event(json!({"ev": "obs", "i": i, "st": env.exit_status.0, "bang": bang, "tab": tab,
                          "cur": cur, "prev": prev, "pid": env.system.getpid().0}));
        BResult::new(env.exit_status)
    })
}

// ---------------------------------------------------------------------------
// one run
// ---------------------------------------------------------------------------

fn norm_ws(s: &str) -> String {
    s.split_whitespace().collect::<Vec<_>>().join(" ")
}

fn slot_of_name(name: &str) -> i64 {
    let n = norm_ws(name);
    for j in 1..=SLOTS {
        if n == body_text(j) {
            return j as i64;
        }
        if n == fg_body_text(j) {
            return j as i64 + 10;
        }
    }
    -1
}

fn parse_state(tok: &str) -> (String, i64, String) {
    let sigof = |inner: &str| inner.strip_prefix("SIG").unwrap_or(inner).to_string();
    if tok == "Running" {
        return ("R".into(), 0, String::new());
    }
    if tok == "Done" {
        return ("E".into(), 0, String::new());
    }
    if let Some(r) = tok.strip_prefix("Done(").and_then(|r| r.strip_suffix(')')) {
        if let Ok(k) = r.parse::<i64>() {
            return ("E".into(), k, String::new());
        }
    }
    if let Some(r) = tok.strip_prefix("Stopped(").and_then(|r| r.strip_suffix(')')) {
        return ("S".into(), 0, sigof(r));
    }
    if let Some(r) = tok.strip_prefix("Killed(").and_then(|r| r.strip_suffix(')')) {
        return ("K".into(), 0, sigof(r));
    }
    ("?".into(), 0, tok.to_string())
}

fn bad_line(raw: &str) -> Value {
    json!({"n": -99, "mk": "", "pid": -1, "st": "?", "code": 0, "sig": raw, "nm": -1})
}

/// Parses one line of the output of `jobs [-l|-p]`, `bg` or `fg`.
fn parse_line(kind: &str, opt: &str, line: &str, pidmap: &HashMap<i64, i64>) -> Value {
    let slot_of_pid = |p: i64| pidmap.get(&p).copied().unwrap_or(-2);
    if kind == "killl" {
        return json!({"n": 0, "mk": "", "pid": -1, "st": "", "code": 0, "sig": line, "nm": -1});
    }
    if kind == "fg" {
        return json!({"n": 0, "mk": "", "pid": -1, "st": "", "code": 0, "sig": "", "nm": slot_of_name(line)});
    }
    if kind == "jobs" && opt == "-p" {
        return match line.trim().parse::<i64>() {
            Ok(p) if line.trim() == line => json!({"n": 0, "mk": "", "pid": slot_of_pid(p), "st": "", "code": 0, "sig": "", "nm": -1}),
            _ => bad_line(line),
        };
    }
    // [n] ...
    let Some(rest) = line.strip_prefix('[') else { return bad_line(line) };
    let Some(close) = rest.find(']') else { return bad_line(line) };
    let Ok(n) = rest[..close].parse::<i64>() else { return bad_line(line) };
    let rest = &rest[close + 1..];
    let Some(rest) = rest.strip_prefix(' ') else { return bad_line(line) };
    if kind == "bg" {
        return json!({"n": n, "mk": "", "pid": -1, "st": "", "code": 0, "sig": "", "nm": slot_of_name(rest)});
    }
    let mut chars = rest.chars();
    let Some(mk) = chars.next() else { return bad_line(line) };
    if !matches!(mk, '+' | '-' | ' ') {
        return bad_line(line);
    }
    let rest = chars.as_str();
    let Some(mut rest) = rest.strip_prefix(' ') else { return bad_line(line) };
    let mut pid = -1;
    if opt == "-l" {
        // the process ID may be padded on the left
        rest = rest.trim_start_matches(' ');
        let Some(sp) = rest.find(' ') else { return bad_line(line) };
        let Ok(p) = rest[..sp].parse::<i64>() else { return bad_line(line) };
        pid = slot_of_pid(p);
        rest = &rest[sp + 1..];
    }
    // state token: up to the closing parenthesis if it has one before the first blank, else up to the blank
    let first_blank = rest.find(' ').unwrap_or(rest.len());
    let end = match rest.find('(') {
        Some(o) if o < first_blank => match rest.find(')') {
            Some(c) => c + 1,
            None => return bad_line(line),
        },
        _ => first_blank,
    };
    let (st, code, sig) = parse_state(&rest[..end]);
    let name = rest[end..].trim_start();
    json!({"n": n, "mk": mk.to_string(), "pid": pid, "st": st, "code": code, "sig": sig, "nm": slot_of_name(name)})
}

pub struct Run {
    pub record: Value,
    pub choices: Vec<(usize, usize)>,
}

fn outcome_str(o: &Outcome) -> (String, String) {
    match o {
        Outcome::Completed => ("completed".into(), String::new()),
        Outcome::Deadlock => ("deadlock".into(), String::new()),
        Outcome::StepLimit => ("steplimit".into(), String::new()),
        Outcome::Panic(m) => ("panic".into(), m.clone()),
    }
}

fn file_string(r: &ShellResult, path: &str) -> String {
    r.file_content(path).map(|b| String::from_utf8_lossy(&b).into_owned()).unwrap_or_default()
}

pub fn run_script(m: bool, script: &[Cmd], schedule: Schedule) -> Run {
    let text = render(m, script);
    let mut cfg = ShellCfg::command(&text);
    cfg.schedule = schedule;
    cfg.step_limit = STEP_LIMIT;
    cfg.trace_procs = std::env::var("G02_DEBUG").is_ok();
    for j in 1..=SLOTS {
        cfg.files.push(FileSpec::Fifo { path: format!("/tmp/f{j}") });
    }
    cfg.setup = Some(Box::new(|env, state| {
        state.borrow_mut().now = Some(std::time::Instant::now());
        env.builtins.insert("hold", Builtin::new(Type::Mandatory, hold_main));
        env.builtins.insert("settle", Builtin::new(Type::Mandatory, settle_main));
        env.builtins.insert("selfstop", Builtin::new(Type::Mandatory, selfstop_main));
        env.builtins.insert("obs", Builtin::new(Type::Mandatory, obs_main));
    }));
    let r = run_shell(cfg);
    let main_pid = 2i64;
    if std::env::var("G02_DEBUG").is_ok() {
        eprintln!("--- script\n{text}--- outcome {:?} polls {} stderr:\n{}", r.outcome, r.polls, r.stderr_str());
        for e in &r.events {
            eprintln!("{e}");
        }
    }

    // pid of slot j = `$!` observed right after its start
    let mut obs: BTreeMap<i64, &Value> = BTreeMap::new();
    let mut stray = 0;
    for e in &r.events {
        if e["ev"] == "obs" && e["pid"].as_i64() == Some(main_pid) {
            let i = e["i"].as_i64().unwrap_or(-1);
            if i < 1 || i as usize > script.len() || obs.insert(i, e).is_some() {
                stray += 1;
            }
        } else {
            stray += 1;
        }
    }
    let table = proc_table(&r.state);
    let mut pidmap: HashMap<i64, i64> = HashMap::new();
    for (k, c) in script.iter().enumerate() {
        if c.k == "start" {
            if let Some(e) = obs.get(&(k as i64 + 1)) {
                if let Ok(p) = e["bang"].as_str().unwrap_or("").parse::<i64>() {
                    // must be a child of the shell
                    if table.get(&(p as i32)).map(|v| v.0 as i64) == Some(main_pid) {
                        pidmap.entry(p).or_insert(c.j as i64);
                    }
                }
            }
        }
    }
    for (k, c) in script.iter().enumerate() {
        if c.k == "fgstart" {
            if let Some(e) = obs.get(&(k as i64 + 1)) {
                for t in e["tab"].as_array().map(|a| a.as_slice()).unwrap_or(&[]) {
                    let p = t["pid"].as_i64().unwrap_or(-1);
                    if norm_ws(t["name"].as_str().unwrap_or("")) == fg_body_text(c.j)
                        && table.get(&(p as i32)).map(|v| v.0 as i64) == Some(main_pid)
                    {
                        pidmap.entry(p).or_insert(c.j as i64);
                    }
                }
            }
        }
    }
    // a foreground job the shell is still waiting for (no job control): the one
    // child of the shell that is not accounted for
    for c in script.iter() {
        if c.k == "fgstart" && !pidmap.values().any(|s| *s == c.j as i64) {
            let unknown: Vec<i64> =
                table.iter().filter(|(p, v)| v.0 as i64 == main_pid && !pidmap.contains_key(&(**p as i64))).map(|(p, _)| *p as i64).collect();
            if unknown.len() == 1 {
                pidmap.insert(unknown[0], c.j as i64);
            }
        }
    }
    let stop_status = 384 + vs::SIGSTOP.as_raw() as i64;
    let mut steps = vec![];
    for (k, c) in script.iter().enumerate() {
        let i = k as i64 + 1;
        let Some(e) = obs.get(&i) else { break };
        if steps.len() != k {
            break;
        }
        let bang = match e["bang"].as_str().unwrap_or("") {
            "" => 0,
            s => s.parse::<i64>().ok().and_then(|p| pidmap.get(&p).copied()).unwrap_or(-2),
        };
        let tab: Vec<Value> = e["tab"]
            .as_array()
            .map(|a| {
                a.iter()
                    .map(|t| {
                        json!({"n": t["n"], "pid": pidmap.get(&t["pid"].as_i64().unwrap_or(-1)).copied().unwrap_or(-2),
                               "st": t["st"], "code": t["code"], "sig": t["sig"],
                               "nm": slot_of_name(t["name"].as_str().unwrap_or("")), "jc": t["jc"]})
                    })
                    .collect()
            })
            .unwrap_or_default();
        let out: Vec<Value> = if matches!(c.k.as_str(), "jobs" | "bg" | "fg" | "killl") {
            file_string(&r, &format!("/tmp/o{i}")).lines().map(|l| parse_line(&c.k, &c.opt, l, &pidmap)).collect()
        } else {
            vec![]
        };
        let err = !file_string(&r, &format!("/tmp/e{i}")).is_empty();
        let st = match e["st"].as_i64().unwrap_or(-1) {
            x if x == stop_status => -116,
            x => x,
        };
        steps.push(json!({"st": st, "bang": bang, "tab": tab, "cur": e["cur"], "prev": e["prev"],
                          "out": out, "err": err}));
    }
    // final process table, per slot
    let mut fin = vec![];
    for j in 1..=SLOTS as i64 {
        let pid = pidmap.iter().find(|(_, s)| **s == j).map(|(p, _)| *p);
        let v = match pid.and_then(|p| table.get(&(p as i32))) {
            None => json!({"st": "N", "code": 0, "sig": ""}),
            Some((_, st, _)) => {
                if st == "R" || st == "S" {
                    json!({"st": st, "code": 0, "sig": ""})
                } else if let Some(n) = st.strip_prefix('E') {
                    json!({"st": "E", "code": n.parse::<i64>().unwrap_or(-1), "sig": ""})
                } else if let Some(n) = st.strip_prefix('K') {
                    json!({"st": "K", "code": 0, "sig": sig_name(n.parse::<i32>().unwrap_or(0))})
                } else {
                    json!({"st": "?", "code": 0, "sig": st})
                }
            }
        };
        fin.push(v);
    }
    let extra = table.keys().filter(|p| **p as i64 != main_pid && !pidmap.contains_key(&(**p as i64))).count();
    let (outcome, msg) = outcome_str(&r.outcome);
    let stderr = r.stderr_str();
    let record = json!({
        "m": m,
        "script": script.iter().map(|c| c.to_json()).collect::<Vec<_>>(),
        "steps": steps,
        "outcome": outcome,
        "msg": msg,
        "final": fin,
        "extra": extra,
        "stray": stray,
        "status": r.status,
        "stderr": stderr.len() > 0,
    });
    Run { record, choices: r.choices }
}

// ---------------------------------------------------------------------------
// exploration
// ---------------------------------------------------------------------------

fn parse_script(v: &Value) -> Vec<Cmd> {
    v.as_array().map(|a| a.iter().filter_map(Cmd::from_json).collect()).unwrap_or_default()
}

struct Explored {
    records: Vec<Value>,
    runs: usize,
    max_choice_points: usize,
    dfs_exhausted: bool,
}

fn explore_script(m: bool, script: &[Cmd], dfs_depth: usize, max_dfs: usize, random: usize, seed: u64) -> Explored {
    let mut seen: HashMap<String, usize> = HashMap::new();
    let mut records: Vec<Value> = vec![];
    let mut runs = 0;
    let mut maxcp = 0;
    let mut add = |run: Run, sched: Value, records: &mut Vec<Value>| {
        let key = run.record.to_string();
        match seen.get(&key) {
            Some(&k) => {
                let n = records[k]["nsched"].as_u64().unwrap_or(0) + 1;
                records[k]["nsched"] = json!(n);
            }
            None => {
                seen.insert(key, records.len());
                let mut rec = run.record;
                rec["sched"] = sched;
                rec["nsched"] = json!(1);
                records.push(rec);
            }
        }
    };
    // depth-first over the first dfs_depth choice points
    let mut prefix: Vec<usize> = vec![];
    let mut exhausted = false;
    for _ in 0..max_dfs.max(1) {
        let run = run_script(m, script, Schedule::Prefix(prefix.clone()));
        runs += 1;
        maxcp = maxcp.max(run.choices.len());
        let choices = run.choices.clone();
        add(run, json!({"prefix": prefix}), &mut records);
        match next_prefix(&choices, dfs_depth) {
            Some(p) => prefix = p,
            None => {
                exhausted = true;
                break;
            }
        }
    }
    if maxcp > 0 {
        for k in 0..random {
            let s = seed.wrapping_mul(1_000_003).wrapping_add(k as u64);
            let run = run_script(m, script, Schedule::Random(s));
            runs += 1;
            let choices: Vec<usize> = run.choices.iter().map(|c| c.0).collect();
            add(run, json!({"prefix": choices}), &mut records);
        }
    }
    Explored { records, runs, max_choice_points: maxcp, dfs_exhausted: exhausted }
}

pub fn explore(args: &[String]) -> i32 {
    yvcommon::util::quiet_panics();
    let dfs_depth = opt_usize(args, "--dfs-depth", 6);
    let max_dfs = opt_usize(args, "--max-dfs", 16);
    let random = opt_usize(args, "--random", 2);
    let threads = opt_usize(args, "--threads", 8).max(1);
    let seed = yvcommon::util::seed();
    let input = yvcommon::util::open_in(args);
    let mut lines: Vec<String> = vec![];
    for line in input.lines() {
        let Ok(line) = line else { continue };
        if !line.trim().is_empty() {
            lines.push(line);
        }
    }
    let lines = std::sync::Arc::new(lines);
    let cursor = std::sync::Arc::new(std::sync::atomic::AtomicUsize::new(0));
    // different model states may have the same witness script: every script is run once
    let seen = std::sync::Arc::new(std::sync::Mutex::new(std::collections::HashSet::<u64>::new()));
    let (tx, rx) = std::sync::mpsc::sync_channel::<Vec<String>>(1024);
    let mut handles = vec![];
    for _ in 0..threads {
        let lines = std::sync::Arc::clone(&lines);
        let cursor = std::sync::Arc::clone(&cursor);
        let seen = std::sync::Arc::clone(&seen);
        let tx = tx.clone();
        handles.push(std::thread::spawn(move || -> Result<(usize, usize, usize, usize), String> {
            use std::hash::{Hash, Hasher};
            let (mut scripts, mut runs, mut maxcp, mut capped) = (0usize, 0usize, 0usize, 0usize);
            loop {
                let k = cursor.fetch_add(1, std::sync::atomic::Ordering::SeqCst);
                if k >= lines.len() {
                    break;
                }
                let v: Value = serde_json::from_str(&lines[k]).map_err(|e| format!("bad input line {}: {e}", k + 1))?;
                let m = v["m"].as_bool().unwrap_or(false);
                let h = parse_script(&v["h"]);
                let next = parse_script(&v["next"]);
                let mut items: Vec<Vec<Cmd>> = vec![];
                if next.is_empty() {
                    items.push(h);
                } else {
                    for c in next {
                        let mut s = h.clone();
                        s.push(c);
                        items.push(s);
                    }
                }
                for script in items {
                    let text = format!("{m}{}", json!(script.iter().map(|c| c.to_json()).collect::<Vec<_>>()));
                    let mut hasher = std::collections::hash_map::DefaultHasher::new();
                    text.hash(&mut hasher);
                    let hv = hasher.finish();
                    if !seen.lock().map_err(|_| "lock")?.insert(hv) {
                        continue;
                    }
                    scripts += 1;
                    let ex = explore_script(m, &script, dfs_depth, max_dfs, random, seed.wrapping_add(hv % 1_000_003));
                    runs += ex.runs;
                    maxcp = maxcp.max(ex.max_choice_points);
                    if !ex.dfs_exhausted {
                        capped += 1;
                    }
                    tx.send(ex.records.iter().map(|r| r.to_string()).collect()).map_err(|_| "writer gone")?;
                }
            }
            Ok((scripts, runs, maxcp, capped))
        }));
    }
    drop(tx);
    let mut w = yvcommon::util::open_out(args);
    let mut nrec = 0usize;
    for recs in rx {
        for r in recs {
            if writeln!(w, "{r}").is_err() {
                eprintln!("cannot write the trace");
                return 2;
            }
            nrec += 1;
        }
    }
    let _ = w.flush();
    let (mut n, mut runs, mut maxcp, mut capped) = (0usize, 0usize, 0usize, 0usize);
    for h in handles {
        match h.join() {
            Ok(Ok((s, r, m, c))) => {
                n += s;
                runs += r;
                maxcp = maxcp.max(m);
                capped += c;
            }
            Ok(Err(e)) => {
                eprintln!("worker failed: {e}");
                return 2;
            }
            Err(_) => {
                eprintln!("worker thread died");
                return 2;
            }
        }
    }
    // summary: last line of stderr, JSON
    eprintln!("{}", json!({"scripts": n, "runs": runs, "records": nrec, "max_choice_points": maxcp, "dfs_capped": capped}));
    0
}

pub fn one(args: &[String]) -> i32 {
    yvcommon::util::quiet_panics();
    let m = args.iter().any(|a| a == "--m");
    let script: Vec<Cmd> = match opt(args, "--script").map(serde_json::from_str::<Value>) {
        Some(Ok(v)) => parse_script(&v),
        _ => {
            eprintln!("--script JSON required");
            return 2;
        }
    };
    let prefix: Vec<usize> = opt(args, "--prefix").map(|p| p.split(',').filter_map(|x| x.parse().ok()).collect()).unwrap_or_default();
    if args.iter().any(|a| a == "--text") {
        print!("{}", render(m, &script));
        return 0;
    }
    let run = run_script(m, &script, Schedule::Prefix(prefix.clone()));
    let mut rec = run.record;
    rec["sched"] = json!({"prefix": prefix});
    rec["nsched"] = json!(1);
    println!("{rec}");
    eprintln!("choices: {:?}", run.choices);
    0
}

#[allow(dead_code)]
fn _keep(_: Rc<RefCell<()>>) {}
