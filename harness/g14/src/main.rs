//! Conformance harness for specification-growth module g14 (see /verif/DESIGN.md 12.6).
fn main() {
    eprintln!("yv-g14: not implemented yet");
    std::process::exit(2);
}
